// Retained forms of the C13 laws.
//
// The plain sub-checks apply forward map and inverse to one argument and
// judge at once.  A defect that makes two results of the forward map share
// memory (an array extended into the spare capacity of its base, a container
// updated in place) is invisible that way: every single result is correct at
// the moment it is produced.  Here the forward map is evaluated for a batch
// of 2..5 arguments INSIDE ONE QUERY on one shared base value, all results
// are collected in an array, only then the inverse is applied to each of
// them, and afterwards the base, the input and the arguments must still be
// what they were (compared with deep copies / a Go-side model).
//
// Bases include arrays with spare capacity: built inside the query by
// `[range(n)]`, `[.[]]`, a prefix slice `.[:k]`, an earlier setpath or `+`,
// given by the harness with cap > len, and decoded from JSON text by
// encoding/json.
package c13

import (
	"encoding/json"
	"fmt"
	"strings"

	"github.com/itchyny/gojq"
	"pgregory.net/rapid"

	"verif/internal/gen"
	"verif/internal/run"
	"verif/internal/univ"
)

// ---------------------------------------------------------------------------
// Go-side reference setpath (copy on write; only for settable paths)

func setRef(v any, p []any, x any) any {
	if len(p) == 0 {
		return x
	}
	if s, ok := p[0].(string); ok {
		m, _ := v.(map[string]any)
		w := make(map[string]any, len(m)+1)
		for k, e := range m {
			w[k] = e
		}
		w[s] = setRef(m[s], p[1:], x)
		return w
	}
	i, _ := idxOf(p[0])
	a, _ := v.([]any)
	if i < 0 {
		i += len(a)
	}
	n := len(a)
	if i+1 > n {
		n = i + 1
	}
	w := make([]any, n)
	copy(w, a)
	w[i] = setRef(w[i], p[1:], x)
	return w
}

// withCap re-makes every array of v with extra spare slots (a legitimate Go
// input: the caller's slices may have any capacity).
func withCap(v any, extra int) any {
	switch v := v.(type) {
	case []any:
		a := make([]any, len(v), len(v)+extra)
		for i, x := range v {
			a[i] = withCap(x, extra)
		}
		return a
	case map[string]any:
		m := make(map[string]any, len(v))
		for k, x := range v {
			m[k] = withCap(x, extra)
		}
		return m
	}
	return v
}

func decodeText(text string, useNumber bool) (any, error) {
	dec := json.NewDecoder(strings.NewReader(text))
	if useNumber {
		dec.UseNumber()
	}
	var v any
	if err := dec.Decode(&v); err != nil {
		return nil, err
	}
	return v, nil
}

func asPath(v any) ([]any, bool) {
	p, ok := v.([]any)
	if !ok {
		return nil, false
	}
	for _, k := range p {
		if _, isStr := k.(string); isStr {
			continue
		}
		if i, ok := idxOf(k); !ok || i > 2000 {
			return nil, false
		}
	}
	return p, true
}

func rangeArr(n int) []any {
	a := make([]any, n)
	for i := range a {
		a[i] = i
	}
	return a
}

// ---------------------------------------------------------------------------
// ret-setpath: a batch of setpath(p_i; x_i) on one shared base, then getpath

type retSetCase struct {
	Text   string `json:"text,omitempty"` // the input is this JSON text decoded by encoding/json ...
	Num    bool   `json:"num,omitempty"`  // ... with UseNumber
	In     univ.V `json:"in"`             // otherwise this value, every array re-made with Cap spare slots
	Cap    int    `json:"cap,omitempty"`
	Mode   string `json:"mode"` // how the base $b is made from the input inside the query
	Q      univ.V `json:"q"`    // the node the mode applies to
	K      int    `json:"k"`
	Y      univ.V `json:"y"`
	Ps     univ.V `json:"ps"`   // one path per argument
	Args   univ.V `json:"args"` // 2..5 values
	PerArg bool   `json:"per_arg,omitempty"` // one gojq run per argument on the same Go input (mode input only)
}

var retModes = []string{"input", "collect", "range", "slice", "setpath", "plus"}

var retBaseExpr = map[string]string{
	"input":   `.`,
	"collect": `def rb: if type == "array" then [.[] | rb] elif type == "object" then (. as $o | reduce keys[] as $kk ({}; .[$kk] = ($o[$kk] | rb))) else . end; rb`,
	"range":   `setpath($q; [range($k)])`,
	"slice":   `setpath($q; getpath($q) | .[:$k])`,
	"setpath": `setpath($q + [$k]; $y)`,
	"plus":    `setpath($q; getpath($q) + $y)`,
}

var retSetCodes = map[string]*gojq.Code{}

func init() {
	for m, e := range retBaseExpr {
		retSetCodes[m] = run.MustCompile(`(`+e+`) as $b
			| [range($args | length) as $i | $b | setpath($ps[$i]; $args[$i])] as $r
			| {got: [range($r | length) as $i | $r[$i] | getpath($ps[$i])], base: $b}`,
			withVars("$q", "$k", "$y", "$ps", "$args"))
	}
}

func (c retSetCase) input() (any, bool) {
	if c.Text != "" {
		v, err := decodeText(c.Text, c.Num)
		return v, err == nil
	}
	if c.Cap < 0 || c.Cap > 64 {
		return nil, false
	}
	return withCap(c.In.X, c.Cap), true
}

// expectedBase is the Go-side model of the base expressions.
func (c retSetCase) expectedBase(in any) (any, bool) {
	q, ok := asPath(c.Q.X)
	if !ok {
		return nil, false
	}
	switch c.Mode {
	case "input", "collect":
		return in, true
	case "range":
		if c.K < 0 || c.K > 2000 || !settable(in, q) {
			return nil, false
		}
		return setRef(in, q, rangeArr(c.K)), true
	case "slice":
		node, ok := lookupStrict(in, q)
		a, isArr := node.([]any)
		if !ok || !isArr || c.K < 0 || c.K > len(a) {
			return nil, false
		}
		return setRef(in, q, append([]any{}, a[:c.K]...)), true
	case "setpath":
		p := append(append([]any{}, q...), c.K)
		if c.K < 0 || c.K > 2000 || !settable(in, p) {
			return nil, false
		}
		return setRef(in, p, c.Y.X), true
	case "plus":
		node, ok := lookupStrict(in, q)
		a, isArr := node.([]any)
		y, isArr2 := c.Y.X.([]any)
		if !ok || !isArr || !isArr2 {
			return nil, false
		}
		return setRef(in, q, append(append([]any{}, a...), y...)), true
	}
	return nil, false
}

func checkRetSet(c retSetCase) string {
	in, ok := c.input()
	if !ok {
		rec.Discard("outside-domain")
		return ""
	}
	base, ok := c.expectedBase(in)
	args, ok2 := c.Args.X.([]any)
	psAny, ok3 := c.Ps.X.([]any)
	if !ok || !ok2 || !ok3 || len(args) != len(psAny) || len(args) == 0 || len(args) > 8 {
		rec.Discard("outside-domain")
		return ""
	}
	ps := make([][]any, len(psAny))
	for i, p := range psAny {
		pp, ok := asPath(p)
		if !ok || !settable(base, pp) {
			rec.Discard("outside-domain")
			return ""
		}
		ps[i] = pp
	}
	q, _ := asPath(c.Q.X)
	snapIn, snapBase, snapArgs, snapPs := univ.Copy(in), univ.Copy(base), univ.Copy(args), univ.Copy(psAny)
	describe := func() string {
		src := "input " + show(snapIn)
		if c.Text != "" {
			src = "input decoded by encoding/json from " + c.Text
		} else if c.Cap > 0 {
			src += fmt.Sprintf(" (arrays with %d spare slots)", c.Cap)
		}
		return fmt.Sprintf("%s, base `%s` ($q=%s $k=%d $y=%s) = %s, paths %s, arguments %s", src, retBaseExpr[c.Mode], show(q), c.K, show(c.Y.X), show(snapBase), show(snapPs), show(snapArgs))
	}

	var got []any
	if c.PerArg {
		if c.Mode != "input" {
			rec.Discard("outside-domain")
			return ""
		}
		results := make([]any, len(args))
		for i := range args {
			r, msg, budget := one(qSetpath, in, psAny[i], args[i])
			if budget {
				rec.Discard("budget")
				return ""
			}
			if msg != "" {
				return fmt.Sprintf("retained setpath (one run per argument): %s: setpath #%d: %s", describe(), i, msg)
			}
			results[i] = r
		}
		for i := range args {
			g, msg, budget := one(qGetpath, results[i], psAny[i])
			if budget {
				rec.Discard("budget")
				return ""
			}
			if msg != "" {
				return fmt.Sprintf("retained setpath (one run per argument): %s: getpath #%d: %s", describe(), i, msg)
			}
			got = append(got, g)
		}
	} else {
		code := retSetCodes[c.Mode]
		if code == nil {
			return "unknown mode " + c.Mode
		}
		out, msg, budget := one(code, in, q, c.K, c.Y.X, psAny, args)
		if budget {
			rec.Discard("budget")
			return ""
		}
		if msg != "" {
			return fmt.Sprintf("retained setpath: %s: %s", describe(), msg)
		}
		m, _ := out.(map[string]any)
		got, _ = m["got"].([]any)
		if !univ.Equal(m["base"], snapBase) {
			return fmt.Sprintf("retained setpath: %s: after the batch the base is %s", describe(), show(m["base"]))
		}
	}
	if len(got) != len(snapArgs.([]any)) {
		return fmt.Sprintf("retained setpath: %s: %d results", describe(), len(got))
	}
	for i, x := range snapArgs.([]any) {
		if !univ.Equal(got[i], x) {
			return fmt.Sprintf("retained setpath: %s: after all %d updates ran, getpath(%s) of result #%d is %s, not the stored %s", describe(), len(got), show(ps[i]), i, show(got[i]), show(x))
		}
	}
	if !univ.Equal(in, snapIn) {
		return fmt.Sprintf("retained setpath: %s: the input was modified to %s", describe(), show(in))
	}
	if !univ.Equal(args, snapArgs) || !univ.Equal(psAny, snapPs) {
		return fmt.Sprintf("retained setpath: %s: the arguments were modified to %s / %s", describe(), show(psAny), show(args))
	}
	return ""
}

// arrayNodes lists the paths of the arrays (and nulls, which setpath turns
// into arrays) of v, the root included.
func arrayNodes(v any, withNull bool) [][]any {
	var out [][]any
	for _, q := range append([][]any{{}}, allPaths(v)...) {
		n, _ := lookupStrict(v, q)
		if _, ok := n.([]any); ok || (withNull && n == nil) {
			out = append(out, q)
		}
	}
	return out
}

func extends(base any, p []any) bool {
	for i, k := range p {
		if _, isStr := k.(string); isStr {
			continue
		}
		idx, _ := idxOf(k)
		n, ok := lookupStrict(base, p[:i])
		if !ok {
			return false
		}
		if a, isArr := n.([]any); isArr && idx >= len(a) {
			return true
		}
	}
	return false
}

func doRetSet(c retSetCase) string {
	rec.Eval()
	args, _ := c.Args.X.([]any)
	nt := len(args) >= 2
	if nt {
		rec.NT("ret-setpath/" + c.Text + univ.Show(c.In.X) + fmt.Sprint(c.Cap, c.Mode, c.K, c.PerArg) + univ.Show(c.Q.X) + univ.Show(c.Y.X) + univ.Show(c.Ps.X) + univ.Show(c.Args.X))
	}
	rec.Class("ret-setpath/mode=" + c.Mode)
	switch {
	case c.Text != "":
		rec.Class("ret-setpath/input-decoded-by-encoding/json")
	case c.Cap > 0:
		rec.Class("ret-setpath/input-with-spare-capacity")
	default:
		rec.Class("ret-setpath/input-exact-capacity")
	}
	if c.PerArg {
		rec.Class("ret-setpath/one-run-per-argument")
	}
	if in, ok := c.input(); ok {
		if base, ok := c.expectedBase(in); ok {
			n := 0
			if ps, ok := c.Ps.X.([]any); ok {
				for _, p := range ps {
					if pp, ok := asPath(p); ok && extends(base, pp) {
						n++
					}
				}
			}
			switch {
			case n >= 2:
				rec.Class("ret-setpath/two-or-more-extending-paths")
			case n == 1:
				rec.Class("ret-setpath/one-extending-path")
			default:
				rec.Class("ret-setpath/no-extending-path")
			}
		}
	}
	sample("ret-setpath", nt, c)
	return checkRetSet(c)
}

// genRetSet draws a case: input, base mode and node, then paths on the
// expected base (most of them extending one array of it) and arguments.
func genRetSet() *rapid.Generator[retSetCase] {
	hasArray := func(v any) bool { return len(arrayNodes(v, false)) > 0 }
	return rapid.Custom(func(t *rapid.T) retSetCase {
		var c retSetCase
		var in any
		// the input
		var v any
		switch rapid.IntRange(0, 5).Draw(t, "inkind") {
		case 0, 1: // an array of small integers, possibly nested under a key
			v = rangeArr(rapid.IntRange(0, 6).Draw(t, "n"))
			if rapid.IntRange(0, 2).Draw(t, "nest") == 0 {
				v = map[string]any{genKey().Draw(t, "key"): v, "z": []any{v}}
			}
		case 2:
			v = genRootContainer(gen.Opt{Reps: true}).Draw(t, "container")
		default:
			v = genAny(gen.Opt{Reps: true}).Draw(t, "v")
		}
		v = sanitize(v)
		if !hasArray(v) {
			v = []any{v, 1}
		}
		if rapid.IntRange(0, 2).Draw(t, "astext") == 0 {
			text, ok := univ.JSONText(v)
			if _, err := decodeText(text, false); ok && err == nil {
				c.Text, c.Num = text, rapid.Bool().Draw(t, "usenumber")
				in, _ = decodeText(text, c.Num)
			}
		}
		if c.Text == "" {
			c.In = univ.V{X: v}
			c.Cap = rapid.SampledFrom([]int{0, 0, 1, 2, 4, 8}).Draw(t, "cap")
			in = withCap(v, c.Cap)
		}
		// the base
		c.Mode = rapid.SampledFrom(retModes).Draw(t, "mode")
		arrs := arrayNodes(in, false)
		q := arrs[rapid.IntRange(0, len(arrs)-1).Draw(t, "node")]
		node, _ := lookupStrict(in, q)
		a := node.([]any)
		c.Y = univ.V{X: nil}
		switch c.Mode {
		case "range":
			c.K = rapid.IntRange(0, 6).Draw(t, "n")
		case "slice":
			c.K = rapid.IntRange(0, len(a)).Draw(t, "k")
		case "setpath":
			c.K = len(a) + rapid.SampledFrom([]int{0, 0, 0, 1, 3}).Draw(t, "beyond")
			c.Y = univ.V{X: genValue(gen.Opt{Reps: true}, 1, 2).Draw(t, "y")}
		case "plus":
			n := rapid.IntRange(0, 3).Draw(t, "ylen")
			y := make([]any, n)
			for i := range y {
				y[i] = genValue(gen.Opt{Reps: true}, 1, 2).Draw(t, "yelem")
			}
			c.Y = univ.V{X: y}
		}
		c.Q = univ.V{X: q}
		if c.Mode == "input" && rapid.IntRange(0, 2).Draw(t, "perarg") == 0 {
			c.PerArg = true
		}
		base, ok := c.expectedBase(in)
		if !ok { // cannot happen by construction; keep the case judgeable
			c.Mode, base = "input", in
		}
		// the paths
		n := rapid.IntRange(2, 5).Draw(t, "batch")
		targets := arrayNodes(base, true)
		pick := func() []any {
			var tq []any
			if bn, ok := lookupStrict(base, q); ok && rapid.IntRange(0, 3).Draw(t, "atnode") != 0 {
				if _, isArr := bn.([]any); isArr || bn == nil {
					tq = q
				}
			}
			if tq == nil {
				tq = targets[rapid.IntRange(0, len(targets)-1).Draw(t, "target")]
			}
			return tq
		}
		extend := func(tq []any) []any {
			bn, _ := lookupStrict(base, tq)
			l := 0
			if ba, ok := bn.([]any); ok {
				l = len(ba)
			}
			p := append(append([]any{}, tq...), l+rapid.SampledFrom([]int{0, 0, 0, 0, 1, 2}).Draw(t, "beyond"))
			for i := rapid.SampledFrom([]int{0, 0, 0, 1, 1, 2}).Draw(t, "suffix"); i > 0; i-- {
				if rapid.Bool().Draw(t, "strstep") {
					p = append(p, genKey().Draw(t, "key"))
				} else {
					p = append(p, rapid.IntRange(0, 2).Draw(t, "idx"))
				}
			}
			return p
		}
		ps := make([]any, n)
		if len(targets) == 0 {
			for i := range ps {
				ps[i] = []any{}
			}
		} else {
			switch rapid.IntRange(0, 3).Draw(t, "pathkind") {
			case 0, 1: // the same extending path for every argument
				p := extend(pick())
				for i := range ps {
					ps[i] = append([]any{}, p...)
				}
			case 2: // sibling extensions of one array
				tq := pick()
				for i := range ps {
					ps[i] = extend(tq)
				}
			default: // anything settable
				for i := range ps {
					p := genPath(base).Draw(t, "p")
					if _, ok := asPath(p); !ok || !settable(base, p) {
						p = extend(pick())
					}
					ps[i] = p
				}
			}
		}
		c.Ps = univ.V{X: ps}
		args := make([]any, n)
		for i := range args {
			if rapid.Bool().Draw(t, "simplearg") {
				args[i] = rapid.SampledFrom([]any{"x", "y", "z", 7, 8, 9, nil, false, true}).Draw(t, "arg")
			} else {
				args[i] = genValue(valOpt, 2, 3).Draw(t, "arg")
			}
		}
		c.Args = univ.V{X: args}
		return c
	})
}

// ---------------------------------------------------------------------------
// ret-batch: the other laws, forward map over a batch in one query, results
// retained, then the inverse

type batchCase struct {
	Law  string `json:"law"`
	Args univ.V `json:"args"`
	Sep  string `json:"sep,omitempty"`
}

var batchLaws = map[string]*gojq.Code{
	// forward results (event arrays) of all arguments are kept, then rebuilt
	"fromstream": run.MustCompile(`[$args[] | [tostream]] | map(fromstream(.[]))`, withVars("$args", "$s")),
	// one fromstream over the concatenated streams of all arguments
	"fromstream-concat": run.MustCompile(`[fromstream($args[] | tostream)]`, withVars("$args", "$s")),
	// every partial state of the replay is kept; the last one is the value
	"replay": run.MustCompile(`[$args[] | [tostream | select(length == 2)] as $ev | {ev: $ev, states: [foreach $ev[] as [$p, $v] (null; setpath($p; $v))]}]`, withVars("$args", "$s")),
	// rebuilding a value from its paths and getpath, every partial state kept
	"paths-rebuild": run.MustCompile(`[$args[] | . as $b | [foreach paths as $p (null; setpath($p; $b | getpath($p)))] | last]`, withVars("$args", "$s")),
	"entries":       run.MustCompile(`[$args[] | to_entries] | map(from_entries)`, withVars("$args", "$s")),
	"with-entries":  run.MustCompile(`[$args[] | with_entries(.)] | map(with_entries(.))`, withVars("$args", "$s")),
	"tojson":        run.MustCompile(`[$args[] | tojson] | map(fromjson)`, withVars("$args", "$s")),
	"explode":       run.MustCompile(`[$args[] | explode] | map(implode)`, withVars("$args", "$s")),
	"base64":        run.MustCompile(`[$args[] | @base64] | map(@base64d)`, withVars("$args", "$s")),
	"uri":           run.MustCompile(`[$args[] | @uri] | map(@urid)`, withVars("$args", "$s")),
	"split":         run.MustCompile(`[$args[] | split($s)] | map(join($s))`, withVars("$args", "$s")),
}

var batchLawNames = []string{"fromstream", "fromstream-concat", "replay", "paths-rebuild", "entries", "with-entries", "tojson", "explode", "base64", "uri", "split"}

func batchDomain(law string, x any) bool {
	switch law {
	case "fromstream", "fromstream-concat", "replay":
		return univ.Valid(x)
	case "paths-rebuild": // a value without paths rebuilds to nothing
		switch x := x.(type) {
		case []any:
			return len(x) > 0
		case map[string]any:
			return len(x) > 0
		}
		return false
	case "entries", "with-entries":
		_, ok := x.(map[string]any)
		return ok
	case "tojson":
		return finiteValue(x)
	case "explode", "base64", "uri", "split":
		s, ok := x.(string)
		return ok && finiteValue(s)
	}
	return false
}

func checkBatch(c batchCase) string {
	code := batchLaws[c.Law]
	args, ok := c.Args.X.([]any)
	if code == nil || !ok || len(args) == 0 || len(args) > 8 || (c.Law == "split" && (c.Sep == "" || !finiteValue(c.Sep))) {
		rec.Discard("outside-domain")
		return ""
	}
	for _, x := range args {
		if !batchDomain(c.Law, x) {
			rec.Discard("outside-domain")
			return ""
		}
	}
	snap := univ.Copy(args).([]any)
	out, msg, budget := one(code, nil, args, c.Sep)
	if budget {
		rec.Discard("budget")
		return ""
	}
	if msg != "" {
		return fmt.Sprintf("retained %s on the batch %s: %s", c.Law, show(snap), msg)
	}
	got, _ := out.([]any)
	if len(got) != len(snap) {
		return fmt.Sprintf("retained %s on the batch %s: %d results: %s", c.Law, show(snap), len(got), show(out))
	}
	for i, x := range snap {
		g := got[i]
		if c.Law == "replay" {
			m, _ := g.(map[string]any)
			evs, _ := m["ev"].([]any)
			states, _ := m["states"].([]any)
			if len(states) == 0 || len(states) != len(evs) {
				return fmt.Sprintf("retained replay of %s: %d states for %d events", show(x), len(states), len(evs))
			}
			// every retained partial state against a Go-side fold of the same events
			var ref any
			for k, e := range evs {
				ev, _ := e.([]any)
				if len(ev) != 2 {
					return fmt.Sprintf("retained replay of %s: malformed event %s", show(x), show(e))
				}
				p, ok := asPath(ev[0])
				if !ok || !settable(ref, p) {
					return fmt.Sprintf("retained replay of %s: event %s cannot be replayed on %s", show(x), show(e), show(ref))
				}
				ref = setRef(ref, p, ev[1])
				if !univ.Equal(states[k], ref) {
					return fmt.Sprintf("retained replay of %s: after all steps ran, the state kept after event #%d %s is %s, the replay of the first %d events gives %s", show(x), k, show(e), show(states[k]), k+1, show(ref))
				}
			}
			g = states[len(states)-1]
		}
		if !univ.Equal(g, x) {
			return fmt.Sprintf("retained %s on the batch %s: result #%d is %s, not %s", c.Law, show(snap), i, show(g), show(x))
		}
	}
	if !univ.Equal(args, snap) {
		return fmt.Sprintf("retained %s: the arguments %s were modified to %s", c.Law, show(snap), show(args))
	}
	return ""
}

func doBatch(c batchCase) string {
	rec.Eval()
	args, _ := c.Args.X.([]any)
	nt := len(args) >= 2
	if nt {
		rec.NT("ret-batch/" + c.Law + "/" + univ.Show(c.Args.X) + "/" + c.Sep)
	}
	rec.Class("ret-batch/" + c.Law)
	sample("ret-batch", nt && size(c.Args.X) >= 6, c)
	return checkBatch(c)
}

func genBatch() *rapid.Generator[batchCase] {
	return rapid.Custom(func(t *rapid.T) batchCase {
		c := batchCase{Law: rapid.SampledFrom(batchLawNames).Draw(t, "law")}
		n := rapid.IntRange(2, 5).Draw(t, "batch")
		args := make([]any, n)
		var first string
		for i := range args {
			switch c.Law {
			case "fromstream", "fromstream-concat", "replay":
				args[i] = genAny(valOpt).Draw(t, "v")
			case "paths-rebuild":
				v := genRootContainer(valOpt).Draw(t, "v")
				if !batchDomain(c.Law, v) {
					v = []any{v}
				}
				args[i] = v
			case "entries", "with-entries":
				args[i] = genObject(valOpt).Draw(t, "obj")
			case "tojson":
				args[i] = sanitize(genAny(gen.Opt{Reps: true}).Draw(t, "v"))
			default:
				s := genStr(12).Draw(t, "s")
				if i == 0 {
					first = s
				}
				args[i] = s
			}
		}
		// related arguments (a value and an extension of it) are the
		// interesting neighbours for shared-memory defects
		if a, ok := args[0].([]any); ok && rapid.Bool().Draw(t, "related") {
			args[1] = append(append([]any{}, a...), "tail")
		}
		if c.Law == "split" {
			c.Sep = genSep(first).Draw(t, "sep")
		}
		c.Args = univ.V{X: args}
		return c
	})
}

// ---------------------------------------------------------------------------
// bounded-exhaustive core of ret-setpath: small integer arrays with spare
// capacity of every origin, at the root and under a key, extended by two
// arguments at index == length, beyond it, and nested

func exhaustiveRetained() {
	idx, bad := 0, 0
	emit := func(c retSetCase) {
		idx++
		if !rec.Mine(idx) || bad >= 12 { // a dozen reports per shard say enough
			return
		}
		if msg := doRetSet(c); msg != "" {
			bad++
			rec.Direct("ret-setpath", c, "%s", msg)
		}
	}
	for n := 0; n <= 4; n++ {
		for _, nested := range []bool{false, true} {
			wrap := func(v any) any {
				if nested {
					return map[string]any{"a": v}
				}
				return v
			}
			var q []any = []any{}
			if nested {
				q = []any{"a"}
			}
			type origin struct {
				text      string
				in        any
				cap       int
				mode      string
				k         int
				y         any
				perArg    bool
				available bool
			}
			textOf := func(v any) string { s, _ := univ.JSONText(v); return s }
			origins := []origin{
				{mode: "input", in: wrap(rangeArr(n)), cap: 4, available: true},
				{mode: "input", in: wrap(rangeArr(n)), cap: 4, perArg: true, available: true},
				{mode: "input", text: textOf(wrap(rangeArr(n))), available: true},
				{mode: "input", text: textOf(wrap(rangeArr(n))), perArg: true, available: true},
				{mode: "collect", in: wrap(rangeArr(n)), available: true},
				{mode: "range", in: wrap(nil), k: n, available: true},
				{mode: "slice", in: wrap(rangeArr(n + 2)), k: n, available: true},
				{mode: "slice", text: textOf(wrap(rangeArr(n + 2))), k: n, available: true},
				{mode: "setpath", in: wrap(rangeArr(max(n-1, 0))), k: n - 1, y: n - 1, available: n >= 1},
				{mode: "plus", in: wrap(rangeArr(max(n-1, 0))), y: []any{n - 1}, available: n >= 1},
			}
			for _, o := range origins {
				if !o.available {
					continue
				}
				for _, tail := range [][]any{{n}, {n + 1}, {n, "a"}, {n, 0}, {n + 2, "a", 1}} {
					p := append(append([]any{}, q...), tail...)
					sib := append(append([]any{}, q...), n+1)
					for _, ps := range [][]any{{p, p}, {p, sib}, {p, p, p}} {
						args := []any{"x", "y", []any{"z"}}[:len(ps)]
						c := retSetCase{Text: o.text, In: univ.V{X: o.in}, Cap: o.cap, Mode: o.mode, Q: univ.V{X: q}, K: o.k, Y: univ.V{X: o.y},
							Ps: univ.V{X: ps}, Args: univ.V{X: append([]any{}, args...)}, PerArg: o.perArg}
						emit(c)
					}
				}
			}
		}
	}
	rec.Exhaustive("retained setpath: integer arrays of length 0..4 with spare capacity of 10 origins (harness cap, encoding/json, [.[]], [range(n)], .[:k], earlier setpath, +), root and nested, x 5 extending paths x 3 batches", bad < 12)
}
