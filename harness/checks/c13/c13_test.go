// C13 — documented inverse pairs are exact inverses.
//
// Every law of the property statement has its own sub-check.  The oracle is
// the identity (the input itself, deep-copied before the run and compared by
// jq value with univ.Equal), or, for the path laws, the value x that was
// stored / a Go-side walk of the input.  Nothing asks gojq what the expected
// value is.
package c13

import (
	"encoding/json"
	"fmt"
	"math"
	"math/big"
	"sort"
	"strconv"
	"strings"
	"testing"
	"time"
	"unicode/utf8"

	"github.com/itchyny/gojq"
	"pgregory.net/rapid"

	"verif/internal/evid"
	"verif/internal/gen"
	"verif/internal/run"
	"verif/internal/univ"
)

var rec *evid.Rec

// step budget of one gojq run (the queries are fixed and terminate; the
// budget only protects the harness) and the output cap (2 outputs are already
// one too many for every law).
const (
	maxSteps = 20_000_000
	maxOut   = 3
)

// date domain of the property: whole seconds within years 1..9999.
const (
	minSec int64 = -62135596800 // 0001-01-01T00:00:00Z
	maxSec int64 = 253402300799 // 9999-12-31T23:59:59Z
)

// class of the known finding F10 (strptime rejects the zero time.Time).
const zeroTimeClass = "C13/zero-time"

func withVars(names ...string) gojq.CompilerOption { return gojq.WithVariables(names) }

var (
	qFromstream = run.MustCompile("fromstream(tostream)")
	qTostream   = run.MustCompile("[tostream]")
	qReplay     = run.MustCompile("reduce (tostream | select(length == 2)) as [$p, $v] (null; setpath($p; $v))")
	qPaths      = run.MustCompile("[paths]")
	qPathRec    = run.MustCompile("[path(..)]")
	qGetpath    = run.MustCompile("getpath($p)", withVars("$p"))
	qSetGetID   = run.MustCompile("setpath($p; getpath($p))", withVars("$p"))
	qSetpath    = run.MustCompile("setpath($p; $x)", withVars("$p", "$x"))
	qSetGetX    = run.MustCompile("setpath($p; $x) | getpath($p)", withVars("$p", "$x"))
	qEntries    = run.MustCompile("to_entries | from_entries")
	qWithEnt    = run.MustCompile("with_entries(.)")
	qExplode    = run.MustCompile("explode | implode")
	qSplitJoin  = run.MustCompile("split($s) | join($s)", withVars("$s"))
	qBase64     = run.MustCompile("@base64 | @base64d")
	qURI        = run.MustCompile("@uri | @urid")
	qJSON       = run.MustCompile("tojson | fromjson")
	qToNumber   = run.MustCompile("tostring | tonumber")
	qDate       = run.MustCompile("todate | fromdate")
	qGmtime     = run.MustCompile("gmtime | mktime")
)

// ---------------------------------------------------------------------------
// running one law

// one runs code expecting exactly one output.  budget reports that the step
// budget ran out (the case must not be judged).
func one(code *gojq.Code, in any, vars ...any) (out any, msg string, budget bool) {
	res := run.Exec(code, in, maxSteps, maxOut, vars...)
	if res.Budget && len(res.Vals) < maxOut {
		return nil, "", true
	}
	if res.Err != nil {
		return nil, fmt.Sprintf("error %q", res.Err.Error()), false
	}
	if len(res.Vals) != 1 {
		return nil, fmt.Sprintf("%d outputs %s instead of one", len(res.Vals), univ.ShowAll(res.Vals)), false
	}
	return res.Vals[0], "", false
}

// identity: code applied to in must return exactly in.
func identity(name string, code *gojq.Code, in any, vars ...any) string {
	snap := univ.Copy(in)
	out, msg, budget := one(code, in, vars...)
	if budget {
		rec.Discard("budget")
		return ""
	}
	if msg != "" {
		return fmt.Sprintf("`%s` on %s: %s", name, show(snap), msg)
	}
	if !univ.Equal(out, snap) {
		return fmt.Sprintf("`%s` on %s returned %s", name, show(snap), show(out))
	}
	return ""
}

func show(v any) string {
	s := univ.Show(v)
	if len(s) > 600 {
		s = s[:600] + "..."
	}
	return s
}

// ---------------------------------------------------------------------------
// reference path semantics (Go side)

func idxOf(k any) (int, bool) {
	switch k := k.(type) {
	case int:
		return k, true
	case float64:
		if k == math.Trunc(k) && math.Abs(k) < 1<<31 {
			return int(k), true
		}
	case *big.Int:
		if k.IsInt64() && k.Int64() > -(1<<31) && k.Int64() < 1<<31 {
			return int(k.Int64()), true
		}
	case json.Number:
		if n, err := strconv.Atoi(string(k)); err == nil {
			return n, true
		}
	}
	return 0, false
}

// lookup is the documented getpath on paths of strings and integers: a
// missing key / an index out of range / anything below null is null,
// negative indices count from the end, a key of the wrong kind is an error.
func lookup(v any, p []any) (any, bool) {
	cur := v
	for _, k := range p {
		if s, ok := k.(string); ok {
			switch c := cur.(type) {
			case nil:
				cur = nil
			case map[string]any:
				cur = c[s]
			default:
				return nil, false
			}
			continue
		}
		i, ok := idxOf(k)
		if !ok {
			return nil, false
		}
		switch c := cur.(type) {
		case nil:
			cur = nil
		case []any:
			if i < 0 {
				i += len(c)
			}
			if 0 <= i && i < len(c) {
				cur = c[i]
			} else {
				cur = nil
			}
		default:
			return nil, false
		}
	}
	return cur, true
}

// settable reports whether the documented setpath accepts path p on v:
// string keys go through objects and null, integer keys through arrays and
// null, a negative index must address an existing element.
func settable(v any, p []any) bool {
	cur := v
	for _, k := range p {
		if s, ok := k.(string); ok {
			switch c := cur.(type) {
			case nil:
				cur = nil
			case map[string]any:
				cur = c[s]
			default:
				return false
			}
			continue
		}
		i, ok := idxOf(k)
		if !ok {
			return false
		}
		switch c := cur.(type) {
		case nil:
			if i < 0 {
				return false
			}
			cur = nil
		case []any:
			if i < 0 {
				i += len(c)
				if i < 0 {
					return false
				}
			}
			if i < len(c) {
				cur = c[i]
			} else {
				cur = nil
			}
		default:
			return false
		}
	}
	return true
}

func sortedKeys(m map[string]any) []string {
	ks := make([]string, 0, len(m))
	for k := range m {
		ks = append(ks, k)
	}
	sort.Strings(ks)
	return ks
}

// allPaths lists the paths of every node below the root (pre-order, keys
// sorted).  Used to draw paths and as an unasserted cross-check.
func allPaths(v any) [][]any {
	var out [][]any
	var walk func(v any, p []any)
	walk = func(v any, p []any) {
		switch v := v.(type) {
		case []any:
			for i, x := range v {
				q := append(append([]any{}, p...), i)
				out = append(out, q)
				walk(x, q)
			}
		case map[string]any:
			for _, k := range sortedKeys(v) {
				q := append(append([]any{}, p...), k)
				out = append(out, q)
				walk(v[k], q)
			}
		}
	}
	walk(v, nil)
	return out
}

func pathsToAny(ps [][]any) []any {
	out := make([]any, len(ps))
	for i, p := range ps {
		out[i] = p
	}
	return out
}

func size(v any) int {
	n := 1
	switch v := v.(type) {
	case []any:
		for _, x := range v {
			n += size(x)
		}
	case map[string]any:
		for _, x := range v {
			n += size(x)
		}
	}
	return n
}

func isContainer(v any) bool {
	switch v.(type) {
	case []any, map[string]any:
		return true
	}
	return false
}

// ---------------------------------------------------------------------------
// cases (these are the replay file formats)

type valCase struct {
	V univ.V `json:"v"`
}

type strCase struct {
	S   string `json:"s"`
	Sep string `json:"sep,omitempty"`
}

type secCase struct {
	Sec int64  `json:"sec"`
	Rep string `json:"rep"` // int | float | big | num | num.0
}

type setCase struct {
	V univ.V `json:"v"`
	P univ.V `json:"p"`
	X univ.V `json:"x"`
}

// ---------------------------------------------------------------------------
// domain predicates

// finiteNum: a number of any representation whose value is a finite double
// or an exact integer.
func finiteNum(v any) bool {
	switch v := v.(type) {
	case int, *big.Int:
		return true
	case float64:
		return !math.IsNaN(v) && !math.IsInf(v, 0)
	case json.Number:
		if univ.IsIntLit(string(v)) {
			return true
		}
		f, err := strconv.ParseFloat(string(v), 64)
		return err == nil && !math.IsInf(f, 0) && !math.IsNaN(f)
	}
	return false
}

// finiteValue: no NaN, no infinity, no out-of-range literal, valid UTF-8.
func finiteValue(v any) bool {
	switch v := v.(type) {
	case nil, bool:
		return true
	case string:
		return utf8.ValidString(v)
	case []any:
		for _, x := range v {
			if !finiteValue(x) {
				return false
			}
		}
		return true
	case map[string]any:
		for k, x := range v {
			if !utf8.ValidString(k) || !finiteValue(x) {
				return false
			}
		}
		return true
	}
	return finiteNum(v)
}

// sanitize maps a generated value into the tojson domain (pure function).
func sanitize(v any) any {
	switch v := v.(type) {
	case []any:
		a := make([]any, len(v))
		for i, x := range v {
			a[i] = sanitize(x)
		}
		return a
	case map[string]any:
		m := make(map[string]any, len(v))
		for k, x := range v {
			m[k] = sanitize(x)
		}
		return m
	case float64:
		if !finiteNum(v) {
			return 0.25
		}
	case json.Number:
		if !finiteNum(v) {
			return json.Number("1e300")
		}
	}
	return v
}

// ---------------------------------------------------------------------------
// the laws

func checkFromstream(c valCase) string {
	return identity("fromstream(tostream)", qFromstream, c.V.X)
}

func events(v any) ([]any, string, bool) {
	out, msg, budget := one(qTostream, v)
	if budget || msg != "" {
		return nil, msg, budget
	}
	evs, ok := out.([]any)
	if !ok {
		return nil, "[tostream] is not an array: " + show(out), false
	}
	return evs, "", false
}

// every tostream event [p, leaf] satisfies getpath(p) == leaf.
func checkTostreamGetpath(c valCase) string {
	v := c.V.X
	snap := univ.Copy(v)
	evs, msg, budget := events(v)
	if budget {
		rec.Discard("budget")
		return ""
	}
	if msg != "" {
		return fmt.Sprintf("`[tostream]` on %s: %s", show(snap), msg)
	}
	for _, e := range evs {
		ev, ok := e.([]any)
		if !ok || len(ev) != 2 {
			continue
		}
		p, ok := ev[0].([]any)
		if !ok {
			return fmt.Sprintf("tostream of %s emits the event %s whose path is not an array", show(snap), show(e))
		}
		leaf := ev[1]
		got, msg, budget := one(qGetpath, v, p)
		if budget {
			rec.Discard("budget")
			return ""
		}
		if msg != "" {
			return fmt.Sprintf("tostream of %s emits %s but getpath(%s): %s", show(snap), show(e), show(p), msg)
		}
		if !univ.Equal(got, leaf) {
			return fmt.Sprintf("tostream of %s emits %s but getpath(%s) is %s", show(snap), show(e), show(p), show(got))
		}
		// the same through the reference getpath (independent of funcGetpath)
		ref, ok := lookup(snap, p)
		if !ok || !univ.Equal(ref, leaf) {
			return fmt.Sprintf("tostream of %s emits %s but the value at %s is %s", show(snap), show(e), show(p), show(ref))
		}
	}
	return ""
}

// replaying the two-element events with setpath on null rebuilds the value.
func checkTostreamReplay(c valCase) string {
	return identity("reduce (tostream|select(length==2)) as [$p,$v] (null; setpath($p;$v))", qReplay, c.V.X)
}

func gojqPaths(v any) (ps []any, msg string, budget bool) {
	out, msg, budget := one(qPaths, v)
	if budget || msg != "" {
		return nil, msg, budget
	}
	ps, ok := out.([]any)
	if !ok {
		return nil, "[paths] is not an array: " + show(out), false
	}
	return ps, "", false
}

// [paths] equals [path(..)] without the root.
func checkPaths(c valCase) string {
	v := c.V.X
	snap := univ.Copy(v)
	ps, msg, budget := gojqPaths(v)
	if budget {
		rec.Discard("budget")
		return ""
	}
	if msg != "" {
		return fmt.Sprintf("`[paths]` on %s: %s", show(snap), msg)
	}
	out, msg, budget := one(qPathRec, v)
	if budget {
		rec.Discard("budget")
		return ""
	}
	if msg != "" {
		return fmt.Sprintf("`[path(..)]` on %s: %s", show(snap), msg)
	}
	all, ok := out.([]any)
	if !ok {
		return "[path(..)] is not an array: " + show(out)
	}
	rest := make([]any, 0, len(all))
	for _, p := range all {
		if a, ok := p.([]any); ok && len(a) == 0 {
			continue
		}
		rest = append(rest, p)
	}
	if !univ.Equal(ps, rest) {
		return fmt.Sprintf("on %s: [paths] = %s but [path(..)] without the root = %s", show(snap), show(ps), show(rest))
	}
	// unasserted observation: agreement with a pre-order walk in Go
	if univ.Equal(ps, pathsToAny(allPaths(snap))) {
		rec.Class("paths/agrees-with-go-walk")
	} else {
		rec.Class("paths/differs-from-go-walk")
	}
	return ""
}

// setpath(p; getpath(p)) is the identity for every p in paths.
func checkSetpathID(c valCase) string {
	v := c.V.X
	ps, msg, budget := gojqPaths(v)
	if budget {
		rec.Discard("budget")
		return ""
	}
	if msg != "" {
		return fmt.Sprintf("`[paths]` on %s: %s", show(v), msg)
	}
	for _, p := range ps {
		if msg := identity("setpath($p; getpath($p)) with $p="+show(p), qSetGetID, v, p); msg != "" {
			return msg
		}
	}
	if n := len(ps); n > 1 {
		rec.EvalN(int64(n - 1))
	}
	return ""
}

// setpath(p; x) | getpath(p) is x.
func checkSetpathX(c setCase) string {
	v, x := c.V.X, c.X.X
	p, ok := c.P.X.([]any)
	if !ok {
		rec.Discard("outside-domain")
		return ""
	}
	for _, k := range p {
		if _, isStr := k.(string); isStr {
			continue
		}
		if i, ok := idxOf(k); !ok || i > 2000 {
			rec.Discard("outside-domain")
			return ""
		}
	}
	snapV, snapX := univ.Copy(v), univ.Copy(x)
	res := run.Exec(qSetpath, v, maxSteps, maxOut, p, x)
	if res.Budget && len(res.Vals) < maxOut {
		rec.Discard("budget")
		return ""
	}
	ok = settable(snapV, p)
	if res.Err != nil {
		if ok {
			return fmt.Sprintf("setpath(%s; %s) on %s fails: %q", show(p), show(snapX), show(snapV), res.Err.Error())
		}
		rec.Class("setpath-x/unsettable-path-rejected")
		return ""
	}
	if !ok {
		rec.Class("setpath-x/unsettable-path-accepted")
	}
	out, msg, budget := one(qSetGetX, v, p, x)
	if budget {
		rec.Discard("budget")
		return ""
	}
	if msg != "" {
		return fmt.Sprintf("`setpath(%s; %s) | getpath(%s)` on %s: %s", show(p), show(snapX), show(p), show(snapV), msg)
	}
	if !univ.Equal(out, snapX) {
		return fmt.Sprintf("`setpath(%s; %s) | getpath(%s)` on %s is %s", show(p), show(snapX), show(p), show(snapV), show(out))
	}
	return ""
}

func checkEntries(c valCase) string {
	if _, ok := c.V.X.(map[string]any); !ok {
		rec.Discard("outside-domain")
		return ""
	}
	return identity("to_entries|from_entries", qEntries, c.V.X)
}

func checkWithEntries(c valCase) string {
	if _, ok := c.V.X.(map[string]any); !ok {
		rec.Discard("outside-domain")
		return ""
	}
	return identity("with_entries(.)", qWithEnt, c.V.X)
}

func checkJSON(c valCase) string {
	if !finiteValue(c.V.X) {
		rec.Discard("outside-domain")
		return ""
	}
	return identity("tojson|fromjson", qJSON, c.V.X)
}

func checkToNumber(c valCase) string {
	if !finiteNum(c.V.X) {
		rec.Discard("outside-domain")
		return ""
	}
	return identity("tostring|tonumber", qToNumber, c.V.X)
}

func checkStr(sub string, c strCase) string {
	if !utf8.ValidString(c.S) || !utf8.ValidString(c.Sep) {
		rec.Discard("outside-domain")
		return ""
	}
	switch sub {
	case "explode":
		return identity("explode|implode", qExplode, c.S)
	case "base64":
		return identity("@base64|@base64d", qBase64, c.S)
	case "uri":
		return identity("@uri|@urid", qURI, c.S)
	case "split":
		if c.Sep == "" {
			rec.Discard("outside-domain")
			return ""
		}
		return identity("split($s)|join($s) with $s="+strconv.Quote(c.Sep), qSplitJoin, c.S, c.Sep)
	}
	return "unknown sub " + sub
}

var secReps = []string{"int", "float", "big", "num", "num.0"}

func mkSec(sec int64, rep string) any {
	switch rep {
	case "int":
		return int(sec)
	case "float":
		return float64(sec)
	case "big":
		return big.NewInt(sec)
	case "num":
		return json.Number(strconv.FormatInt(sec, 10))
	case "num.0":
		return json.Number(strconv.FormatInt(sec, 10) + ".0")
	}
	return nil
}

func checkSec(sub string, c secCase) string {
	in := mkSec(c.Sec, c.Rep)
	if in == nil || c.Sec < minSec || c.Sec > maxSec {
		rec.Discard("outside-domain")
		return ""
	}
	var code *gojq.Code
	var name string
	switch sub {
	case "todate":
		code, name = qDate, "todate|fromdate"
	case "gmtime":
		code, name = qGmtime, "gmtime|mktime"
	default:
		return "unknown sub " + sub
	}
	out, msg, budget := one(code, in)
	if budget {
		rec.Discard("budget")
		return ""
	}
	if msg != "" {
		return fmt.Sprintf("`%s` on %s (%s): %s", name, show(in), isoOf(c.Sec), msg)
	}
	if !univ.Equal(out, int(c.Sec)) {
		return fmt.Sprintf("`%s` on %s (%s) returned %s", name, show(in), isoOf(c.Sec), show(out))
	}
	return ""
}

func isoOf(sec int64) string { return time.Unix(sec, 0).UTC().Format("2006-01-02T15:04:05Z") }

// ---------------------------------------------------------------------------
// replay

func replayCase(sub string, raw json.RawMessage) string {
	switch sub {
	case "fromstream", "tostream-getpath", "tostream-replay", "paths", "setpath-id", "entries", "with-entries", "tojson", "tonumber":
		var c valCase
		if err := json.Unmarshal(raw, &c); err != nil {
			return "bad replay: " + err.Error()
		}
		return checkVal(sub, c)
	case "explode", "base64", "uri", "split":
		var c strCase
		if err := json.Unmarshal(raw, &c); err != nil {
			return "bad replay: " + err.Error()
		}
		return checkStr(sub, c)
	case "todate", "gmtime":
		var c secCase
		if err := json.Unmarshal(raw, &c); err != nil {
			return "bad replay: " + err.Error()
		}
		return checkSec(sub, c)
	case "setpath-x":
		var c setCase
		if err := json.Unmarshal(raw, &c); err != nil {
			return "bad replay: " + err.Error()
		}
		return checkSetpathX(c)
	case "ret-setpath":
		var c retSetCase
		if err := json.Unmarshal(raw, &c); err != nil {
			return "bad replay: " + err.Error()
		}
		return checkRetSet(c)
	case "bytes":
		var c bytesCase
		if err := json.Unmarshal(raw, &c); err != nil {
			return "bad replay: " + err.Error()
		}
		return checkBytes(c)
	case "ret-batch":
		var c batchCase
		if err := json.Unmarshal(raw, &c); err != nil {
			return "bad replay: " + err.Error()
		}
		return checkBatch(c)
	}
	return "unknown sub " + sub
}

func checkVal(sub string, c valCase) string {
	switch sub {
	case "fromstream":
		return checkFromstream(c)
	case "tostream-getpath":
		return checkTostreamGetpath(c)
	case "tostream-replay":
		return checkTostreamReplay(c)
	case "paths":
		return checkPaths(c)
	case "setpath-id":
		return checkSetpathID(c)
	case "entries":
		return checkEntries(c)
	case "with-entries":
		return checkWithEntries(c)
	case "tojson":
		return checkJSON(c)
	case "tonumber":
		return checkToNumber(c)
	}
	return "unknown sub " + sub
}

var structuralSubs = []string{"fromstream", "tostream-getpath", "tostream-replay", "paths", "setpath-id"}

// ---------------------------------------------------------------------------
// non-trivial rules and classes

func classOfValue(v any) string {
	switch v := v.(type) {
	case []any:
		if len(v) == 0 {
			return "root-empty-array"
		}
		return "root-array"
	case map[string]any:
		if len(v) == 0 {
			return "root-empty-object"
		}
		return "root-object"
	}
	return "root-scalar"
}

func hasEmptyNested(v any, root bool) bool {
	switch v := v.(type) {
	case []any:
		if len(v) == 0 {
			return !root
		}
		for _, x := range v {
			if hasEmptyNested(x, false) {
				return true
			}
		}
	case map[string]any:
		if len(v) == 0 {
			return !root
		}
		for _, x := range v {
			if hasEmptyNested(x, false) {
				return true
			}
		}
	}
	return false
}

func hostileKey(k string) bool {
	if k == "" {
		return true
	}
	for _, r := range k {
		if r < 0x20 || r == '"' || r == '\\' || r >= 0x7f {
			return true
		}
	}
	return false
}

func hasHostileKey(v any) bool {
	switch v := v.(type) {
	case []any:
		for _, x := range v {
			if hasHostileKey(x) {
				return true
			}
		}
	case map[string]any:
		for k, x := range v {
			if hostileKey(k) || hasHostileKey(x) {
				return true
			}
		}
	}
	return false
}

// ntString: contains a non-ASCII rune or a byte that needs escaping in JSON,
// in a URI or that is special to the codecs.
func ntString(s string) bool {
	for i := 0; i < len(s); i++ {
		b := s[i]
		if b >= 0x7f || b < 0x20 || strings.IndexByte("\"\\%+= &/?#", b) >= 0 {
			return true
		}
	}
	return false
}

func ntNumber(v any) bool {
	switch v := v.(type) {
	case int:
		return v > 1<<53 || v < -(1<<53)
	case float64:
		return v != math.Trunc(v) || math.Abs(v) >= 1<<53 || (v == 0 && math.Signbit(v))
	}
	return true // big, json.Number
}

func ntSec(sec int64) bool {
	if sec > 1_000_000_000 || sec < -1_000_000_000 {
		return true
	}
	return sec >= -2 && sec <= 2
}

// sample offers the first non-trivial rapid case of each law to the
// evidence reservoir (evidence only; no verdict depends on it).
var (
	sampling bool
	sampled  = map[string]bool{}
)

func sample(sub string, nt bool, c any) {
	if !sampling || !nt || sampled[sub] {
		return
	}
	sampled[sub] = true
	rec.Sample(map[string]any{"sub": sub, "case": c})
}

func doVal(sub string, c valCase) string {
	v := c.V.X
	rec.Eval()
	nt := isContainer(v)
	switch sub {
	case "tonumber":
		if nt = ntNumber(v); nt {
			rec.NT(sub + "/" + univ.Show(v))
		}
		rec.Class(sub + "/" + fmt.Sprintf("%T", v))
	default:
		if sub == "tojson" && !nt {
			if str, ok := v.(string); ok {
				nt = ntString(str)
			} else if _, ok := univ.ToNum(v); ok {
				nt = ntNumber(v)
			}
		}
		if nt {
			rec.NT(sub + "/" + univ.Show(v))
		}
		rec.Class(sub + "/" + classOfValue(v))
		if hasEmptyNested(v, true) {
			rec.Class(sub + "/nested-empty-container")
		}
		if hasHostileKey(v) {
			rec.Class(sub + "/hostile-key")
		}
		if univ.HasNaN(v) {
			rec.Class(sub + "/nan")
		}
		if d := univ.Depth(v); d >= 5 {
			rec.Class(sub + "/depth>=5")
		}
	}
	sample(sub, nt && (sub == "tonumber" || size(v) >= 5), c)
	return checkVal(sub, c)
}

func doStr(sub string, c strCase) string {
	rec.Eval()
	if ntString(c.S) {
		rec.NT(sub + "/" + c.S + "\x00/" + c.Sep)
	}
	switch {
	case c.S == "":
		rec.Class(sub + "/empty")
	case len(c.S) == utf8.RuneCountInString(c.S):
		rec.Class(sub + "/ascii")
	default:
		rec.Class(sub + "/multibyte")
	}
	if sub == "split" {
		n := strings.Count(c.S, c.Sep)
		switch {
		case n == 0:
			rec.Class("split/sep-absent")
		case n == 1:
			rec.Class("split/sep-once")
		default:
			rec.Class("split/sep-many")
		}
		if strings.HasPrefix(c.S, c.Sep) || strings.HasSuffix(c.S, c.Sep) {
			rec.Class("split/sep-at-edge")
		}
	}
	if sub == "base64" {
		rec.Class(fmt.Sprintf("base64/len%%3=%d", len(c.S)%3))
	}
	sample(sub, ntString(c.S) && len(c.S) >= 4, c)
	return checkStr(sub, c)
}

// doSec returns ("", false) when the case belongs to a known-finding class.
func doSec(sub string, c secCase) (string, bool) {
	if sub == "todate" && c.Sec == minSec && rec.KnownClass(zeroTimeClass) {
		rec.Excluded(zeroTimeClass)
		return "", false
	}
	rec.Eval()
	nt := ntSec(c.Sec) || c.Sec-minSec < 86400*366 || maxSec-c.Sec < 86400*366
	if nt {
		rec.NT(fmt.Sprintf("%s/%d/%s", sub, c.Sec, c.Rep))
	}
	y := time.Unix(c.Sec, 0).UTC().Year()
	switch {
	case y < 1000:
		rec.Class(sub + "/year<1000")
	case y < 1970:
		rec.Class(sub + "/year<1970")
	case y < 2100:
		rec.Class(sub + "/year<2100")
	default:
		rec.Class(sub + "/year>=2100")
	}
	rec.Class(sub + "/rep=" + c.Rep)
	sample(sub, nt, c)
	return checkSec(sub, c), true
}

func doSet(c setCase) string {
	rec.Eval()
	p, _ := c.P.X.([]any)
	if len(p) > 0 {
		rec.NT("setpath-x/" + univ.Show(c.V.X) + "/" + univ.Show(c.P.X) + "/" + univ.Show(c.X.X))
	}
	if _, ok := lookupStrict(c.V.X, p); ok {
		rec.Class("setpath-x/existing-path")
	} else if settable(c.V.X, p) {
		rec.Class("setpath-x/fresh-path")
	} else {
		rec.Class("setpath-x/unsettable-path")
	}
	for _, k := range p {
		if i, ok := k.(int); ok && i < 0 {
			rec.Class("setpath-x/negative-index")
			break
		}
	}
	for _, k := range p {
		switch k.(type) {
		case float64, *big.Int, json.Number:
			rec.Class("setpath-x/index-not-int")
		}
	}
	sample("setpath-x", len(p) >= 2 && settable(c.V.X, p), c)
	return checkSetpathX(c)
}

// lookupStrict: the path addresses an existing node.
func lookupStrict(v any, p []any) (any, bool) {
	cur := v
	for _, k := range p {
		if s, ok := k.(string); ok {
			m, ok := cur.(map[string]any)
			if !ok {
				return nil, false
			}
			if cur, ok = m[s]; !ok {
				return nil, false
			}
			continue
		}
		i, ok := idxOf(k)
		a, ok2 := cur.([]any)
		if !ok || !ok2 {
			return nil, false
		}
		if i < 0 {
			i += len(a)
		}
		if i < 0 || i >= len(a) {
			return nil, false
		}
		cur = a[i]
	}
	return cur, true
}

// ---------------------------------------------------------------------------
// generators

var boundaryRunes = []rune{0, 1, 0x1f, 0x20, 0x7e, 0x7f, 0x80, 0xff, 0x7ff, 0x800, 0xd7ff, 0xe000, 0xfeff, 0xfffd, 0xfffe, 0xffff, 0x10000, 0x1f600, 0x10ffff, 0x2028, 0x2029, 0x85, 0xa0, 0x301}

var codecPieces = []string{"%", "+", " ", "%2B", "%20", "%25", "%zz", "%4", "=", "==", "&", "~", "-", "_", ".", "!", "*", "'", "(", ")", "/", "?", "#", ":", "@", "a", "Z", "0", "é", "あ", "😀", "\x00", "\n", "QQ==", "YQ=", "\"", "\\", "\\u0041", "\t", ",", ";", "<", ">", "[", "]", "{", "}", "|", "^", "`", "$"}

// genStr: valid UTF-8 strings over every byte class.
func genStr(maxRunes int) *rapid.Generator[string] {
	return rapid.Custom(func(t *rapid.T) string {
		var sb strings.Builder
		if maxRunes >= 12 && rapid.IntRange(0, 15).Draw(t, "sized") == 0 {
			// a length around a buffer / chunk threshold, non-periodic content
			kind := rapid.SampledFrom([]string{"ascii", "multibyte", "mixed"}).Draw(t, "kind")
			n := rapid.SampledFrom(sweepSizes[:32]).Draw(t, "size") + rapid.IntRange(-2, 2).Draw(t, "off")
			return sizedString(kind, max(n, 0), rapid.Uint64().Draw(t, "seed"))
		}
		switch rapid.IntRange(0, 6).Draw(t, "strkind") {
		case 0:
			return gen.Str(maxRunes).Draw(t, "pieces")
		case 1: // arbitrary runes
			rs := rapid.SliceOfN(rapid.Rune(), 0, maxRunes).Draw(t, "runes")
			return strings.ToValidUTF8(string(rs), "\ufffd")
		case 2: // every ASCII byte
			n := rapid.IntRange(0, maxRunes).Draw(t, "len")
			for i := 0; i < n; i++ {
				sb.WriteByte(byte(rapid.IntRange(0, 127).Draw(t, "ascii")))
			}
		case 3: // encoding boundaries
			n := rapid.IntRange(0, maxRunes).Draw(t, "len")
			for i := 0; i < n; i++ {
				sb.WriteRune(rapid.SampledFrom(boundaryRunes).Draw(t, "rune"))
			}
		case 4: // characters special to the codecs
			n := rapid.IntRange(0, maxRunes).Draw(t, "len")
			for i := 0; i < n; i++ {
				sb.WriteString(rapid.SampledFrom(codecPieces).Draw(t, "piece"))
			}
		case 5: // any code point
			n := rapid.IntRange(0, maxRunes).Draw(t, "len")
			for i := 0; i < n; i++ {
				r := rune(rapid.IntRange(0, 0x10ffff).Draw(t, "cp"))
				if r >= 0xd800 && r <= 0xdfff {
					r = 0xfffd
				}
				sb.WriteRune(r)
			}
		default: // long, for the padding classes and buffer growth
			unit := rapid.SampledFrom([]string{"a", "ab", "abc", "é", "😀", "a,b", "%", "+", "\x00"}).Draw(t, "unit")
			n := rapid.IntRange(0, 12*maxRunes).Draw(t, "repeat")
			for i := 0; i < n && sb.Len() < 20*maxRunes; i++ {
				sb.WriteString(unit)
			}
			sb.WriteString(gen.Str(3).Draw(t, "tail"))
		}
		return sb.String()
	})
}

func runeSub(t *rapid.T, s string, maxRunes int) string {
	rs := []rune(s)
	if len(rs) == 0 {
		return ""
	}
	i := rapid.IntRange(0, len(rs)-1).Draw(t, "from")
	n := rapid.IntRange(1, maxRunes).Draw(t, "n")
	if i+n > len(rs) {
		n = len(rs) - i
	}
	return string(rs[i : i+n])
}

var fixedSeps = []string{",", " ", "a", "b", "ab", "aa", "é", "😀", "\n", "\x00", ", ", "a,b", "\"", "\\", "%", "+", "=", "\u0301", ".", "|", "abc"}

func genSep(s string) *rapid.Generator[string] {
	return rapid.Custom(func(t *rapid.T) string {
		k := rapid.IntRange(0, 9).Draw(t, "sepkind")
		if k < 5 && s != "" {
			return runeSub(t, s, 3)
		}
		if k < 9 {
			return rapid.SampledFrom(fixedSeps).Draw(t, "sep")
		}
		sep := genStr(3).Draw(t, "sepstr")
		if sep == "" {
			sep = ","
		}
		return sep
	})
}

func genKey() *rapid.Generator[string] {
	return rapid.OneOf(
		gen.Key(),
		rapid.SampledFrom([]string{"key", "value", "Key", "Value", "name", "Name", "k", "v", "", "\x00", "a\x00b", "é", "ああ", "\U0001F600", "\"q\"", "back\\slash", "new\nline", "tab\t", " ", "\ufeff", "\u0301", "a", "b", "A", "B", "Z", "aa", "ab", "10", "9", "-1", "e", "\U0001F600é", "\uffff", "\U00010000"}),
		genStr(4),
	)
}

var valOpt = gen.Opt{Reps: true, Special: true}

// genValue: nested values with hostile keys and strings, empty containers
// at the root and nested, every number representation.
func genValue(o gen.Opt, depth, width int) *rapid.Generator[any] {
	return rapid.Custom(func(t *rapid.T) any {
		k := rapid.IntRange(0, 11).Draw(t, "kind")
		if depth <= 0 || k < 4 {
			if rapid.IntRange(0, 3).Draw(t, "strmix") == 0 {
				return genStr(8).Draw(t, "str")
			}
			return gen.Scalar(o).Draw(t, "scalar")
		}
		n := rapid.IntRange(0, width).Draw(t, "width")
		if k < 8 {
			a := make([]any, n)
			for i := range a {
				a[i] = genValue(o, depth-1, width).Draw(t, "elem")
			}
			return a
		}
		m := make(map[string]any, n)
		for i := 0; i < n; i++ {
			m[genKey().Draw(t, "key")] = genValue(o, depth-1, width).Draw(t, "val")
		}
		return m
	})
}

// genChain: deep single-child chains ending in a leaf or an empty container.
func genChain(o gen.Opt) *rapid.Generator[any] {
	return rapid.Custom(func(t *rapid.T) any {
		d := rapid.IntRange(5, 40).Draw(t, "depth")
		if rapid.IntRange(0, 63).Draw(t, "deep") == 0 {
			d = rapid.IntRange(41, 120).Draw(t, "deeper") // up to 200: sweep S4
		}
		var v any
		switch rapid.IntRange(0, 3).Draw(t, "leaf") {
		case 0:
			v = []any{}
		case 1:
			v = map[string]any{}
		default:
			v = gen.Scalar(o).Draw(t, "leaf")
		}
		for i := 0; i < d; i++ {
			if rapid.Bool().Draw(t, "obj") {
				m := map[string]any{genKey().Draw(t, "key"): v}
				if rapid.IntRange(0, 3).Draw(t, "sibling") == 0 {
					m[genKey().Draw(t, "key2")] = gen.Scalar(o).Draw(t, "sib")
				}
				v = m
			} else {
				a := []any{v}
				if rapid.IntRange(0, 3).Draw(t, "sibling") == 0 {
					a = append(a, gen.Scalar(o).Draw(t, "sib"))
				}
				if rapid.IntRange(0, 3).Draw(t, "front") == 0 {
					a = append([]any{gen.Scalar(o).Draw(t, "sib0")}, a...)
				}
				v = a
			}
		}
		return v
	})
}

// genRootContainer: an array or an object at the root for sure.
func genRootContainer(o gen.Opt) *rapid.Generator[any] {
	return rapid.Custom(func(t *rapid.T) any {
		n := rapid.IntRange(0, 4).Draw(t, "width")
		if rapid.Bool().Draw(t, "obj") {
			m := map[string]any{}
			for i := 0; i < n; i++ {
				m[genKey().Draw(t, "key")] = genValue(o, 3, 3).Draw(t, "val")
			}
			return m
		}
		a := make([]any, n)
		for i := range a {
			a[i] = genValue(o, 3, 3).Draw(t, "elem")
		}
		return a
	})
}

// genAny: the value generator of the structural laws.
func genAny(o gen.Opt) *rapid.Generator[any] {
	return rapid.Custom(func(t *rapid.T) any {
		var v any
		if rapid.IntRange(0, 499).Draw(t, "large") == 0 { // around the fast-path thresholds for element counts (the sweep S3 covers them systematically)
			n := rapid.SampledFrom([]int{31, 32, 33, 63, 64, 65}).Draw(t, "members") // 255..257 and 1000: sweep S3 only (cost grows with the square)
			vs := sizedValues(n, rapid.Uint64Range(0, 1<<20).Draw(t, "seed"))
			return vs[rapid.IntRange(0, len(vs)-1).Draw(t, "which")]
		}
		switch rapid.IntRange(0, 9).Draw(t, "shape") {
		case 0:
			return genChain(o).Draw(t, "chain")
		case 1: // wide and shallow
			v = genValue(o, 2, 9).Draw(t, "wide")
		case 2:
			return genRootContainer(o).Draw(t, "container")
		case 3:
			v = gen.Value(o).Draw(t, "shared")
		default:
			v = genValue(o, 4, 4).Draw(t, "value")
		}
		// bare scalars are the trivial cases of the structural laws: keep a few
		if !isContainer(v) && rapid.IntRange(0, 3).Draw(t, "keepscalar") != 0 {
			return genRootContainer(o).Draw(t, "container")
		}
		return v
	})
}

func genObject(o gen.Opt) *rapid.Generator[any] {
	return rapid.Custom(func(t *rapid.T) any {
		n := rapid.IntRange(0, 7).Draw(t, "width")
		m := make(map[string]any, n)
		for i := 0; i < n; i++ {
			var v any
			switch rapid.IntRange(0, 5).Draw(t, "valkind") {
			case 0:
				v = nil
			case 1:
				v = false
			default:
				v = genValue(o, 2, 3).Draw(t, "val")
			}
			m[genKey().Draw(t, "key")] = v
		}
		return m
	})
}

func digits(t *rapid.T, label string, min, max int) string {
	n := rapid.IntRange(min, max).Draw(t, label+"n")
	var sb strings.Builder
	for i := 0; i < n; i++ {
		sb.WriteByte(byte('0' + rapid.IntRange(0, 9).Draw(t, label)))
	}
	return sb.String()
}

// genLiteral: JSON number literals of every lexical shape.
func genLiteral() *rapid.Generator[string] {
	return rapid.Custom(func(t *rapid.T) string {
		var sb strings.Builder
		if rapid.Bool().Draw(t, "neg") {
			sb.WriteByte('-')
		}
		if rapid.IntRange(0, 3).Draw(t, "zero") == 0 {
			sb.WriteByte('0')
		} else {
			sb.WriteByte(byte('1' + rapid.IntRange(0, 8).Draw(t, "d0")))
			sb.WriteString(digits(t, "int", 0, rapid.SampledFrom([]int{0, 2, 15, 17, 18, 19, 20, 40}).Draw(t, "intlen")))
		}
		if rapid.Bool().Draw(t, "frac") {
			sb.WriteByte('.')
			sb.WriteString(digits(t, "frac", 1, rapid.SampledFrom([]int{1, 3, 17, 30}).Draw(t, "fraclen")))
		}
		if rapid.Bool().Draw(t, "exp") {
			sb.WriteString(rapid.SampledFrom([]string{"e", "E"}).Draw(t, "e"))
			sb.WriteString(rapid.SampledFrom([]string{"", "+", "-"}).Draw(t, "esign"))
			sb.WriteString(digits(t, "exp", 1, 3))
		}
		return sb.String()
	})
}

var two63 = new(big.Int).Lsh(big.NewInt(1), 63)

// genFinite: finite numbers in every Go representation.
func genFinite() *rapid.Generator[any] {
	return rapid.Custom(func(t *rapid.T) any {
		var v any
		switch rapid.IntRange(0, 10).Draw(t, "numkind") {
		case 0:
			v = gen.Number(gen.Opt{Reps: true}).Draw(t, "shared")
		case 1: // any float bits
			v = math.Float64frombits(rapid.Uint64().Draw(t, "bits"))
		case 2:
			v = rapid.Int().Draw(t, "int")
		case 3: // around powers of two
			k := rapid.IntRange(0, 62).Draw(t, "k")
			x := int64(1)<<uint(k) + rapid.Int64Range(-2, 2).Draw(t, "d")
			if rapid.Bool().Draw(t, "neg") {
				x = -x
			}
			switch rapid.IntRange(0, 3).Draw(t, "rep") {
			case 0:
				v = int(x)
			case 1:
				v = float64(x)
			case 2:
				v = big.NewInt(x)
			default:
				v = json.Number(strconv.FormatInt(x, 10))
			}
		case 4: // big integers, random digits
			s := "1" + digits(t, "big", 18, 45)
			if rapid.Bool().Draw(t, "neg") {
				s = "-" + s
			}
			b, _ := new(big.Int).SetString(s, 10)
			if rapid.Bool().Draw(t, "asnum") {
				v = json.Number(s)
			} else {
				v = b
			}
		case 5:
			v = json.Number(genLiteral().Draw(t, "lit"))
		case 6: // decimal-ish floats d * 10^e
			d := rapid.Int64Range(1, 99999999).Draw(t, "d")
			e := rapid.IntRange(-330, 300).Draw(t, "e")
			f, _ := strconv.ParseFloat(fmt.Sprintf("%de%d", d, e), 64)
			if rapid.Bool().Draw(t, "neg") {
				f = -f
			}
			v = f
		case 7: // around 2^63 / 2^64
			x := new(big.Int).Lsh(two63, uint(rapid.IntRange(0, 1).Draw(t, "sh")))
			x.Add(x, big.NewInt(rapid.Int64Range(-3, 3).Draw(t, "d")))
			if rapid.Bool().Draw(t, "neg") {
				x.Neg(x)
			}
			if rapid.Bool().Draw(t, "asnum") {
				v = json.Number(x.String())
			} else {
				v = x
			}
		case 8: // integral floats beyond 2^53, including the digit/exponent format switch
			k := rapid.IntRange(53, 1023).Draw(t, "k")
			if rapid.Bool().Draw(t, "near") {
				k = rapid.IntRange(53, 75).Draw(t, "knear")
			}
			m := rapid.Uint64Range(0, 1<<52-1).Draw(t, "m")
			f := math.Float64frombits(uint64(k+1023)<<52 | m)
			if rapid.Bool().Draw(t, "neg") {
				f = -f
			}
			v = f
		case 9: // format thresholds and specials
			base := rapid.SampledFrom([]float64{1e-6, 1e-7, 1e-5, 1e21, 1e20, 1e22, 1e-9, 1, 1e15, 1e16, 1e17, 9007199254740992, 1e308, 1e-308, 5e-324, math.MaxFloat64, 0.1, 0.3, 1.0 / 3}).Draw(t, "base")
			off := rapid.Int64Range(-3, 3).Draw(t, "ulps")
			f := math.Float64frombits(uint64(int64(math.Float64bits(base)) + off))
			if rapid.Bool().Draw(t, "neg") {
				f = -f
			}
			v = f
		default: // subnormals and zeros
			f := math.Float64frombits(rapid.Uint64Range(0, 1<<52-1).Draw(t, "sub"))
			if rapid.Bool().Draw(t, "neg") {
				f = -f
			}
			v = f
		}
		if !finiteNum(v) {
			return 0.75
		}
		return v
	})
}

func yearStart(y int) int64 { return time.Date(y, 1, 1, 0, 0, 0, 0, time.UTC).Unix() }

func genSec() *rapid.Generator[int64] {
	clamp := func(s int64) int64 {
		if s < minSec {
			return minSec
		}
		if s > maxSec {
			return maxSec
		}
		return s
	}
	return rapid.Custom(func(t *rapid.T) int64 {
		switch rapid.IntRange(0, 7).Draw(t, "seckind") {
		case 0:
			return rapid.Int64Range(minSec, maxSec).Draw(t, "any")
		case 1: // the two ends of the domain
			d := rapid.Int64Range(0, 200000).Draw(t, "d")
			if rapid.Bool().Draw(t, "hi") {
				return maxSec - d
			}
			return minSec + d
		case 2: // around the epoch
			return rapid.Int64Range(-200000, 200000).Draw(t, "epoch")
		case 3: // around a year boundary
			y := rapid.IntRange(1, 9999).Draw(t, "year")
			return clamp(yearStart(y) + rapid.Int64Range(-3, 3).Draw(t, "d"))
		case 4: // around a month/day boundary (leap days included)
			y := rapid.IntRange(1, 9999).Draw(t, "year")
			m := rapid.IntRange(1, 12).Draw(t, "month")
			d := rapid.IntRange(1, 31).Draw(t, "day")
			return clamp(time.Date(y, time.Month(m), d, 0, 0, 0, 0, time.UTC).Unix() + rapid.Int64Range(-2, 2).Draw(t, "d"))
		case 5: // powers of two and ten
			var x int64
			if rapid.Bool().Draw(t, "ten") {
				x = 1
				for i := rapid.IntRange(0, 11).Draw(t, "p10"); i > 0; i-- {
					x *= 10
				}
			} else {
				x = int64(1) << uint(rapid.IntRange(0, 37).Draw(t, "p2"))
			}
			x += rapid.Int64Range(-2, 2).Draw(t, "d")
			if rapid.Bool().Draw(t, "neg") {
				x = -x
			}
			return clamp(x)
		case 6: // the first years (F10 lives at the very first second)
			return minSec + rapid.Int64Range(0, 86400*366*3).Draw(t, "early")
		default: // contemporary
			return rapid.Int64Range(0, 4_102_444_800).Draw(t, "modern")
		}
	})
}

// genPath draws a path for the setpath(p; x) | getpath(p) law: an existing
// path, an existing container or null extended by fresh steps (most often
// steps the documented setpath accepts), or an arbitrary path.
func genPath(v any) *rapid.Generator[[]any] {
	all := allPaths(v)
	// nodes that can be extended: containers and nulls (index 0 = the root)
	var open [][]any
	if v == nil || isContainer(v) {
		open = append(open, []any{})
	}
	for _, q := range all {
		if n, _ := lookupStrict(v, q); n == nil || isContainer(n) {
			open = append(open, q)
		}
	}
	step := func(t *rapid.T) any {
		if rapid.Bool().Draw(t, "strstep") {
			return genKey().Draw(t, "key")
		}
		if rapid.IntRange(0, 9).Draw(t, "negstep") == 0 {
			return rapid.IntRange(-2, -1).Draw(t, "negidx")
		}
		return rapid.IntRange(0, 4).Draw(t, "idx")
	}
	return rapid.Custom(func(t *rapid.T) []any {
		var p []any
		mode := rapid.IntRange(0, 9).Draw(t, "pathmode")
		switch {
		case mode == 9: // arbitrary
			n := rapid.IntRange(0, 4).Draw(t, "len")
			for i := 0; i < n; i++ {
				p = append(p, step(t))
			}
		case mode <= 3 || len(open) == 0: // an existing node (0 = the root)
			if i := rapid.IntRange(0, len(all)).Draw(t, "base"); i > 0 {
				p = append(p, all[i-1]...)
			}
			if mode == 3 { // one blind step, often into a scalar: setpath must refuse or obey
				p = append(p, step(t))
			}
		default: // a container or null extended by steps that fit
			p = append(p, open[rapid.IntRange(0, len(open)-1).Draw(t, "open")]...)
			node, _ := lookupStrict(v, p)
			switch n := node.(type) {
			case map[string]any:
				p = append(p, genKey().Draw(t, "newkey"))
			case []any:
				lo := -len(n)
				if rapid.IntRange(0, 9).Draw(t, "below") == 0 {
					lo--
				}
				p = append(p, rapid.IntRange(lo, len(n)+3).Draw(t, "newidx"))
			default:
				p = append(p, step(t))
			}
			for i := rapid.IntRange(0, 3).Draw(t, "more"); i > 0; i-- {
				cur, ok := lookupStrict(v, p)
				if ok && cur != nil && !isContainer(cur) {
					break // landed on an existing scalar
				}
				if _, isMap := cur.(map[string]any); ok && isMap {
					p = append(p, genKey().Draw(t, "key"))
				} else if a, isArr := cur.([]any); ok && isArr {
					p = append(p, rapid.IntRange(-len(a), len(a)+2).Draw(t, "idx"))
				} else {
					p = append(p, step(t))
				}
			}
		}
		// negative spelling of existing indices, other number representations
		if rapid.IntRange(0, 3).Draw(t, "respell") == 0 {
			cur := v
			for i, k := range p {
				idx, isInt := k.(int)
				if a, ok := cur.([]any); ok && isInt {
					if idx >= 0 && idx < len(a) && rapid.Bool().Draw(t, "negate") {
						p[i] = idx - len(a)
					}
				}
				nxt, ok := lookupStrict(cur, []any{k})
				if !ok {
					break
				}
				cur = nxt
			}
		}
		if rapid.IntRange(0, 4).Draw(t, "idxrep") == 0 {
			for i, k := range p {
				if idx, ok := k.(int); ok {
					switch rapid.IntRange(0, 3).Draw(t, "rep") {
					case 1:
						p[i] = float64(idx)
					case 2:
						p[i] = big.NewInt(int64(idx))
					case 3:
						p[i] = json.Number(strconv.Itoa(idx))
					}
				}
			}
		}
		if p == nil {
			p = []any{}
		}
		return p
	})
}

// ---------------------------------------------------------------------------
// bounded-exhaustive parts

// smallStrings enumerates every string of at most n pieces over alpha.
func smallStrings(alpha []string, n int) []string {
	out := []string{""}
	prev := []string{""}
	for i := 0; i < n; i++ {
		var next []string
		for _, s := range prev {
			for _, a := range alpha {
				next = append(next, s+a)
			}
		}
		out = append(out, next...)
		prev = next
	}
	return out
}

var splitAlpha = []string{"a", "b", ",", "é", "😀", "\x00", " "}
var codecAlpha = []string{"a", "%", "+", "=", " ", "é", "😀", "\x00", "/", "~"}

func exhaustive(t *testing.T) {
	idx := 0
	mine := func() bool { idx++; return rec.Mine(idx) }
	fail := func(sub string, c any, msg string) {
		if msg != "" {
			rec.Direct(sub, c, "%s", msg)
		}
	}

	// (E1) the universe U60: every law on every value of its domain
	u := gen.U60(true, false)
	xs := []any{nil, 0, "s", []any{}, map[string]any{}, []any{1}, map[string]any{"a": nil}, math.NaN(), false}
	for _, v := range u {
		if !mine() {
			continue
		}
		c := valCase{V: univ.V{X: v}}
		for _, sub := range structuralSubs {
			fail(sub, c, doVal(sub, c))
		}
		if finiteValue(v) {
			fail("tojson", c, doVal("tojson", c))
		}
		if finiteNum(v) {
			fail("tonumber", c, doVal("tonumber", c))
		}
		if _, ok := v.(map[string]any); ok {
			fail("entries", c, doVal("entries", c))
			fail("with-entries", c, doVal("with-entries", c))
		}
		if s, ok := v.(string); ok {
			for _, sub := range []string{"explode", "base64", "uri"} {
				sc := strCase{S: s}
				fail(sub, sc, doStr(sub, sc))
			}
			for _, sep := range fixedSeps {
				sc := strCase{S: s, Sep: sep}
				fail("split", sc, doStr("split", sc))
			}
		}
		// setpath(p; x) | getpath(p): the root, every existing path, and
		// every one- and two-step extension of every node
		bases := append([][]any{{}}, allPaths(v)...)
		var ps [][]any
		for _, b := range bases {
			ps = append(ps, b)
			node, _ := lookupStrict(v, b)
			var steps []any
			switch n := node.(type) {
			case map[string]any:
				steps = []any{"a", "", "zz", "é"}
			case []any:
				steps = []any{len(n), len(n) + 2, -1, -len(n), -len(n) - 1}
			case nil:
				steps = []any{"a", 0, 2, -1}
			default:
				steps = []any{"a", 0}
			}
			for _, s := range steps {
				q := append(append([]any{}, b...), s)
				ps = append(ps, q, append(append([]any{}, q...), "k"), append(append([]any{}, q...), 1))
			}
		}
		for _, p := range ps {
			for _, x := range xs {
				sc := setCase{V: univ.V{X: v}, P: univ.V{X: p}, X: univ.V{X: x}}
				fail("setpath-x", sc, doSet(sc))
			}
		}
	}
	rec.Exhaustive(fmt.Sprintf("U60 (%d values): every law on its domain; setpath-x over root, all paths and their 1-2 step extensions x %d stored values", len(u), len(xs)), true)

	// (E2) split/join over every string of <= n pieces and every separator of 1..2 pieces
	n := rec.Scale(4, 5)
	strs := smallStrings(splitAlpha, n)
	seps := smallStrings(splitAlpha, 2)[1:]
	for _, s := range strs {
		if !mine() {
			continue
		}
		for _, sep := range seps {
			c := strCase{S: s, Sep: sep}
			fail("split", c, doStr("split", c))
		}
	}
	rec.Exhaustive(fmt.Sprintf("split/join: strings of <=%d pieces over %d pieces x separators of 1..2 pieces", n, len(splitAlpha)), true)

	// (E3) the codecs over every string of <= n pieces of the codec alphabet
	n = rec.Scale(4, 5)
	for _, s := range smallStrings(codecAlpha, n) {
		if !mine() {
			continue
		}
		for _, sub := range []string{"explode", "base64", "uri"} {
			c := strCase{S: s}
			fail(sub, c, doStr(sub, c))
		}
	}
	rec.Exhaustive(fmt.Sprintf("explode/base64/uri: strings of <=%d pieces over %d pieces", n, len(codecAlpha)), true)

	// (E4) every Unicode scalar value as a one-rune string (thorough), a
	// stride plus everything below U+3000 and around the planes (quick)
	sweep := 0
	for cp := rune(0); cp <= 0x10ffff; cp++ {
		if cp >= 0xd800 && cp <= 0xdfff {
			continue
		}
		if !rec.Thorough() && cp >= 0x3000 && cp%61 != 0 && cp&0xffff > 2 && cp&0xffff < 0xfffd {
			continue
		}
		if !rec.Mine(int(cp)) {
			continue
		}
		sweep++
		s := string(cp)
		rec.EvalN(3)
		if cp >= 0x7f || cp < 0x20 {
			rec.NT("cp/" + s)
		}
		for _, sub := range []string{"explode", "base64", "uri"} {
			c := strCase{S: "x" + s + s + "y"}
			if sub == "explode" {
				c.S = s
			}
			fail(sub, c, checkStr(sub, c))
		}
	}
	rec.Extra("sum_codepoints_swept", sweep)
	if rec.Thorough() {
		rec.Exhaustive("every Unicode scalar value through explode|implode, @base64|@base64d, @uri|@urid", true)
	}

	// (E5) date laws: for every year 1..9999 the first and last second, the
	// end of February and a mid-year instant; the representation rotates
	k := 0
	for y := 1; y <= 9999; y++ {
		if !rec.Mine(y) {
			continue
		}
		secs := []int64{
			yearStart(y), yearStart(y) + 1, yearStart(y+1) - 1,
			time.Date(y, 2, 28, 23, 59, 59, 0, time.UTC).Unix(),
			time.Date(y, 3, 1, 0, 0, 0, 0, time.UTC).Unix() - 1,
			time.Date(y, 3, 1, 0, 0, 0, 0, time.UTC).Unix(),
			time.Date(y, 7, 4, 12, 34, 56, 0, time.UTC).Unix(),
		}
		for _, s := range secs {
			for _, sub := range []string{"todate", "gmtime"} {
				k++
				c := secCase{Sec: s, Rep: secReps[k%len(secReps)]}
				if msg, ok := doSec(sub, c); ok {
					fail(sub, c, msg)
				}
			}
		}
	}
	rec.Exhaustive("date laws: 7 boundary instants of every year 1..9999", true)

	// (E6) fixed instants in every representation
	fixed := []int64{minSec, minSec + 1, minSec + 59, minSec + 60, minSec + 86399, minSec + 86400, maxSec, maxSec - 1, 0, 1, -1, 59, 60, 86399, 86400, -86400, -86401,
		1 << 31, 1<<31 - 1, -(1 << 31), -(1 << 31) - 1, 1 << 32, 1<<32 - 1, 1_000_000_000, 9_999_999_999, 10_000_000_000, 99_999_999_999, 100_000_000_000, -10_000_000_000, -1_000_000_000,
		951782400, 951868799, 951868800, 68169600, 1425599507, -2208988800, -12219292800, -12219292801, -30610224000, -30610224001, -59011459200, 32503680000, 4102444800}
	for i, s := range fixed {
		if !rec.Mine(i) {
			continue
		}
		for _, rep := range secReps {
			for _, sub := range []string{"todate", "gmtime"} {
				c := secCase{Sec: s, Rep: rep}
				if msg, ok := doSec(sub, c); ok {
					fail(sub, c, msg)
				}
			}
		}
	}
	rec.Exhaustive(fmt.Sprintf("date laws: %d fixed instants x %d representations", len(fixed), len(secReps)), true)
	if rec.Violations() > 50 {
		t.Fatalf("too many violations")
	}
}

// ---------------------------------------------------------------------------

func TestC13(t *testing.T) {
	rec = evid.Open("C13")
	defer rec.Close()
	rec.Replays(replayCase)
	if rec.ReplayPath() != "" {
		return
	}

	exhaustive(t)
	exhaustiveRetained()
	exhaustiveSweeps()

	type rapidSub struct {
		name string
		n    int
		prop func(t *rapid.T)
	}
	var subs []rapidSub
	add := func(name string, n int, prop func(t *rapid.T)) { subs = append(subs, rapidSub{name, n, prop}) }

	// structural laws on every value (NaN and infinities included: the
	// comparison is univ.Equal, which treats NaN as equal to itself)
	for _, sub := range structuralSubs {
		sub := sub
		n := rec.Scale(180000, 1440000)
		if sub == "setpath-id" {
			n = rec.Scale(90000, 720000)
		}
		add(sub, n, func(t *rapid.T) {
			c := valCase{V: univ.V{X: genAny(valOpt).Draw(t, "v")}}
			if msg := doVal(sub, c); msg != "" {
				t.Fatalf("%s", rec.Fail(sub, c, "%s", msg))
			}
		})
	}
	add("setpath-x", rec.Scale(300000, 2400000), func(t *rapid.T) {
		v := genAny(valOpt).Draw(t, "v")
		p := genPath(v).Draw(t, "p")
		x := genValue(valOpt, 2, 3).Draw(t, "x")
		c := setCase{V: univ.V{X: v}, P: univ.V{X: p}, X: univ.V{X: x}}
		if msg := doSet(c); msg != "" {
			t.Fatalf("%s", rec.Fail("setpath-x", c, "%s", msg))
		}
	})

	// objects
	for _, sub := range []string{"entries", "with-entries"} {
		sub := sub
		add(sub, rec.Scale(180000, 1440000), func(t *rapid.T) {
			c := valCase{V: univ.V{X: genObject(valOpt).Draw(t, "obj")}}
			if msg := doVal(sub, c); msg != "" {
				t.Fatalf("%s", rec.Fail(sub, c, "%s", msg))
			}
		})
	}

	// strings
	for _, sub := range []string{"explode", "base64", "uri"} {
		sub := sub
		add(sub, rec.Scale(240000, 1920000), func(t *rapid.T) {
			c := strCase{S: genStr(24).Draw(t, "s")}
			if msg := doStr(sub, c); msg != "" {
				t.Fatalf("%s", rec.Fail(sub, c, "%s", msg))
			}
		})
	}
	add("split", rec.Scale(300000, 2400000), func(t *rapid.T) {
		s := genStr(16).Draw(t, "s")
		c := strCase{S: s, Sep: genSep(s).Draw(t, "sep")}
		if msg := doStr("split", c); msg != "" {
			t.Fatalf("%s", rec.Fail("split", c, "%s", msg))
		}
	})

	// tojson|fromjson on NaN-free finite values, tostring|tonumber on finite numbers
	jsonOpt := gen.Opt{Reps: true}
	add("tojson", rec.Scale(220000, 1760000), func(t *rapid.T) {
		var v any
		if rapid.IntRange(0, 4).Draw(t, "number") == 0 {
			v = genFinite().Draw(t, "num")
			if rapid.Bool().Draw(t, "wrap") {
				v = []any{v, map[string]any{"n": v}}
			}
		} else {
			v = sanitize(genAny(jsonOpt).Draw(t, "v"))
		}
		c := valCase{V: univ.V{X: v}}
		if msg := doVal("tojson", c); msg != "" {
			t.Fatalf("%s", rec.Fail("tojson", c, "%s", msg))
		}
	})
	add("tonumber", rec.Scale(300000, 2400000), func(t *rapid.T) {
		c := valCase{V: univ.V{X: genFinite().Draw(t, "num")}}
		if msg := doVal("tonumber", c); msg != "" {
			t.Fatalf("%s", rec.Fail("tonumber", c, "%s", msg))
		}
	})

	// dates
	for _, sub := range []string{"todate", "gmtime"} {
		sub := sub
		add(sub, rec.Scale(300000, 2400000), func(t *rapid.T) {
			c := secCase{Sec: genSec().Draw(t, "sec"), Rep: rapid.SampledFrom(secReps).Draw(t, "rep")}
			msg, ok := doSec(sub, c)
			if !ok {
				return
			}
			if msg != "" {
				t.Fatalf("%s", rec.Fail(sub, c, "%s", msg))
			}
		})
	}

	// retained forms: the forward map over a batch inside one query on one
	// shared base, all results kept, then the inverse (see retained_test.go)
	add("ret-setpath", rec.Scale(240000, 1920000), func(t *rapid.T) {
		c := genRetSet().Draw(t, "case")
		if msg := doRetSet(c); msg != "" {
			t.Fatalf("%s", rec.Fail("ret-setpath", c, "%s", msg))
		}
	})
	// arbitrary Go strings (mostly not valid UTF-8) and the size classes
	add("bytes", rec.Scale(300000, 2400000), func(t *rapid.T) {
		c := genBytesCase().Draw(t, "case")
		if msg := doBytes(c, ""); msg != "" {
			t.Fatalf("%s", rec.Fail("bytes", c, "%s", msg))
		}
	})
	add("ret-batch", rec.Scale(180000, 1440000), func(t *rapid.T) {
		c := genBatch().Draw(t, "case")
		if msg := doBatch(c); msg != "" {
			t.Fatalf("%s", rec.Fail("ret-batch", c, "%s", msg))
		}
	})

	// Every sub-check has its own rapid seed, so the order of execution does
	// not matter; it rotates with the shard so that the evidence samples (one
	// non-trivial case per law and shard) cover all laws.
	sampling = true
	start := rec.Shard * len(subs) / rec.Shards
	for i := range subs {
		s := subs[(start+i)%len(subs)]
		rec.Rapid(t, s.name, s.n, s.prop)
	}
}
