// Size sweeps and ill-formed UTF-8 for the C13 laws.
//
// (1) SIZE: realistic slips are wrong only beyond a threshold (buffers of
// 4096/8192 bytes, fast paths for >= 32 elements, > 17 digits, base64 chunks
// at multiples of 3/4/57/76 bytes).  Strings of the byte lengths in
// sweepSizes with non-periodic content, collections of 31..1000 members,
// nesting depth 1..200, numbers of 1..40 digits and exponents at the edge of
// the float range go through every law they belong to.
//
// (2) BYTES: Go strings that are not valid UTF-8 reach gojq through the
// library API (and @base64d, -R, --arg).  The laws asserted on them, as
// established on the unchanged tree and defensible from the documentation:
//
//	base64      X | @base64 | @base64d            == X, byte for byte, for every Go string X
//	base64-rev  T | @base64d | @base64            == T for the canonical (padded, RFC 4648) text T of arbitrary bytes
//	uri         X | @uri | @urid                  == X, byte for byte
//	split       X | split($s) | join($s)          == X, byte for byte, for every non-empty Go string $s
//	ltrimstr    ($p + $r) | ltrimstr($p)          == $r   and   $p + (($p + $r) | ltrimstr($p)) == $p + $r
//	rtrimstr    ($r + $p) | rtrimstr($p)          == $r   and   (($r + $p) | rtrimstr($p)) + $p == $r + $p
//	explode     R = X | explode | implode: R == X when X is valid UTF-8; otherwise R is valid UTF-8,
//	            R | explode | implode == R (idempotent after one round) and (X | explode) == (R | explode)
//	tojson      R = X | tojson | fromjson: R == X when X is valid; otherwise R is X with its ill-formed
//	            bytes replaced by U+FFFD (one per byte or one per run: both policies are accepted),
//	            and R | tojson | fromjson == R; the same for X as array element, object key and value
package c13

import (
	"encoding/base64"
	"encoding/hex"
	"encoding/json"
	"fmt"
	"math/big"
	"strconv"
	"strings"
	"unicode/utf8"

	"github.com/itchyny/gojq"
	"pgregory.net/rapid"

	"verif/internal/gen"
	"verif/internal/run"
	"verif/internal/univ"
)

var sweepSizes = []int{0, 1, 2, 3, 4, 55, 56, 57, 58, 59, 63, 64, 65, 75, 76, 77, 78, 127, 128, 129, 255, 256, 257,
	1023, 1024, 1025, 4095, 4096, 4097, 8191, 8192, 8193, 65535, 65536, 65537}

var sweepMembers = []int{31, 32, 33, 63, 64, 65, 255, 256, 257, 1000}

// ---------------------------------------------------------------------------
// deterministic non-periodic content (a pure function of kind, length, seed)

type prng uint64

func (p *prng) next() uint64 { // splitmix64
	*p += 0x9e3779b97f4a7c15
	z := uint64(*p)
	z = (z ^ (z >> 30)) * 0xbf58476d1ce4e5b9
	z = (z ^ (z >> 27)) * 0x94d049bb133111eb
	return z ^ (z >> 31)
}

func (p *prng) intn(n int) int { return int(p.next() % uint64(n)) }

var contentKinds = []string{"ascii", "multibyte", "mixed", "bytes", "illformed"}

var illSeqs = []string{"\xff", "\x80", "\xbf", "\xc2", "\xe2\x82", "\xf0\x9f\x98", "\xed\xa0\x80", "\xc0\xaf", "\xf4\x90\x80\x80", "\xfe", "\xe0\x80\x80", "\xf8\x88\x80\x80\x80"}

// sizedString builds a string of exactly n bytes.
func sizedString(kind string, n int, seed uint64) string {
	p := prng(seed*0x2545f4914f6cdd1d + uint64(n) + 1)
	var sb strings.Builder
	sb.Grow(n)
	unit := func() string {
		switch kind {
		case "ascii":
			if p.intn(12) == 0 {
				return string([]byte{byte(p.intn(128))})
			}
			return string([]byte{byte(0x20 + p.intn(0x5f))})
		case "multibyte":
			switch p.intn(3) {
			case 0:
				return string(rune(0x80 + p.intn(0x780)))
			case 1:
				r := rune(0x800 + p.intn(0xf800))
				if r >= 0xd800 && r <= 0xdfff {
					r = 0x3042
				}
				return string(r)
			default:
				return string(rune(0x10000 + p.intn(0x100000)))
			}
		case "mixed":
			switch p.intn(6) {
			case 0:
				return string(rune(0x80 + p.intn(0x2f00)))
			case 1:
				return string(rune(0x1f600 + p.intn(64)))
			case 2:
				return []string{"%", "+", "=", "\"", "\\", "\n", "\x00", " ", "/", "&", ",", "\t", "\r", "\x7f", "\x1f"}[p.intn(15)]
			default:
				return string([]byte{byte(0x20 + p.intn(0x5f))})
			}
		case "bytes":
			return string([]byte{byte(p.intn(256))})
		default: // illformed: valid text with ill-formed sequences sprinkled in
			switch p.intn(5) {
			case 0:
				return illSeqs[p.intn(len(illSeqs))]
			case 1:
				return string(rune(0x80 + p.intn(0x2f00)))
			default:
				return string([]byte{byte(0x20 + p.intn(0x5f))})
			}
		}
	}
	if kind == "bytes" && n >= 256 { // every byte value at least once, in a scrambled order
		perm := make([]byte, 256)
		for i := range perm {
			perm[i] = byte(i)
		}
		for i := 255; i > 0; i-- {
			j := p.intn(i + 1)
			perm[i], perm[j] = perm[j], perm[i]
		}
		sb.Write(perm)
	}
	for sb.Len() < n {
		u := unit()
		if sb.Len()+len(u) > n {
			if kind == "illformed" || kind == "bytes" {
				u = u[:n-sb.Len()]
			} else {
				u = string([]byte{byte('a' + p.intn(26))})
			}
		}
		sb.WriteString(u)
	}
	return sb.String()
}

// ---------------------------------------------------------------------------
// laws on arbitrary Go strings

type bytesCase struct {
	Law string `json:"law"`
	X   string `json:"x"`           // hex of the Go string X (for the trim laws: the part $p that is trimmed off)
	Y   string `json:"y,omitempty"` // hex: the separator (split) / the part $r that is kept (trim laws)
}

var bytesLaws = []string{"base64", "base64-rev", "uri", "split", "ltrimstr", "rtrimstr", "explode", "tojson", "tojson-nested"}

var (
	qBase64Rev   = run.MustCompile("@base64d | @base64")
	qExplodeOnly = run.MustCompile("explode")
	qLtrim       = run.MustCompile(`($p + $r) as $x | [($x | ltrimstr($p)), ($p + ($x | ltrimstr($p))), $x]`, withVars("$p", "$r"))
	qRtrim       = run.MustCompile(`($r + $p) as $x | [($x | rtrimstr($p)), (($x | rtrimstr($p)) + $p), $x]`, withVars("$p", "$r"))
)

func hx(s string) string { return hex.EncodeToString([]byte(s)) }

func showBytes(s string) string {
	q := strconv.Quote(s)
	if len(q) > 300 {
		q = q[:300] + fmt.Sprintf("...(%d bytes)", len(s))
	}
	return q
}

// replacement policies for ill-formed input
func replacePerByte(s string) string { return string([]rune(s)) }
func replacePerRun(s string) string  { return strings.ToValidUTF8(s, "\ufffd") }

func allowedReplacement(x, r string) bool {
	return r == replacePerByte(x) || r == replacePerRun(x)
}

func runStr(name string, code *gojq.Code, in any, vars ...any) (string, string, bool) {
	out, msg, budget := one(code, in, vars...)
	if budget {
		return "", "", true
	}
	if msg != "" {
		return "", fmt.Sprintf("`%s`: %s", name, msg), false
	}
	s, ok := out.(string)
	if !ok {
		return "", fmt.Sprintf("`%s` returned %s, not a string", name, show(out)), false
	}
	return s, "", false
}

func checkBytes(c bytesCase) string {
	xb, err1 := hex.DecodeString(c.X)
	yb, err2 := hex.DecodeString(c.Y)
	if err1 != nil || err2 != nil {
		return "bad case"
	}
	x, y := string(xb), string(yb)
	on := "on " + showBytes(x)
	sameBytes := func(name string, code *gojq.Code, in string, vars ...any) string {
		got, msg, budget := runStr(name, code, in, vars...)
		if budget {
			rec.Discard("budget")
			return ""
		}
		if msg != "" {
			return msg + " on " + showBytes(in)
		}
		if got != in {
			return fmt.Sprintf("`%s` on %s returned %s (first difference at byte %d of %d)", name, showBytes(in), showBytes(got), firstDiff(got, in), len(in))
		}
		return ""
	}
	switch c.Law {
	case "base64":
		return sameBytes("@base64|@base64d", qBase64, x)
	case "base64-rev":
		return sameBytes("@base64d|@base64", qBase64Rev, base64.StdEncoding.EncodeToString(xb))
	case "uri":
		return sameBytes("@uri|@urid", qURI, x)
	case "split":
		if y == "" {
			rec.Discard("outside-domain")
			return ""
		}
		return sameBytes("split($s)|join($s) with $s="+showBytes(y), qSplitJoin, x, y)
	case "ltrimstr", "rtrimstr":
		code, whole := qLtrim, x+y
		if c.Law == "rtrimstr" {
			code, whole = qRtrim, y+x
		}
		out, msg, budget := one(code, nil, x, y)
		if budget {
			rec.Discard("budget")
			return ""
		}
		if msg != "" {
			return fmt.Sprintf("%s with $p=%s $r=%s: %s", c.Law, showBytes(x), showBytes(y), msg)
		}
		a, _ := out.([]any)
		if len(a) != 3 {
			return "trim law: malformed output " + show(out)
		}
		trimmed, _ := a[0].(string)
		back, _ := a[1].(string)
		cat, _ := a[2].(string)
		if cat != whole {
			return fmt.Sprintf("concatenation of %s and %s gives %s", showBytes(x), showBytes(y), showBytes(cat))
		}
		if trimmed != y {
			return fmt.Sprintf("%s($p) on $p,$r concatenated ($p=%s $r=%s) returned %s, not $r", c.Law, showBytes(x), showBytes(y), showBytes(trimmed))
		}
		if back != whole {
			return fmt.Sprintf("%s($p) followed by concatenation with $p=%s on %s returned %s", c.Law, showBytes(x), showBytes(whole), showBytes(back))
		}
		return ""
	case "explode":
		r, msg, budget := runStr("explode|implode", qExplode, x)
		if budget {
			rec.Discard("budget")
			return ""
		}
		if msg != "" {
			return msg + " " + on
		}
		if utf8.ValidString(x) {
			if r != x {
				return fmt.Sprintf("`explode|implode` %s returned %s (first difference at byte %d)", on, showBytes(r), firstDiff(r, x))
			}
			return ""
		}
		if !utf8.ValidString(r) {
			return fmt.Sprintf("`explode|implode` %s returned the ill-formed %s", on, showBytes(r))
		}
		r2, msg, _ := runStr("explode|implode", qExplode, r)
		if msg != "" || r2 != r {
			return fmt.Sprintf("`explode|implode` is not idempotent after one round %s: first %s, then %s %s", on, showBytes(r), showBytes(r2), msg)
		}
		e1, m1, _ := one(qExplodeOnly, x)
		e2, m2, _ := one(qExplodeOnly, r)
		if m1 != "" || m2 != "" || !univ.Equal(e1, e2) {
			return fmt.Sprintf("`explode` %s and of its round trip %s differ: %s %s", on, showBytes(r), m1, m2)
		}
		return ""
	case "tojson", "tojson-nested":
		var in any = x
		if c.Law == "tojson-nested" {
			in = []any{x, map[string]any{x: x}}
		}
		out, msg, budget := one(qJSON, in)
		if budget {
			rec.Discard("budget")
			return ""
		}
		if msg != "" {
			return "`tojson|fromjson` " + on + ": " + msg
		}
		var r string
		if c.Law == "tojson" {
			s, ok := out.(string)
			if !ok {
				return fmt.Sprintf("`tojson|fromjson` %s returned %s", on, show(out))
			}
			r = s
		} else {
			a, _ := out.([]any)
			if len(a) != 2 {
				return fmt.Sprintf("`tojson|fromjson` on [X,{X:X}] with X=%s returned %s", showBytes(x), show(out))
			}
			r, _ = a[0].(string)
			if !univ.Equal(out, []any{r, map[string]any{r: r}}) {
				return fmt.Sprintf("`tojson|fromjson` on [X,{X:X}] with X=%s returned %s: element, key and value differ", showBytes(x), show(out))
			}
		}
		if utf8.ValidString(x) {
			if r != x {
				return fmt.Sprintf("`tojson|fromjson` %s returned %s (first difference at byte %d)", on, showBytes(r), firstDiff(r, x))
			}
			return ""
		}
		if !allowedReplacement(x, r) {
			return fmt.Sprintf("`tojson|fromjson` %s returned %s, which is not X with its ill-formed bytes replaced by U+FFFD (%s)", on, showBytes(r), showBytes(replacePerByte(x)))
		}
		r2, msg, _ := runStr("tojson|fromjson", qJSON, r)
		if msg != "" || r2 != r {
			return fmt.Sprintf("`tojson|fromjson` is not idempotent after one round %s: %s then %s %s", on, showBytes(r), showBytes(r2), msg)
		}
		return ""
	}
	return "unknown law " + c.Law
}

func firstDiff(a, b string) int {
	n := min(len(a), len(b))
	for i := 0; i < n; i++ {
		if a[i] != b[i] {
			return i
		}
	}
	return n
}

func doBytes(c bytesCase, class string) string {
	rec.Eval()
	xb, _ := hex.DecodeString(c.X)
	valid := utf8.Valid(xb)
	nt := !valid || len(xb) >= 55 || ntString(string(xb))
	if nt {
		rec.NT("bytes/" + c.Law + "/" + c.X + "/" + c.Y)
	}
	rec.Class("bytes/" + c.Law)
	if valid {
		rec.Class("bytes/valid-utf8")
	} else {
		rec.Class("bytes/ill-formed-utf8")
	}
	if class != "" {
		rec.Class("bytes/" + class)
	}
	sample("bytes", !valid && len(xb) >= 3 && len(xb) <= 40, c)
	return checkBytes(c)
}

// lawCases expands a string into one case per law (separators and split
// points derived from the string itself, deterministically).
func lawCases(x string, seed uint64) []bytesCase {
	p := prng(seed ^ 0xabcdef)
	var out []bytesCase
	for _, law := range bytesLaws {
		switch law {
		case "split":
			seps := []string{","}
			if len(x) > 0 {
				i := p.intn(len(x))
				seps = append(seps, x[i:min(len(x), i+1+p.intn(3))], x[:1])
			}
			for _, s := range seps {
				out = append(out, bytesCase{Law: law, X: hx(x), Y: hx(s)})
			}
		case "ltrimstr", "rtrimstr":
			for _, k := range []int{0, min(1, len(x)), len(x) / 2, len(x)} {
				pre, rest := x[:k], x[k:]
				if law == "rtrimstr" {
					pre, rest = x[k:], x[:k]
				}
				out = append(out, bytesCase{Law: law, X: hx(pre), Y: hx(rest)})
			}
		default:
			out = append(out, bytesCase{Law: law, X: hx(x)})
		}
	}
	return out
}

// genBad: Go strings that are mostly not valid UTF-8.
func genBad() *rapid.Generator[string] {
	special := []string{"\xc0\x80", "\xe0\x80\x80", "\xed\xa0\x80", "\xed\xbf\xbf", "\xf4\x90\x80\x80", "\xf8\x88\x80\x80\x80", "\x80", "\xbf", "\xc2", "\xe2\x82", "\xf0\x9f\x98", "\xff", "\xfe", "\xef\xbf", "\xf0\x90", "a", "z", "é", "😀", "\x00", "%", "+", "=", "\"", "\\", ",", "\n"}
	return rapid.Custom(func(t *rapid.T) string {
		var sb strings.Builder
		switch rapid.IntRange(0, 5).Draw(t, "badkind") {
		case 0:
			return gen.StrBad(12).Draw(t, "strbad")
		case 1: // any bytes
			n := rapid.IntRange(0, 24).Draw(t, "len")
			for i := 0; i < n; i++ {
				sb.WriteByte(byte(rapid.IntRange(0, 255).Draw(t, "byte")))
			}
		case 2: // a valid string with one byte removed or replaced
			s := []byte(genStr(12).Draw(t, "s"))
			if len(s) > 0 {
				i := rapid.IntRange(0, len(s)-1).Draw(t, "at")
				if rapid.Bool().Draw(t, "remove") {
					s = append(s[:i:i], s[i+1:]...)
				} else {
					s[i] = byte(rapid.IntRange(0x80, 0xff).Draw(t, "byte"))
				}
			}
			return string(s)
		case 3, 4: // truncated, overlong, surrogate, out of range sequences between text
			n := rapid.IntRange(1, 8).Draw(t, "len")
			for i := 0; i < n; i++ {
				sb.WriteString(rapid.SampledFrom(special).Draw(t, "piece"))
			}
		default: // sized
			kind := rapid.SampledFrom([]string{"bytes", "illformed"}).Draw(t, "kind")
			n := rapid.SampledFrom(sweepSizes[:32]).Draw(t, "size") + rapid.IntRange(-1, 1).Draw(t, "off")
			return sizedString(kind, max(n, 0), rapid.Uint64().Draw(t, "seed"))
		}
		return sb.String()
	})
}

func genBytesCase() *rapid.Generator[bytesCase] {
	return rapid.Custom(func(t *rapid.T) bytesCase {
		c := bytesCase{Law: rapid.SampledFrom(bytesLaws).Draw(t, "law")}
		x := genBad().Draw(t, "x")
		c.X = hx(x)
		switch c.Law {
		case "split":
			var s string
			if len(x) > 0 && rapid.Bool().Draw(t, "fromx") {
				i := rapid.IntRange(0, len(x)-1).Draw(t, "at")
				s = x[i:min(len(x), i+rapid.IntRange(1, 3).Draw(t, "n"))]
			} else {
				s = genBad().Draw(t, "sep")
			}
			if s == "" {
				s = "\xff"
			}
			if len(s) > 8 {
				s = s[:8]
			}
			c.Y = hx(s)
		case "ltrimstr", "rtrimstr":
			if rapid.Bool().Draw(t, "cut") { // cut one string in two (often inside a multi-byte sequence)
				k := rapid.IntRange(0, len(x)).Draw(t, "k")
				if c.Law == "ltrimstr" {
					c.X, c.Y = hx(x[:k]), hx(x[k:])
				} else {
					c.X, c.Y = hx(x[k:]), hx(x[:k])
				}
			} else {
				c.Y = hx(genBad().Draw(t, "rest"))
			}
		}
		return c
	})
}

// ---------------------------------------------------------------------------
// sized values

// member: a small non-periodic value.
func member(p *prng, i int) any {
	switch p.intn(9) {
	case 0:
		return nil
	case 1:
		return p.intn(2) == 0
	case 2:
		return i
	case 3:
		return float64(p.intn(1000)) / 8
	case 4:
		return sizedString("mixed", p.intn(12), p.next())
	case 5:
		return []any{}
	case 6:
		return map[string]any{}
	case 7:
		return []any{i, sizedString("ascii", p.intn(5), p.next())}
	default:
		return map[string]any{"k": i, sizedString("mixed", 1+p.intn(4), p.next()): nil}
	}
}

func sizedValues(n int, seed uint64) []any {
	p := prng(seed + uint64(n)*977)
	arr := make([]any, n)
	flat := make([]any, n)
	obj := make(map[string]any, n)
	for i := range arr {
		arr[i] = member(&p, i)
		flat[i] = i
		key := sizedString("mixed", 1+p.intn(6), p.next()) + strconv.Itoa(i) // unique
		if i%7 == 0 {
			key = strconv.Itoa(i)
		}
		obj[key] = member(&p, i)
	}
	return []any{arr, flat, obj, map[string]any{"a": []any{arr, obj}, "": flat}}
}

// chainValue: nesting depth d (arrays, objects, or alternating), with siblings.
func chainValue(d int, shape int) any {
	var v any = "leaf"
	switch d % 3 {
	case 1:
		v = []any{}
	case 2:
		v = map[string]any{}
	}
	for i := 0; i < d; i++ {
		asObj := shape == 1 || (shape == 2 && i%2 == 0)
		if asObj {
			m := map[string]any{"k": v}
			if i%5 == 0 {
				m["s"] = i
			}
			v = m
		} else {
			a := []any{v}
			if i%4 == 0 {
				a = []any{i, v, nil}
			}
			v = a
		}
	}
	return v
}

func sweepNumbers() []any {
	var out []any
	add := func(lit string) {
		n := json.Number(lit)
		if !finiteNum(n) {
			return
		}
		out = append(out, n)
		if f, err := strconv.ParseFloat(lit, 64); err == nil {
			out = append(out, f)
		}
		if univ.IsIntLit(lit) {
			b, _ := new(big.Int).SetString(lit, 10)
			out = append(out, b)
			if b.IsInt64() {
				out = append(out, int(b.Int64()))
			}
		}
	}
	p := prng(40)
	for n := 1; n <= 40; n++ {
		rnd := make([]byte, n)
		for i := range rnd {
			rnd[i] = byte('0' + p.intn(10))
		}
		if rnd[0] == '0' {
			rnd[0] = '7'
		}
		for _, digits := range []string{"1" + strings.Repeat("0", n-1), strings.Repeat("9", n), string(rnd)} {
			for _, sign := range []string{"", "-"} {
				add(sign + digits)
				add(sign + "0." + digits)
				add(sign + digits[:1] + "." + digits + "e" + strconv.Itoa(n))
				if n > 1 {
					add(sign + digits[:n/2] + "." + digits[n/2:])
				}
			}
		}
	}
	for _, m := range []string{"1", "1.7976931348623157", "1.7976931348623158", "2.2250738585072014", "2.225073858507201", "4.9", "4.94065645841246544", "9.999999999999999", "5", "2.4703282292062327"} {
		for e := -330; e <= 310; e++ {
			if e > -300 && e < 290 && e%23 != 0 && (e < -10 || e > 25) {
				continue
			}
			for _, sign := range []string{"", "-"} {
				add(sign + m + "e" + strconv.Itoa(e))
				if e >= 0 {
					add(sign + m + "E+" + strconv.Itoa(e))
				}
			}
		}
	}
	return out
}

// ---------------------------------------------------------------------------

func exhaustiveSweeps() {
	idx := 0
	mine := func() bool { idx++; return rec.Mine(idx) }
	bad := 0
	report := func(sub string, c any, msg string) {
		if msg != "" && bad < 40 {
			bad++
			rec.Direct(sub, c, "%s", msg)
		}
	}

	// (S1) strings of the swept byte lengths x 5 kinds of content x every string law
	for _, n := range sweepSizes {
		for ki, kind := range contentKinds {
			if !mine() {
				continue
			}
			if !rec.Thorough() && n > 8193 && ki%2 == 1 { // quick: the 64 KiB lengths with three of the five kinds
				continue
			}
			x := sizedString(kind, n, uint64(n)*31+uint64(ki))
			for _, c := range lawCases(x, uint64(n)) {
				report("bytes", c, doBytes(c, "size-sweep"))
			}
			if utf8.ValidString(x) { // the plain sub-checks too (their own code path and oracle)
				for _, sub := range []string{"explode", "base64", "uri"} {
					c := strCase{S: x}
					report(sub, c, doStr(sub, c))
				}
				vc := valCase{V: univ.V{X: []any{x, map[string]any{x: x}}}}
				report("tojson", vc, doVal("tojson", vc))
				report("fromstream", vc, doVal("fromstream", vc))
			}
		}
	}
	rec.Exhaustive(fmt.Sprintf("size sweep: strings of %d byte lengths (0..65537 around 4/57/64/76/128/256/1024/4096/8192/65536) x %d kinds of content x %d string laws", len(sweepSizes), len(contentKinds), len(bytesLaws)), rec.Thorough() && bad < 40)

	// (S2) every 1-byte string, every 2-byte string (quick: every 5th), and every 3-byte string over 20 telling bytes
	tell := []byte{0x00, 0x41, 0x7f, 0x80, 0xbf, 0xc0, 0xc2, 0xdf, 0xe0, 0xe2, 0xed, 0xef, 0xf0, 0xf4, 0xf5, 0xff, 0xa0, 0x90, 0x82, 0xac}
	var small []string
	for a := 0; a < 256; a++ {
		small = append(small, string([]byte{byte(a)}), "a"+string([]byte{byte(a)})+"z", "é"+string([]byte{byte(a)})+"😀")
	}
	for a := 0; a < 256; a++ {
		for b := 0; b < 256; b++ {
			if rec.Thorough() || (a*256+b)%5 == 0 {
				small = append(small, string([]byte{byte(a), byte(b)}))
			}
		}
	}
	for _, a := range tell {
		for _, b := range tell {
			for _, c := range tell {
				small = append(small, string([]byte{a, b, c}))
			}
		}
	}
	for _, x := range small {
		if !mine() {
			continue
		}
		for _, law := range []string{"base64", "base64-rev", "uri", "explode", "tojson"} {
			c := bytesCase{Law: law, X: hx(x)}
			report("bytes", c, doBytes(c, "small-exhaustive"))
		}
		c := bytesCase{Law: "split", X: hx("p" + x + x + "q"), Y: hx(x)}
		report("bytes", c, doBytes(c, "small-exhaustive"))
		c = bytesCase{Law: "ltrimstr", X: hx(x), Y: hx(x + "r")}
		report("bytes", c, doBytes(c, "small-exhaustive"))
	}
	rec.Exhaustive("byte strings: every 1-byte string (alone and embedded), every 2-byte string, every 3-byte string over 20 telling bytes x base64, base64-rev, uri, explode, tojson, split, ltrimstr", rec.Thorough() && bad < 40)

	// (S3) collections of 31..1000 members through every law on values
	for _, n := range sweepMembers {
		for vi, v := range sizedValues(n, 7) {
			if !mine() {
				continue
			}
			c := valCase{V: univ.V{X: v}}
			for _, sub := range append(append([]string{}, structuralSubs...), "tojson") {
				report(sub, c, doVal(sub, c))
			}
			if _, ok := v.(map[string]any); ok {
				report("entries", c, doVal("entries", c))
				report("with-entries", c, doVal("with-entries", c))
			}
			// setpath(p; x) | getpath(p) at and beyond the end of the big array, and retained
			if a, ok := v.([]any); ok {
				for _, p := range [][]any{{n}, {n + 1}, {n - 1}, {-n}, {n, "a", 1}, {0, "new"}} {
					sc := setCase{V: univ.V{X: v}, P: univ.V{X: p}, X: univ.V{X: []any{"x", n}}}
					if vi == 0 && len(p) == 2 { // members of arr are of every kind: only flat is settable below an element
						continue
					}
					report("setpath-x", sc, doSet(sc))
				}
				for _, mode := range []string{"input", "collect", "slice"} {
					rc := retSetCase{In: univ.V{X: a}, Cap: 3, Mode: mode, Q: univ.V{X: []any{}}, K: n - 1,
						Ps: univ.V{X: []any{[]any{n}, []any{n}, []any{n + 1}}}, Args: univ.V{X: []any{"x", "y", "z"}}}
					if mode == "slice" {
						rc.Ps = univ.V{X: []any{[]any{n - 1}, []any{n - 1}, []any{n}}}
					}
					report("ret-setpath", rc, doRetSet(rc))
				}
				rc := retSetCase{In: univ.V{X: nil}, Mode: "range", Q: univ.V{X: []any{}}, K: n,
					Ps: univ.V{X: []any{[]any{n}, []any{n}}}, Args: univ.V{X: []any{"x", "y"}}}
				report("ret-setpath", rc, doRetSet(rc))
			}
			for _, law := range []string{"fromstream", "replay", "paths-rebuild", "tojson"} {
				if law == "replay" && n == 1000 && vi == 3 { // thousands of retained states of thousands of nodes: too much memory for no new shape
					continue
				}
				bc := batchCase{Law: law, Args: univ.V{X: []any{v, []any{v, 1}}}}
				if _, ok := v.(map[string]any); ok && law == "tojson" {
					bc.Law = "entries"
					bc.Args = univ.V{X: []any{v, v}}
				}
				report("ret-batch", bc, doBatch(bc))
			}
		}
		// split/join with n separators, explode of n runes
		if mine() {
			parts := make([]string, n+1)
			p := prng(n)
			for i := range parts {
				parts[i] = sizedString("mixed", p.intn(4), p.next())
			}
			for _, sep := range []string{",", "é,", "\x00"} {
				c := strCase{S: strings.Join(parts, sep), Sep: sep}
				report("split", c, doStr("split", c))
			}
			c := strCase{S: sizedString("multibyte", 4*n, uint64(n))}
			report("explode", c, doStr("explode", c))
		}
	}
	rec.Exhaustive(fmt.Sprintf("collections of %v members (mixed array, integer array, object, nested) x structural laws, tojson, entries, setpath at/beyond the end, retained forms; split/join with that many separators", sweepMembers), bad < 40)

	// (S4) nesting depth 1..200 (quick: 1..40, every 7th, 190..200), three shapes, stream/path/json laws
	for d := 1; d <= 200; d++ {
		if !rec.Thorough() && d > 40 && d%7 != 0 && d < 190 {
			continue
		}
		for shape := 0; shape < 3; shape++ {
			if !mine() {
				continue
			}
			c := valCase{V: univ.V{X: chainValue(d, shape)}}
			for _, sub := range append(append([]string{}, structuralSubs...), "tojson") {
				report(sub, c, doVal(sub, c))
			}
			bc := batchCase{Law: "replay", Args: univ.V{X: []any{c.V.X, chainValue(d, (shape+1)%3)}}}
			report("ret-batch", bc, doBatch(bc))
		}
	}
	rec.Exhaustive("nesting depth 1..200 x 3 shapes (arrays, objects, alternating; leaf, [] or {} at the bottom) x structural laws and tojson", rec.Thorough() && bad < 40)

	// (S5) numbers: 1..40 digits in every shape and representation, exponents at the edge of the float range
	nums := sweepNumbers()
	for _, v := range nums {
		if !mine() {
			continue
		}
		c := valCase{V: univ.V{X: v}}
		report("tonumber", c, doVal("tonumber", c))
		report("tojson", c, doVal("tojson", c))
	}
	rec.Exhaustive(fmt.Sprintf("numbers: %d values (1..40 digits as integer, fraction, mixed and with exponent; 10 mantissas x exponents -330..310; as json.Number, float64, *big.Int, int) x tostring|tonumber, tojson|fromjson", len(nums)), bad < 40)
}
