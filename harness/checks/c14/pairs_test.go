// C14 sub-check "pairs": regex builtins inside ONE compiled program.
//
// gojq keeps one cache of compiled regexps per compiled program (*Code); it
// is shared by every call site and survives runs.  The laws in c14_test.go
// hold for each call because they are stated for the call, not for a call in
// a particular program; so here two to four related calls share one program
// (or one program is run over a sequence of inputs carrying pattern and
// flags) and every call's result must equal the result of the same call
// compiled and run alone in a fresh program.  (pattern, flags) of the calls
// are related so that any lossy notion of "the same regex" shows: identical,
// pattern2 = pattern1 + flags1, pattern2 = pattern1 + "g" after a builtin
// that adds g itself, same pattern with other (also unsupported) flags, same
// flags with another pattern.
package c14

import (
	"encoding/json"
	"fmt"
	"strings"
	"unicode/utf8"

	"github.com/itchyny/gojq"
	"pgregory.net/rapid"

	"verif/internal/run"
	"verif/internal/univ"
)

type callT struct {
	Fn    string  `json:"fn"` // test match capture scan split splits sub gsub
	Re    string  `json:"re"`
	Flags *string `json:"flags"`         // nil = null
	One   bool    `json:"one,omitempty"` // one-argument form (mode lit, null flags, not split)
}

type pairsCase struct {
	// Mode: "lit" one program, patterns and flags as literals at each call
	// site; "in" one program, patterns and flags read from the input;
	// "runs" one program (a dispatcher over all eight builtins) run once per
	// call, in order, pattern / flags / builtin read from the input.
	Mode  string  `json:"mode"`
	S     string  `json:"s"`
	Calls []callT `json:"calls"`
}

var pairFns = []string{"test", "match", "capture", "scan", "split", "splits", "sub", "gsub"}

func isPairFn(fn string) bool {
	for _, f := range pairFns {
		if f == fn {
			return true
		}
	}
	return false
}

// globalFn: the builtin appends "g" to the flags itself.
func globalFn(fn string) bool {
	return fn == "scan" || fn == "split" || fn == "splits" || fn == "gsub"
}

func flagsLit(f *string) string {
	if f == nil {
		return "null"
	}
	return jqStr(*f)
}

func flagsAny(f *string) any {
	if f == nil {
		return nil
	}
	return *f
}

// callSrc renders one guarded call; errors are values so that "fails alone,
// succeeds after another call" is visible as well.
func callSrc(fn, reArg, flArg string, one bool) string {
	args := []string{reArg}
	if fn == "sub" || fn == "gsub" {
		args = append(args, `"[\(.n1)]"`)
	}
	if !one {
		args = append(args, flArg)
	}
	return "(try [" + fn + "(" + strings.Join(args, "; ") + ")] catch {err: .})"
}

func (c callT) show() string {
	return callSrc(c.Fn, jqStr(c.Re), flagsLit(c.Flags), c.One)
}

func validPairs(c pairsCase) string {
	if c.Mode != "lit" && c.Mode != "in" && c.Mode != "runs" {
		return "bad case: mode"
	}
	if len(c.Calls) < 1 || len(c.Calls) > 6 || !utf8.ValidString(c.S) {
		return "bad case"
	}
	for _, k := range c.Calls {
		if !isPairFn(k.Fn) || !utf8.ValidString(k.Re) {
			return "bad case: call"
		}
		if k.One && (k.Flags != nil || k.Fn == "split" || c.Mode != "lit") {
			return "bad case: one-argument form"
		}
	}
	return ""
}

func freshRun(src string, input any) (any, string, bool) {
	code, err := run.Compile(src)
	if err != nil {
		return nil, fmt.Sprintf("query %s does not compile: %v", src, err), false
	}
	return runOne(code, src, input)
}

func runOne(code *gojq.Code, src string, input any) (any, string, bool) {
	o := execT(code, input)
	switch {
	case o.viol != "":
		return nil, src + ": " + o.viol, false
	case o.skip:
		rec.Discard("budget")
		return nil, "", false
	case o.err != nil:
		return nil, fmt.Sprintf("%s fails outside try: %v", src, o.err), false
	case len(o.vals) != 1:
		return nil, fmt.Sprintf("%s gives %s", src, univ.ShowAll(o.vals)), false
	}
	return o.vals[0], "", true
}

func dispatcherSrc() string {
	var sb strings.Builder
	sb.WriteString(". as $in | .s | ")
	for i, fn := range pairFns {
		if i == 0 {
			sb.WriteString("if ")
		} else {
			sb.WriteString(" elif ")
		}
		sb.WriteString("$in.fn == " + jqStr(fn) + " then " + callSrc(fn, "$in.re", "$in.flags", false))
	}
	sb.WriteString(` else error("fn") end`)
	return sb.String()
}

// checkPairs is the oracle for one case; "" means the property held.
func checkPairs(c pairsCase) string {
	if msg := validPairs(c); msg != "" {
		return msg
	}
	var shown []string
	for _, k := range c.Calls {
		shown = append(shown, k.show())
	}
	where := fmt.Sprintf("subject %q, mode %s, calls %s", c.S, c.Mode, strings.Join(shown, ", "))

	// results of the calls sharing one program
	var together []any
	switch c.Mode {
	case "lit":
		src := "[" + strings.Join(shown, ", ") + "]"
		v, msg, ok := freshRun(src, c.S)
		if !ok {
			return prefix(where, msg)
		}
		together, _ = v.([]any)
	case "in":
		var parts []string
		var cs []any
		for i, k := range c.Calls {
			parts = append(parts, callSrc(k.Fn, fmt.Sprintf("$in.c[%d].re", i), fmt.Sprintf("$in.c[%d].flags", i), false))
			cs = append(cs, map[string]any{"re": k.Re, "flags": flagsAny(k.Flags)})
		}
		src := ". as $in | .s | [" + strings.Join(parts, ", ") + "]"
		v, msg, ok := freshRun(src, map[string]any{"s": c.S, "c": cs})
		if !ok {
			return prefix(where, msg)
		}
		together, _ = v.([]any)
	case "runs":
		src := dispatcherSrc()
		code, err := run.Compile(src)
		if err != nil {
			return "dispatcher does not compile: " + err.Error()
		}
		for _, k := range c.Calls {
			v, msg, ok := runOne(code, "dispatcher", map[string]any{"s": c.S, "fn": k.Fn, "re": k.Re, "flags": flagsAny(k.Flags)})
			if !ok {
				return prefix(where, msg)
			}
			together = append(together, v)
		}
	}
	if len(together) != len(c.Calls) {
		return prefix(where, fmt.Sprintf("the program gives %d results for %d calls", len(together), len(c.Calls)))
	}

	// each call alone in a fresh program
	for i, k := range c.Calls {
		var alone any
		var msg string
		var ok bool
		if c.Mode == "lit" {
			alone, msg, ok = freshRun(k.show(), c.S)
		} else {
			alone, msg, ok = freshRun(". as $in | .s | "+callSrc(k.Fn, "$in.re", "$in.flags", false),
				map[string]any{"s": c.S, "re": k.Re, "flags": flagsAny(k.Flags)})
		}
		if !ok {
			return prefix(where, msg)
		}
		if !univ.Equal(together[i], alone) {
			return fmt.Sprintf("%s: call %d gives %s inside the shared program but %s when compiled and run alone", where, i, univ.Show(together[i]), univ.Show(alone))
		}
	}

	// and the laws between calls on the same (pattern, flags): test holds iff
	// match finds something, scan/splits count the global matches
	for i, a := range c.Calls {
		for j, b := range c.Calls {
			if a.Fn != "test" || b.Fn != "match" || a.Re != b.Re || flagsLit(a.Flags) != flagsLit(b.Flags) {
				continue
			}
			ta, _ := together[i].([]any)
			mb, isArr := together[j].([]any)
			if len(ta) != 1 || !isArr {
				continue // an error value: covered by the comparison above
			}
			if tv, isB := ta[0].(bool); isB && tv != (len(mb) > 0) {
				return fmt.Sprintf("%s: test (call %d) gives %v, match (call %d) finds %d match(es)", where, i, tv, j, len(mb))
			}
		}
	}
	return ""
}

func prefix(where, msg string) string {
	if msg == "" {
		return ""
	}
	return where + ": " + msg
}

// ntPairs: two calls whose (pattern, flags) differ although pattern+flags
// (with the g the builtin adds) coincide, or the same pattern under
// different flags.
func ntPairs(c pairsCase) (bool, string) {
	eff := func(k callT) []string {
		f := ""
		if k.Flags != nil {
			f = *k.Flags
		}
		out := []string{k.Re + f}
		if globalFn(k.Fn) {
			out = append(out, k.Re+f+"g")
		}
		return out
	}
	class := ""
	for i, a := range c.Calls {
		for _, b := range c.Calls[i+1:] {
			if a.Re == b.Re && flagsLit(a.Flags) == flagsLit(b.Flags) {
				if class == "" {
					class = "same-regex"
				}
				continue
			}
			for _, x := range eff(a) {
				for _, y := range eff(b) {
					if x == y {
						class = "pattern+flags-collide"
					}
				}
			}
			if a.Re == b.Re && class != "pattern+flags-collide" {
				class = "same-pattern-other-flags"
			}
		}
	}
	return class == "pattern+flags-collide" || class == "same-pattern-other-flags", class
}

// ---------------------------------------------------------------------------
// generator

var pairWords = []string{"a", "b", "ab", "x", "in", "a.b", "[ab]", "a+", "b*", "(?<n1>a)b", "^a", "b$", "a|b", "", "A", "é", ".", "(?<n1>.)", "n", "\U0001F600"}
var pairFlagSuffix = []string{"g", "i", "m", "gi", "ig", "gm", "im", "x", "gx", "ix", "n", "gg"}
var pairFlags = []*string{nil, nil, sp(""), sp("g"), sp("i"), sp("m"), sp("gi"), sp("ig"), sp("gm"), sp("im"), sp("gim"), sp("x"), sp("gx"), sp("iy"), sp("mx"), sp("n"), sp("s")}
var pairPieces = []string{"a", "b", "ab", "abg", "abi", "abgi", "a\nb", "x", "xi", "X", "A", "AB", "g", "i", "m", "\n", " ", "in", "ing", "é", "\U0001F600", "aab", "ba", "n"}

func genPairs(t *rapid.T) (pairsCase, string) {
	word := func(label string) string {
		w := rapid.SampledFrom(pairWords).Draw(t, label)
		if rapid.IntRange(0, 3).Draw(t, label+"two") == 0 {
			w += rapid.SampledFrom(pairWords).Draw(t, label+"2")
		}
		return w
	}
	fn := func(label string) string { return rapid.SampledFrom(pairFns).Draw(t, label) }
	fl := func(label string) *string { return rapid.SampledFrom(pairFlags).Draw(t, label) }
	w := word("w")
	var calls []callT
	kind := rapid.SampledFrom([]string{"identical", "pattern+flags", "pattern+g", "other-flags", "other-pattern", "mixed"}).Draw(t, "kind")
	switch kind {
	case "identical":
		f := fl("f")
		n := rapid.IntRange(2, 3).Draw(t, "n")
		for i := 0; i < n; i++ {
			calls = append(calls, callT{Fn: fn("fn"), Re: w, Flags: f})
		}
	case "pattern+flags":
		// (w, x) next to (w+x, none)
		x := rapid.SampledFrom(pairFlagSuffix).Draw(t, "suffix")
		none := rapid.SampledFrom([]*string{nil, sp("")}).Draw(t, "none")
		calls = append(calls, callT{Fn: fn("fn1"), Re: w, Flags: sp(x)}, callT{Fn: fn("fn2"), Re: w + x, Flags: none})
		switch rapid.IntRange(0, 3).Draw(t, "third") {
		case 0:
			calls = append(calls, callT{Fn: fn("fn3"), Re: w + x + "g", Flags: nil})
		case 1:
			calls = append(calls, callT{Fn: fn("fn3"), Re: w, Flags: sp(x)})
		}
	case "pattern+g":
		// a builtin that adds g itself next to the pattern ending in g
		g := rapid.SampledFrom([]string{"scan", "split", "splits", "gsub"}).Draw(t, "globalfn")
		f := rapid.SampledFrom([]*string{nil, nil, sp(""), sp("i"), sp("g")}).Draw(t, "f")
		fs := ""
		if f != nil {
			fs = *f
		}
		calls = append(calls, callT{Fn: g, Re: w, Flags: f}, callT{Fn: fn("fn2"), Re: w + fs + "g", Flags: nil})
		if rapid.Bool().Draw(t, "third") {
			calls = append(calls, callT{Fn: "match", Re: w + fs + "g", Flags: sp("g")})
		}
	case "other-flags":
		n := rapid.IntRange(2, 4).Draw(t, "n")
		for i := 0; i < n; i++ {
			calls = append(calls, callT{Fn: fn("fn"), Re: w, Flags: fl("f")})
		}
	case "other-pattern":
		f := fl("f")
		n := rapid.IntRange(2, 3).Draw(t, "n")
		for i := 0; i < n; i++ {
			calls = append(calls, callT{Fn: fn("fn"), Re: word("wk"), Flags: f})
		}
	default:
		n := rapid.IntRange(2, 4).Draw(t, "n")
		for i := 0; i < n; i++ {
			calls = append(calls, callT{Fn: fn("fn"), Re: word("wk"), Flags: fl("f")})
		}
	}
	if rapid.Bool().Draw(t, "reverse") {
		for i, j := 0, len(calls)-1; i < j; i, j = i+1, j-1 {
			calls[i], calls[j] = calls[j], calls[i]
		}
	}
	mode := rapid.SampledFrom([]string{"lit", "lit", "in", "runs"}).Draw(t, "mode")
	if mode == "lit" {
		for i := range calls {
			if calls[i].Flags == nil && calls[i].Fn != "split" && rapid.Bool().Draw(t, "one") {
				calls[i].One = true
			}
		}
	}
	// subject: pieces, the patterns themselves, pattern + flags
	var sb strings.Builder
	n := rapid.IntRange(0, 5).Draw(t, "pieces")
	for i := 0; i < n; i++ {
		switch rapid.IntRange(0, 3).Draw(t, "piecekind") {
		case 0:
			k := calls[rapid.IntRange(0, len(calls)-1).Draw(t, "from")]
			sb.WriteString(k.Re)
			if k.Flags != nil && rapid.Bool().Draw(t, "withflags") {
				sb.WriteString(*k.Flags)
			}
		default:
			sb.WriteString(rapid.SampledFrom(pairPieces).Draw(t, "piece"))
		}
	}
	return pairsCase{Mode: mode, S: sb.String(), Calls: calls}, kind
}

// hand-written cases: the shapes named in the reports of cache-key defects.
var handPairs = []pairsCase{
	{Mode: "lit", S: "abab", Calls: []callT{{Fn: "scan", Re: "ab", One: true}, {Fn: "test", Re: "abg", One: true}, {Fn: "match", Re: "abg", Flags: sp("g")}}},
	{Mode: "lit", S: "wink, ringing", Calls: []callT{{Fn: "gsub", Re: "in", One: true}, {Fn: "sub", Re: "ing", One: true}}},
	{Mode: "lit", S: "X xi", Calls: []callT{{Fn: "test", Re: "x", Flags: sp("i")}, {Fn: "test", Re: "xi", One: true}}},
	{Mode: "lit", S: "a\nb", Calls: []callT{{Fn: "test", Re: "a.b", One: true}, {Fn: "test", Re: "a.b", Flags: sp("m")}}},
	{Mode: "lit", S: "a\nb", Calls: []callT{{Fn: "test", Re: "a.b", Flags: sp("m")}, {Fn: "match", Re: "a.b"}}},
	{Mode: "in", S: "A", Calls: []callT{{Fn: "test", Re: "a", Flags: sp("i")}, {Fn: "test", Re: "a", Flags: sp("iy")}}},
	{Mode: "runs", S: "ab", Calls: []callT{{Fn: "test", Re: "a b", Flags: sp("g")}, {Fn: "test", Re: "a b", Flags: sp("gx")}}},
	{Mode: "runs", S: "a\nb", Calls: []callT{{Fn: "test", Re: "a.b"}, {Fn: "test", Re: "a.b", Flags: sp("m")}, {Fn: "test", Re: "a.b", Flags: sp("x")}, {Fn: "test", Re: "a.b"}}},
	{Mode: "runs", S: "abab abg", Calls: []callT{{Fn: "splits", Re: "ab"}, {Fn: "match", Re: "abg"}, {Fn: "capture", Re: "(?<n1>a)b", Flags: sp("g")}, {Fn: "scan", Re: "(?<n1>a)bg"}}},
	{Mode: "in", S: "gg g", Calls: []callT{{Fn: "scan", Re: ""}, {Fn: "test", Re: "g"}, {Fn: "split", Re: "g", Flags: nil}, {Fn: "match", Re: "gg"}}},
}

func replayPairs(raw json.RawMessage) string {
	var c pairsCase
	if err := json.Unmarshal(raw, &c); err != nil {
		return "bad replay: " + err.Error()
	}
	return checkPairs(c)
}
