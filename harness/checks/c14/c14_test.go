// C14 — string positions are code points and the regex builtins agree with match.
//
// Oracles (nothing here asks gojq for the expected value of the thing under
// test):
//
//   - a rune-slice model ([]rune(subject)) for length / explode / .[i:j] / .[i] /
//     index / rindex / indices and for "slicing the subject by a reported
//     (offset, length) returns the reported string";
//   - the documented compositions over gojq's own `match` output, recomputed in
//     Go from the list of matches: test <=> a match exists, scan = projection of
//     the global matches, capture = named groups of each match, sub/gsub =
//     replace the (first / all) matches, splits/split/2 = the pieces between
//     consecutive global matches, gsub("(?<all>RE)"; .all) = identity;
//   - (sub-check "engine" only) Go's regexp on the pattern as translated by
//     func.go compileRegexp, with byte offsets converted by
//     utf8.RuneCountInString, as the reference for the set of matches;
//   - a deterministic VM step budget for "all of them terminate".
package c14

import (
	"encoding/hex"
	"encoding/json"
	"fmt"
	"regexp"
	"sort"
	"strings"
	"testing"
	"unicode/utf8"

	"github.com/itchyny/gojq"
	"pgregory.net/rapid"

	"verif/internal/evid"
	"verif/internal/run"
	"verif/internal/univ"
)

var rec *evid.Rec

// ---------------------------------------------------------------------------
// alphabets

// the alphabet of the property's quantifier: ASCII, 2-, 3-, 4-byte characters,
// a combining mark, newline, space.
var exhAlphabet = []string{"a", "b", "\u00e9", "\u3042", "\U0001F600", "\u0301", "\n", " "}

// the random part adds case pairs (incl. the Kelvin sign and long s, whose
// simple case folding changes the byte width), digits, punctuation that needs
// quoting, and a few more multi-byte characters.
var rndAlphabet = append(append([]string{}, exhAlphabet...),
	"A", "B", "\u00c9", "k", "K", "\u212a", "s", "S", "\u017f", "x", "1", "_", "-", ".", "\t", "\u00df", "\u3093", "\U0001F601", "*", "(")

// ill-formed UTF-8 (subjects only, built as Go strings): lone continuation
// bytes, truncated sequences, overlong / surrogate-shaped / out-of-range
// sequences, bytes that never occur in UTF-8.  Go's `for range` / []rune
// decoding, which gojq uses for length, explode and match offsets, counts
// every ill-formed byte as one code point U+FFFD that is one byte wide.
var badPieces = []string{"\x80", "\xb0", "\xbf", "\xc3", "\xe3\x81", "\xf0\x9f\x98", "\xc0\x80", "\xed\xa0\x80", "\xfe", "\xff",
	"\xe3", "\xf0\x9f", "\xf4\x90\x80\x80", "\xc1\xbf"}

// the exhaustive ill-formed scope: subjects of up to 3 of these pieces that
// are not valid UTF-8 (adjacent pieces may also complete a sequence).
var badExhAlphabet = []string{"a", "\u00e9", "\U0001F600", "\x80", "\xb0", "\xc3", "\xe3\x81", "\xf0\x9f\x98", "\xed\xa0\x80", "\xff"}

// cut returns the bytes of s that cover code points a..b-1 of the decoding
// (for well-formed s this is string([]rune(s)[a:b])).
func cut(s string, a, b int) string {
	from, to, n := len(s), len(s), 0
	for i := range s {
		if n == a {
			from = i
		}
		if n == b {
			to = i
			break
		}
		n++
	}
	if from > to {
		from = to
	}
	return s[from:to]
}

// illFormedBefore reports whether an ill-formed byte lies before code point pos.
func illFormedBefore(s string, pos int) bool {
	n := 0
	for i, x := range s {
		if n >= pos {
			return false
		}
		if x == utf8.RuneError {
			if _, w := utf8.DecodeRuneInString(s[i:]); w == 1 {
				return true
			}
		}
		n++
	}
	return false
}

func hexOf(s string) string { return hex.EncodeToString([]byte(s)) }

// multibyteBefore reports whether a code point wider than one byte lies
// before code point pos.
func multibyteBefore(s string, pos int) bool {
	n := 0
	for i := range s {
		if n >= pos {
			return false
		}
		if _, w := utf8.DecodeRuneInString(s[i:]); w > 1 {
			return true
		}
		n++
	}
	return false
}

// ---------------------------------------------------------------------------
// execution under a step budget; a budget that also runs out ten times larger
// on a subject of at most a few dozen code points is the termination claim.

const (
	stepBudget = 2_000_000
	outBudget  = 4096
)

type outcome struct {
	vals []any
	err  error
	skip bool   // budget ran out once but not at 10x: not judged
	viol string // non-termination or a panic inside gojq
}

func execT(code *gojq.Code, input any, vars ...any) (o outcome) {
	defer func() {
		if p := recover(); p != nil {
			o = outcome{viol: fmt.Sprintf("panic: %v", p)}
		}
	}()
	res := run.Exec(code, input, stepBudget, outBudget, vars...)
	if res.Panic != "" {
		return outcome{viol: firstLine(res.Panic)}
	}
	if !res.Budget {
		return outcome{vals: res.Vals, err: res.Err}
	}
	res = run.Exec(code, input, 10*stepBudget, 10*outBudget, vars...)
	if res.Panic != "" {
		return outcome{viol: firstLine(res.Panic)}
	}
	if res.Budget {
		return outcome{viol: fmt.Sprintf("does not terminate: still running after %d VM steps / %d outputs", 10*stepBudget, len(res.Vals))}
	}
	return outcome{skip: true}
}

// ---------------------------------------------------------------------------
// compiled query pool.  gojq keeps one regexp cache per compiled query, so
// the pool is dropped every few thousand uses to bound memory; the cache has
// no influence on results.

var (
	poolRe   = map[string]*gojq.Code{}
	poolCp   = map[string]*gojq.Code{}
	poolLit  = map[string]*gojq.Code{}
	poolUses int
)

var reVars = []string{"$re", "$flags"}
var cpVars = []string{"$i", "$j", "$t"}

func reCode(src string) *gojq.Code {
	poolUses++
	if poolUses > 20000 {
		poolUses = 0
		poolRe = map[string]*gojq.Code{}
	}
	if c := poolRe[src]; c != nil {
		return c
	}
	c := run.MustCompile(src, gojq.WithVariables(reVars))
	poolRe[src] = c
	return c
}

func cpCode(src string) *gojq.Code {
	if c := poolCp[src]; c != nil {
		return c
	}
	c := run.MustCompile(src, gojq.WithVariables(cpVars))
	poolCp[src] = c
	return c
}

func firstLine(s string) string {
	if i := strings.IndexByte(s, '\n'); i >= 0 {
		return s[:i]
	}
	return s
}

func jqStr(s string) string {
	b, _ := json.Marshal(s)
	return string(b)
}

// ---------------------------------------------------------------------------
// regex cases

// reCase is one (subject, regex, flags) triple plus the syntactic form in
// which the builtin under test is called.
type reCase struct {
	S     string  `json:"s"`
	Re    string  `json:"re"`
	Flags *string `json:"flags"` // nil = null
	// Form: "v2" name($re; $flags) with variables, "v1" name($re) (only with
	// null flags), "lit" regex and flags as literals in the query text (the
	// one-argument form when flags is null).
	Form string `json:"form"`
	K    int    `json:"k,omitempty"` // sub law: replacement template
	G    bool   `json:"g,omitempty"` // sub law: gsub instead of sub
}

// Ill-formed subjects do not survive JSON; they travel as hex next to a
// lossy readable copy.
func (c reCase) MarshalJSON() ([]byte, error) {
	type plain reCase
	a := struct {
		plain
		Hex string `json:"s_hex,omitempty"`
	}{plain: plain(c)}
	if !utf8.ValidString(c.S) {
		a.Hex = hexOf(c.S)
	}
	return json.Marshal(a)
}

func (c *reCase) UnmarshalJSON(b []byte) error {
	type plain reCase
	var a struct {
		plain
		Hex string `json:"s_hex"`
	}
	if err := json.Unmarshal(b, &a); err != nil {
		return err
	}
	*c = reCase(a.plain)
	if a.Hex != "" {
		raw, err := hex.DecodeString(a.Hex)
		if err != nil {
			return err
		}
		c.S = string(raw)
	}
	return nil
}

func (c reCase) flagsVal() any {
	if c.Flags == nil {
		return nil
	}
	return *c.Flags
}

func (c reCase) flagsStr() string {
	if c.Flags == nil {
		return ""
	}
	return *c.Flags
}

func (c reCase) flagsShow() string {
	if c.Flags == nil {
		return "null"
	}
	return jqStr(*c.Flags)
}

func (c reCase) global() bool { return strings.Contains(c.flagsStr(), "g") }

func (c reCase) key() string {
	return c.S + "\x00" + c.Re + "\x00" + c.flagsShow() + "\x00" + c.Form + fmt.Sprint(c.K, c.G)
}

// call renders name(RE; extra...; FLAGS) in the form of the case and returns
// the compiled query; re is the regex text to use (the gsub identity wraps it).
func (c reCase) call(name, re string, extra ...string) (*gojq.Code, []any, string) {
	var args []string
	lit := c.Form == "lit"
	if lit {
		args = append(args, jqStr(re))
	} else {
		args = append(args, "$re")
	}
	args = append(args, extra...)
	one := c.Flags == nil && (c.Form == "v1" || c.Form == "lit") && name != "split"
	if !one {
		if lit {
			args = append(args, c.flagsShow())
		} else {
			args = append(args, "$flags")
		}
	}
	src := "[" + name + "(" + strings.Join(args, "; ") + ")]"
	if lit {
		code := poolLit[src]
		if code == nil {
			var err error
			code, err = run.Compile(src, gojq.WithVariables(reVars))
			if err != nil {
				return nil, nil, fmt.Sprintf("query %s does not compile: %v", src, err)
			}
			if len(poolLit) >= 4096 {
				poolLit = map[string]*gojq.Code{}
			}
			poolLit[src] = code
		}
		return code, []any{nil, nil}, src
	}
	return reCode(src), []any{re, c.flagsVal()}, src
}

// ---------------------------------------------------------------------------
// matches as reported by gojq

type capT struct {
	Name   *string
	Offset int
	Length int
	Str    *string
}

type matchT struct {
	Offset int
	Length int
	Str    string
	Caps   []capT
}

func parseMatches(v any) ([]matchT, string) {
	arr, ok := v.([]any)
	if !ok {
		return nil, "match output is not collected into an array: " + univ.Show(v)
	}
	out := make([]matchT, 0, len(arr))
	for _, x := range arr {
		o, ok := x.(map[string]any)
		if !ok {
			return nil, "match output is not an object: " + univ.Show(x)
		}
		var m matchT
		if m.Offset, ok = o["offset"].(int); !ok {
			return nil, "match offset is not an integer: " + univ.Show(x)
		}
		if m.Length, ok = o["length"].(int); !ok {
			return nil, "match length is not an integer: " + univ.Show(x)
		}
		if m.Str, ok = o["string"].(string); !ok {
			return nil, "match string is not a string: " + univ.Show(x)
		}
		cs, ok := o["captures"].([]any)
		if !ok {
			return nil, "match captures is not an array: " + univ.Show(x)
		}
		for _, y := range cs {
			co, ok := y.(map[string]any)
			if !ok {
				return nil, "capture is not an object: " + univ.Show(x)
			}
			var cp capT
			if cp.Offset, ok = co["offset"].(int); !ok {
				return nil, "capture offset is not an integer: " + univ.Show(x)
			}
			if cp.Length, ok = co["length"].(int); !ok {
				return nil, "capture length is not an integer: " + univ.Show(x)
			}
			switch n := co["name"].(type) {
			case nil:
			case string:
				cp.Name = &n
			default:
				return nil, "capture name is neither string nor null: " + univ.Show(x)
			}
			switch s := co["string"].(type) {
			case nil:
			case string:
				cp.Str = &s
			default:
				return nil, "capture string is neither string nor null: " + univ.Show(x)
			}
			m.Caps = append(m.Caps, cp)
		}
		out = append(out, m)
	}
	return out, ""
}

// sliceLaw: slicing the subject by (offset, length) in code points returns
// the reported string, for the match and every participating capture.
func sliceLaw(s string, r []rune, m matchT) string {
	if m.Offset < 0 || m.Length < 0 || m.Offset+m.Length > len(r) {
		return fmt.Sprintf("match (offset %d, length %d) lies outside the %d code points of the subject", m.Offset, m.Length, len(r))
	}
	if got := cut(s, m.Offset, m.Offset+m.Length); got != m.Str {
		return fmt.Sprintf("subject sliced by (offset %d, length %d) is %q, reported string is %q", m.Offset, m.Length, got, m.Str)
	}
	for i, cp := range m.Caps {
		if cp.Str == nil {
			continue // did not participate: nothing to slice
		}
		if cp.Offset < 0 || cp.Length < 0 || cp.Offset+cp.Length > len(r) {
			return fmt.Sprintf("capture %d (offset %d, length %d) lies outside the %d code points of the subject", i, cp.Offset, cp.Length, len(r))
		}
		if got := cut(s, cp.Offset, cp.Offset+cp.Length); got != *cp.Str {
			return fmt.Sprintf("capture %d: subject sliced by (offset %d, length %d) is %q, reported string is %q", i, cp.Offset, cp.Length, got, *cp.Str)
		}
	}
	return ""
}

// orderLaw: global matches come in order, do not overlap and are distinct.
func orderLaw(ms []matchT) string {
	for k := 1; k < len(ms); k++ {
		p, m := ms[k-1], ms[k]
		if m.Offset < p.Offset+p.Length {
			return fmt.Sprintf("match %d (offset %d) starts before match %d ends (offset %d + length %d)", k, m.Offset, k-1, p.Offset, p.Length)
		}
		if m.Offset == p.Offset && m.Length == p.Length {
			return fmt.Sprintf("matches %d and %d are reported at the same position (offset %d, length %d)", k-1, k, m.Offset, m.Length)
		}
	}
	return ""
}

// ref holds gojq's own match output for a case: ms under the given flags, gs
// under flags + "g".  It is what the property relates the other builtins to.
type ref struct {
	r    []rune
	ms   []matchT
	gs   []matchT
	msV  any
	gsV  any
	err  error  // match reported an error
	bad  string // malformed / unusable match output, or non-termination
	skip bool
}

var (
	srcMatch = "[match($re; $flags)]"
)

func fetchRef(c reCase) *ref {
	rf := &ref{r: []rune(c.S)}
	g := c.flagsStr() + "g"
	for pass := 0; pass < 2; pass++ {
		fl := c.flagsVal()
		if pass == 1 {
			fl = g
		}
		o := execT(reCode(srcMatch), c.S, c.Re, fl)
		switch {
		case o.viol != "":
			rf.bad = "match: " + o.viol
			return rf
		case o.skip:
			rf.skip = true
			return rf
		case o.err != nil:
			rf.err = o.err
			return rf
		case len(o.vals) != 1:
			rf.bad = "[match] gave " + univ.ShowAll(o.vals)
			return rf
		}
		ms, bad := parseMatches(o.vals[0])
		if bad != "" {
			rf.bad = bad
			return rf
		}
		for _, m := range ms {
			if msg := sliceLaw(c.S, rf.r, m); msg != "" {
				rf.bad = "reference match list unusable: " + msg
				return rf
			}
		}
		if msg := orderLaw(ms); msg != "" {
			rf.bad = "reference match list unusable: " + msg
			return rf
		}
		if pass == 0 {
			rf.ms, rf.msV = ms, o.vals[0]
		} else {
			rf.gs, rf.gsV = ms, o.vals[0]
		}
	}
	return rf
}

// observe records classes and the non-trivial rule for a judged case.
func observe(part, law string, c reCase, rf *ref) bool {
	rec.Class("law/" + law)
	rec.Class("flags/" + part + "/" + c.flagsShow())
	rec.Class("form/" + part + "/" + c.Form)
	nt := false
	empty, mb, nullcap, named, ill := false, false, false, false, false
	for _, m := range rf.gs {
		if m.Length == 0 {
			empty = true
		}
		if multibyteBefore(c.S, m.Offset) {
			mb = true
		}
		if illFormedBefore(c.S, m.Offset+m.Length) {
			ill = true
		}
		for _, cp := range m.Caps {
			if cp.Str == nil {
				nullcap = true
			}
			if cp.Name != nil {
				named = true
			}
		}
	}
	switch {
	case len(rf.gs) == 0:
		rec.Class("shape/" + part + "/no-match")
	case len(rf.gs) == 1:
		rec.Class("shape/" + part + "/one-match")
	default:
		rec.Class("shape/" + part + "/many-matches")
	}
	if empty {
		rec.Class("shape/" + part + "/empty-match")
		nt = true
	}
	if mb {
		rec.Class("shape/" + part + "/multibyte-before-match")
		nt = true
	}
	if ill {
		rec.Class("shape/" + part + "/ill-formed-byte-before-match-end")
		nt = true
	}
	if !utf8.ValidString(c.S) {
		rec.Class("subject/" + part + "/ill-formed")
	}
	if nullcap {
		rec.Class("shape/" + part + "/capture-not-participating")
	}
	if named {
		rec.Class("shape/" + part + "/named-capture")
	}
	if nt {
		rec.NT(law + "\x00" + c.key())
	}
	return nt
}

// runLaw executes the builtin under test in the form of the case.  ok=false
// means: nothing more to judge (msg may carry a violation).
func runLaw(c reCase, name, re string, extra ...string) (vals []any, err error, msg string, ok bool) {
	code, vars, src := c.call(name, re, extra...)
	if code == nil {
		return nil, nil, src, false
	}
	o := execT(code, c.S, vars...)
	if o.viol != "" {
		return nil, nil, src + ": " + o.viol, false
	}
	if o.skip {
		rec.Discard("budget")
		return nil, nil, "", false
	}
	if o.err != nil {
		return nil, o.err, "", true
	}
	if len(o.vals) != 1 {
		return nil, nil, fmt.Sprintf("%s: collected into %s", src, univ.ShowAll(o.vals)), false
	}
	arr, isArr := o.vals[0].([]any)
	if !isArr {
		return nil, nil, fmt.Sprintf("%s: %s", src, univ.Show(o.vals[0])), false
	}
	return arr, nil, "", true
}

// refGate: common handling of the reference.  Returns (msg, proceed).
func refGate(law string, c reCase, rf *ref) (string, bool) {
	if rf.skip {
		rec.Discard("budget")
		return "", false
	}
	if rf.bad != "" {
		return rf.bad, false
	}
	return "", true
}

// agreeErr: when match itself rejects the call, the builtin must reject it too.
func agreeErr(name string, rf *ref, err error) (string, bool) {
	if rf.err != nil {
		if err == nil {
			return fmt.Sprintf("match fails (%v) but %s succeeds", rf.err, name), true
		}
		rec.Class("shape/error")
		return "", true
	}
	if err != nil {
		return fmt.Sprintf("match succeeds but %s fails: %v", name, err), true
	}
	return "", false
}

// --- law: match (positions, g versus first match)

func lawMatch(c reCase, rf *ref) string {
	if msg, ok := refGate("match", c, rf); !ok {
		return msg
	}
	vals, err, msg, ok := runLaw(c, "match", c.Re)
	if !ok {
		return msg
	}
	if m, done := agreeErr("match", rf, err); done {
		return m
	}
	ms, bad := parseMatches(vals)
	if bad != "" {
		return bad
	}
	for _, m := range ms {
		if msg := sliceLaw(c.S, rf.r, m); msg != "" {
			return msg
		}
	}
	if msg := orderLaw(ms); msg != "" {
		return msg
	}
	// the position of g among the flags does not matter
	if c.Flags != nil {
		o := execT(reCode(srcMatch), c.S, c.Re, "g"+*c.Flags)
		if o.viol != "" {
			return "match: " + o.viol
		}
		if !o.skip && (o.err != nil || len(o.vals) != 1 || !univ.Equal(o.vals[0], rf.gsV)) {
			return fmt.Sprintf("match with flags %q gives %s (error %v), with flags %q it gives %s", "g"+*c.Flags, univ.ShowAll(o.vals), o.err, *c.Flags+"g", univ.Show(rf.gsV))
		}
	}
	if c.global() {
		if !univ.Equal(vals, rf.gsV) {
			return fmt.Sprintf("match with flags %s gives %s, with one more g %s", c.flagsShow(), univ.Show(vals), univ.Show(rf.gsV))
		}
	} else {
		var want []any
		if gsA := rf.gsV.([]any); len(gsA) > 0 {
			want = gsA[:1]
		} else {
			want = []any{}
		}
		if !univ.Equal(vals, want) {
			return fmt.Sprintf("non-global match gives %s, the first global match is %s", univ.Show(vals), univ.Show(want))
		}
	}
	return ""
}

// --- law: test <=> a match exists

func lawTest(c reCase, rf *ref) string {
	if msg, ok := refGate("test", c, rf); !ok {
		return msg
	}
	vals, err, msg, ok := runLaw(c, "test", c.Re)
	if !ok {
		return msg
	}
	if m, done := agreeErr("test", rf, err); done {
		return m
	}
	if len(vals) != 1 {
		return "test gives " + univ.ShowAll(vals)
	}
	b, isB := vals[0].(bool)
	if !isB {
		return "test gives " + univ.Show(vals[0])
	}
	if b != (len(rf.ms) > 0) || b != (len(rf.gs) > 0) {
		return fmt.Sprintf("test gives %v, match finds %d match(es) (%d global)", b, len(rf.ms), len(rf.gs))
	}
	return ""
}

// --- law: scan = projection of the global matches

func lawScan(c reCase, rf *ref) string {
	if msg, ok := refGate("scan", c, rf); !ok {
		return msg
	}
	vals, err, msg, ok := runLaw(c, "scan", c.Re)
	if !ok {
		return msg
	}
	if m, done := agreeErr("scan", rf, err); done {
		return m
	}
	want := make([]any, 0, len(rf.gs))
	for _, m := range rf.gs {
		if len(m.Caps) == 0 {
			want = append(want, m.Str)
			continue
		}
		cs := make([]any, len(m.Caps))
		for i, cp := range m.Caps {
			if cp.Str != nil {
				cs[i] = *cp.Str
			}
		}
		want = append(want, cs)
	}
	if !univ.Equal(vals, want) {
		return fmt.Sprintf("scan gives %s, the global matches project to %s", univ.Show(vals), univ.Show(want))
	}
	return ""
}

// --- law: capture = object of the named groups of each match

func lawCapture(c reCase, rf *ref) string {
	if msg, ok := refGate("capture", c, rf); !ok {
		return msg
	}
	vals, err, msg, ok := runLaw(c, "capture", c.Re)
	if !ok {
		return msg
	}
	if m, done := agreeErr("capture", rf, err); done {
		return m
	}
	want := make([]any, 0, len(rf.ms))
	for _, m := range rf.ms {
		o := map[string]any{}
		for _, cp := range m.Caps {
			if cp.Name != nil {
				if cp.Str != nil {
					o[*cp.Name] = *cp.Str
				} else {
					o[*cp.Name] = nil
				}
			}
		}
		want = append(want, o)
	}
	if !univ.Equal(vals, want) {
		return fmt.Sprintf("capture gives %s, the named groups of match are %s", univ.Show(vals), univ.Show(want))
	}
	return ""
}

// --- law: sub / gsub = replace the first / every match

var subTemplates = []struct {
	src string
	fn  func(m matchT) string
}{
	{`"X"`, func(matchT) string { return "X" }},
	{`""`, func(matchT) string { return "" }},
	{`"é😀"`, func(matchT) string { return "é\U0001F600" }},
	{`"[\(.n1)|\(.n2 // "~")]"`, func(m matchT) string {
		n1, n2 := "null", "~"
		for _, cp := range m.Caps {
			if cp.Name != nil && cp.Str != nil {
				switch *cp.Name {
				case "n1":
					n1 = *cp.Str
				case "n2":
					n2 = *cp.Str
				}
			}
		}
		return "[" + n1 + "|" + n2 + "]"
	}},
}

func replaceModel(s string, ms []matchT, fn func(matchT) string) string {
	n := len([]rune(s))
	var sb strings.Builder
	next := 0
	for _, m := range ms {
		sb.WriteString(cut(s, next, m.Offset))
		sb.WriteString(fn(m))
		next = m.Offset + m.Length
	}
	sb.WriteString(cut(s, next, n))
	return sb.String()
}

func lawSub(c reCase, rf *ref) string {
	if msg, ok := refGate("sub", c, rf); !ok {
		return msg
	}
	if c.K < 0 || c.K >= len(subTemplates) {
		return "bad case"
	}
	tpl := subTemplates[c.K]
	name, list := "sub", rf.ms
	if c.G {
		name, list = "gsub", rf.gs
	}
	vals, err, msg, ok := runLaw(c, name, c.Re, tpl.src)
	if !ok {
		return msg
	}
	if m, done := agreeErr(name, rf, err); done {
		return m
	}
	want := replaceModel(c.S, list, tpl.fn)
	if len(vals) != 1 {
		return fmt.Sprintf("%s with %s gives %s, replacing the %d match(es) gives %q", name, tpl.src, univ.ShowAll(vals), len(list), want)
	}
	if got, isS := vals[0].(string); !isS || got != want {
		return fmt.Sprintf("%s with %s gives %s, replacing the %d match(es) gives %q", name, tpl.src, univ.Show(vals[0]), len(list), want)
	}
	return ""
}

// --- law: replacing every match by itself returns the subject

func lawGsubID(c reCase, rf *ref) string {
	if msg, ok := refGate("gsubid", c, rf); !ok {
		return msg
	}
	if rf.err != nil {
		rec.Class("shape/error")
		return ""
	}
	wrapped := "(?<all>" + c.Re + ")"
	if _, err := regexp.Compile(translate(wrapped, c.flagsStr())); err != nil {
		rec.Discard("wrapped-regex-rejected")
		return ""
	}
	name := "sub"
	if c.G {
		name = "gsub"
	}
	vals, err, msg, ok := runLaw(c, name, wrapped, ".all")
	if !ok {
		return msg
	}
	if err != nil {
		return fmt.Sprintf("%s(%q; .all) fails: %v", name, wrapped, err)
	}
	if len(vals) != 1 {
		return fmt.Sprintf("%s(%q; .all) gives %s, the subject is %q", name, wrapped, univ.ShowAll(vals), c.S)
	}
	if got, isS := vals[0].(string); !isS || got != c.S {
		return fmt.Sprintf("%s(%q; .all) gives %s, the subject is %q", name, wrapped, univ.Show(vals[0]), c.S)
	}
	return ""
}

// --- law: the pieces of splits interleaved with the matches rebuild the subject

func piecesModel(s string, gs []matchT) []any {
	n := len([]rune(s))
	out := make([]any, 0, len(gs)+1)
	next := 0
	for _, m := range gs {
		out = append(out, cut(s, next, m.Offset))
		next = m.Offset + m.Length
	}
	return append(out, cut(s, next, n))
}

func checkPieces(name string, c reCase, rf *ref, vals []any) string {
	if len(vals) != len(rf.gs)+1 {
		return fmt.Sprintf("%s gives %d piece(s) %s for %d global match(es)", name, len(vals), univ.Show(vals), len(rf.gs))
	}
	var sb strings.Builder
	for i, p := range vals {
		s, isS := p.(string)
		if !isS {
			return fmt.Sprintf("%s gives a non-string piece: %s", name, univ.Show(vals))
		}
		sb.WriteString(s)
		if i < len(rf.gs) {
			sb.WriteString(rf.gs[i].Str)
		}
	}
	if sb.String() != c.S {
		return fmt.Sprintf("pieces %s interleaved with the matches rebuild %q, not the subject %q", univ.Show(vals), sb.String(), c.S)
	}
	if want := piecesModel(c.S, rf.gs); !univ.Equal(vals, want) {
		return fmt.Sprintf("%s gives %s, the stretches between the global matches are %s", name, univ.Show(vals), univ.Show(want))
	}
	return ""
}

func lawSplits(c reCase, rf *ref) string {
	if msg, ok := refGate("splits", c, rf); !ok {
		return msg
	}
	vals, err, msg, ok := runLaw(c, "splits", c.Re)
	if !ok {
		return msg
	}
	if m, done := agreeErr("splits", rf, err); done {
		return m
	}
	return checkPieces("splits", c, rf, vals)
}

func lawSplit2(c reCase, rf *ref) string {
	if msg, ok := refGate("split2", c, rf); !ok {
		return msg
	}
	vals, err, msg, ok := runLaw(c, "split", c.Re)
	if !ok {
		return msg
	}
	if m, done := agreeErr("split/2", rf, err); done {
		return m
	}
	if len(vals) != 1 {
		return "split/2 gives " + univ.ShowAll(vals)
	}
	arr, isArr := vals[0].([]any)
	if !isArr {
		return "split/2 gives " + univ.Show(vals[0])
	}
	return checkPieces("split/2", c, rf, arr)
}

// --- law: engine (Go regexp as the reference for the set of matches)

// translate mirrors func.go compileRegexp.
func translate(re, flags string) string {
	if strings.ContainsRune(flags, 'i') {
		re = "(?i)" + re
	}
	if strings.ContainsRune(flags, 'm') {
		re = "(?s)" + re
	}
	return re
}

func lawEngine(c reCase, rf *ref) string {
	if msg, ok := refGate("engine", c, rf); !ok {
		return msg
	}
	rx, err := regexp.Compile(translate(c.Re, c.flagsStr()))
	if err != nil {
		return "bad case: " + err.Error()
	}
	if rf.err != nil {
		return fmt.Sprintf("match rejects a regex that Go's regexp accepts: %v", rf.err)
	}
	names := rx.SubexpNames()
	model := func(n int) []any {
		out := []any{}
		for _, x := range rx.FindAllStringSubmatchIndex(c.S, n) {
			caps := []any{}
			for j := 1; j < len(x)/2; j++ {
				var name any
				if names[j] != "" {
					name = names[j]
				}
				if x[2*j] < 0 {
					caps = append(caps, map[string]any{"name": name, "offset": -1, "length": 0, "string": nil})
					continue
				}
				caps = append(caps, map[string]any{"name": name,
					"offset": utf8.RuneCountInString(c.S[:x[2*j]]),
					"length": utf8.RuneCountInString(c.S[x[2*j]:x[2*j+1]]),
					"string": c.S[x[2*j]:x[2*j+1]]})
			}
			out = append(out, map[string]any{
				"offset":   utf8.RuneCountInString(c.S[:x[0]]),
				"length":   utf8.RuneCountInString(c.S[x[0]:x[1]]),
				"string":   c.S[x[0]:x[1]],
				"captures": caps})
		}
		return out
	}
	n := 1
	if c.global() {
		n = -1
	}
	if want := model(n); !univ.Equal(rf.msV, want) {
		return fmt.Sprintf("match gives %s, Go's regexp with code-point offsets gives %s", univ.Show(rf.msV), univ.Show(want))
	}
	if want := model(-1); !univ.Equal(rf.gsV, want) {
		return fmt.Sprintf("global match gives %s, Go's regexp with code-point offsets gives %s", univ.Show(rf.gsV), univ.Show(want))
	}
	return ""
}

type lawT struct {
	name string
	fn   func(reCase, *ref) string
}

var laws = []lawT{
	{"match", lawMatch},
	{"engine", lawEngine},
	{"test", lawTest},
	{"scan", lawScan},
	{"capture", lawCapture},
	{"sub", lawSub},
	{"gsubid", lawGsubID},
	{"splits", lawSplits},
	{"split2", lawSplit2},
}

func lawByName(n string) *lawT {
	for i := range laws {
		if laws[i].name == n {
			return &laws[i]
		}
	}
	return nil
}

// judge runs one law on one case; "" means the property held.
func (l *lawT) judge(c reCase, rf *ref) string {
	msg := l.fn(c, rf)
	if msg == "" {
		return ""
	}
	return fmt.Sprintf("subject %q, regex %q, flags %s, form %s: %s", c.S, c.Re, c.flagsShow(), c.Form, msg)
}

func validCase(c reCase) string {
	switch c.Form {
	case "v2", "lit":
	case "v1":
		if c.Flags != nil {
			return "bad case: form v1 needs null flags"
		}
	default:
		return "bad case: form"
	}
	if !utf8.ValidString(c.Re) {
		return "bad case: regex is not valid UTF-8"
	}
	for _, f := range c.flagsStr() {
		if f != 'g' && f != 'i' && f != 'm' {
			return "bad case: unsupported flag"
		}
	}
	if _, err := regexp.Compile(translate(c.Re, c.flagsStr())); err != nil {
		return "bad case: " + err.Error()
	}
	return ""
}

// ---------------------------------------------------------------------------
// code-point cases (no regex)

type cpCase struct {
	S   string `json:"s"`
	I   *int   `json:"i"` // nil: absent / null
	J   *int   `json:"j"`
	T   string `json:"t,omitempty"` // needle
	Lit bool   `json:"lit,omitempty"`
}

func (c cpCase) MarshalJSON() ([]byte, error) {
	type plain cpCase
	a := struct {
		plain
		Hex  string `json:"s_hex,omitempty"`
		THex string `json:"t_hex,omitempty"`
	}{plain: plain(c)}
	if !utf8.ValidString(c.S) {
		a.Hex = hexOf(c.S)
	}
	if !utf8.ValidString(c.T) {
		a.THex = hexOf(c.T)
	}
	return json.Marshal(a)
}

func (c *cpCase) UnmarshalJSON(b []byte) error {
	type plain cpCase
	var a struct {
		plain
		Hex  string `json:"s_hex"`
		THex string `json:"t_hex"`
	}
	if err := json.Unmarshal(b, &a); err != nil {
		return err
	}
	*c = cpCase(a.plain)
	for _, f := range []struct {
		h   string
		dst *string
	}{{a.Hex, &c.S}, {a.THex, &c.T}} {
		if f.h != "" {
			raw, err := hex.DecodeString(f.h)
			if err != nil {
				return err
			}
			*f.dst = string(raw)
		}
	}
	return nil
}

func optInt(p *int) any {
	if p == nil {
		return nil
	}
	return *p
}

func showOpt(p *int) string {
	if p == nil {
		return ""
	}
	return fmt.Sprint(*p)
}

func cpRun(src string, lit bool, c cpCase) (v any, msg string) {
	defer func() {
		if p := recover(); p != nil {
			v, msg = nil, fmt.Sprintf("%s on %q (i=%s j=%s t=%q) panics: %v", src, c.S, showOpt(c.I), showOpt(c.J), c.T, p)
		}
	}()
	var code *gojq.Code
	if lit {
		// literal queries do not depend on the subject: keep a bounded cache
		if code = poolLit[src]; code == nil {
			var err error
			code, err = run.Compile(src, gojq.WithVariables(cpVars))
			if err != nil {
				return nil, fmt.Sprintf("query %s does not compile: %v", src, err)
			}
			if len(poolLit) >= 4096 {
				poolLit = map[string]*gojq.Code{}
			}
			poolLit[src] = code
		}
	} else {
		code = cpCode(src)
	}
	res := run.Exec(code, c.S, stepBudget, outBudget, optInt(c.I), optInt(c.J), c.T)
	if res.Panic != "" {
		return nil, fmt.Sprintf("%s on %q (i=%s j=%s t=%q): %s", src, c.S, showOpt(c.I), showOpt(c.J), c.T, firstLine(res.Panic))
	}
	if res.Budget {
		return nil, src + ": does not terminate within the step budget"
	}
	if res.Err != nil {
		return nil, fmt.Sprintf("%s on %q fails: %v", src, c.S, res.Err)
	}
	if len(res.Vals) != 1 {
		return nil, fmt.Sprintf("%s on %q gives %s", src, c.S, univ.ShowAll(res.Vals))
	}
	return res.Vals[0], ""
}

var srcLength = "[length, (explode|length), explode, (explode|implode)]"

func checkLength(c cpCase) string {
	r := []rune(c.S)
	got, msg := cpRun(srcLength, false, c)
	if msg != "" {
		return msg
	}
	cps := make([]any, len(r))
	for i, x := range r {
		cps[i] = int(x)
	}
	// implode re-encodes: every ill-formed byte has become U+FFFD
	want := []any{utf8.RuneCountInString(c.S), len(r), cps, string(r)}
	if !univ.Equal(got, want) {
		return fmt.Sprintf("%s on %q gives %s, the code-point model gives %s", srcLength, c.S, univ.Show(got), univ.Show(want))
	}
	return ""
}

func sliceBounds(n int, I, J *int) (int, int) {
	start, end := 0, n
	if I != nil {
		start = *I
		if start < 0 {
			start += n
		}
		if start < 0 {
			start = 0
		}
		if start > n {
			start = n
		}
	}
	if J != nil {
		end = *J
		if end < 0 {
			end += n
		}
		if end < start {
			end = start
		}
		if end > n {
			end = n
		}
	}
	return start, end
}

func checkSlice(c cpCase) string {
	r := []rune(c.S)
	var src string
	switch {
	case c.Lit:
		src = ".[" + showOpt(c.I) + ":" + showOpt(c.J) + "]"
		if c.I == nil && c.J == nil {
			src = ".[null:null]"
		}
	case c.I == nil && c.J != nil && *c.J%2 == 0:
		src = ".[:$j]"
	case c.J == nil && c.I != nil && *c.I%2 == 0:
		src = ".[$i:]"
	default:
		src = ".[$i:$j]"
	}
	got, msg := cpRun(src, c.Lit, c)
	if msg != "" {
		return msg
	}
	a, b := sliceBounds(len(r), c.I, c.J)
	want := cut(c.S, a, b)
	if s, ok := got.(string); !ok || s != want {
		return fmt.Sprintf("%s on %q (i=%s j=%s) gives %s, code points [%d:%d] are %q", src, c.S, showOpt(c.I), showOpt(c.J), univ.Show(got), a, b, want)
	}
	return ""
}

func checkIndex(c cpCase) string {
	if c.I == nil {
		return "bad case"
	}
	r := []rune(c.S)
	src := ".[$i]"
	if c.Lit {
		src = ".[" + fmt.Sprint(*c.I) + "]"
	}
	got, msg := cpRun(src, c.Lit, c)
	if msg != "" {
		return msg
	}
	i := *c.I
	if i < 0 {
		i += len(r)
	}
	var want any
	if 0 <= i && i < len(r) {
		want = string(r[i])
	}
	if gs, ok := got.(string); ok && want != nil && !utf8.ValidString(c.S) {
		// the code point of an ill-formed byte is U+FFFD: judge on the
		// code-point level (the byte itself would explode to the same)
		got = string([]rune(gs))
	}
	if !univ.Equal(got, want) {
		return fmt.Sprintf("%s on %q gives %s, code point %d is %s", src, c.S, univ.Show(got), *c.I, univ.Show(want))
	}
	return ""
}

func findModel(r, t []rune) []int {
	var out []int
	for p := 0; p+len(t) <= len(r); p++ {
		eq := true
		for k := range t {
			if r[p+k] != t[k] {
				eq = false
				break
			}
		}
		if eq {
			out = append(out, p)
		}
	}
	return out
}

func checkFind(c cpCase) string {
	if c.T == "" {
		return "bad case"
	}
	src := "[index($t), rindex($t), indices($t)]"
	if c.Lit {
		t := jqStr(c.T)
		src = "[index(" + t + "), rindex(" + t + "), indices(" + t + ")]"
	}
	got, msg := cpRun(src, c.Lit, c)
	if msg != "" {
		return msg
	}
	pos := findModel([]rune(c.S), []rune(c.T))
	all := make([]any, len(pos))
	for i, p := range pos {
		all[i] = p
	}
	var first, last any
	if len(pos) > 0 {
		first, last = pos[0], pos[len(pos)-1]
	}
	want := []any{first, last, all}
	if !univ.Equal(got, want) {
		return fmt.Sprintf("%s on %q with needle %q gives %s, the code-point positions are %s", src, c.S, c.T, univ.Show(got), univ.Show(want))
	}
	return ""
}

func ntSlice(c cpCase) bool {
	r := []rune(c.S)
	a, b := sliceBounds(len(r), c.I, c.J)
	return (multibyteBefore(c.S, b) || illFormedBefore(c.S, b)) && (a > 0 || b < len(r))
}

func ntIndex(c cpCase) bool {
	r := []rune(c.S)
	i := *c.I
	if i < 0 {
		i += len(r)
	}
	return i >= 0 && i < len(r) && (multibyteBefore(c.S, i) || illFormedBefore(c.S, i+1))
}

func ntFind(c cpCase) bool {
	r := []rune(c.S)
	pos := findModel(r, []rune(c.T))
	return len(pos) > 0 && (multibyteBefore(c.S, pos[len(pos)-1]) || illFormedBefore(c.S, pos[len(pos)-1]))
}

// ---------------------------------------------------------------------------
// generators

func genSubject(alpha []string, max int, bad bool) *rapid.Generator[string] {
	return rapid.Custom(func(t *rapid.T) string {
		n := rapid.SampledFrom([]int{0, 1, 2, 3, 5, 5, 8, 8, 12, 12, 20, max}).Draw(t, "maxlen")
		n = rapid.IntRange(0, n).Draw(t, "len")
		var sb strings.Builder
		// a small working set makes repeats (and therefore matches) likely
		k := rapid.IntRange(1, 6).Draw(t, "k")
		set := make([]string, k)
		var wide []string
		for _, a := range alpha {
			if len(a) > 1 {
				wide = append(wide, a)
			}
		}
		for i := range set {
			if rapid.Bool().Draw(t, "wide") {
				set[i] = rapid.SampledFrom(wide).Draw(t, "wideletter")
			} else {
				set[i] = rapid.SampledFrom(alpha).Draw(t, "letter")
			}
		}
		if bad && rapid.IntRange(0, 2).Draw(t, "illformed") == 0 {
			// ill-formed bytes among the working letters: they land at the
			// start, in the middle and at the end of subjects
			set[rapid.IntRange(0, k-1).Draw(t, "badslot")] = rapid.SampledFrom(badPieces).Draw(t, "badpiece")
			for i := range set {
				if rapid.IntRange(0, 3).Draw(t, "morebad") == 0 {
					set[i] = rapid.SampledFrom(badPieces).Draw(t, "badpiece")
				}
			}
		}
		for i := 0; i < n; i++ {
			sb.WriteString(set[rapid.IntRange(0, k-1).Draw(t, "pick")])
		}
		return sb.String()
	})
}

var flagChoices = []string{"", "g", "g", "g", "i", "m", "gi", "ig", "gm", "im", "gim", "gg", "mig", "ii"}

func genFlags(t *rapid.T) *string {
	if rapid.IntRange(0, 3).Draw(t, "nullflags") == 0 {
		return nil
	}
	f := rapid.SampledFrom(flagChoices).Draw(t, "flags")
	return &f
}

func genForm(t *rapid.T, flags *string) string {
	switch rapid.IntRange(0, 9).Draw(t, "form") {
	case 0, 1:
		return "lit"
	case 2, 3, 4:
		if flags == nil {
			return "v1"
		}
	}
	return "v2"
}

// regex grammar -------------------------------------------------------------

type reGen struct {
	t     *rapid.T
	pool  []rune // letters of the subject first
	names int
	feat  map[string]bool
}

func (g *reGen) letter() rune {
	return rapid.SampledFrom(g.pool).Draw(g.t, "reletter")
}

func classChar(r rune) string {
	switch {
	case r == '\n':
		return `\n`
	case r == '\t':
		return `\t`
	case r < utf8.RuneSelf && !(r >= 'a' && r <= 'z' || r >= 'A' && r <= 'Z' || r >= '0' && r <= '9' || r == ' ' || r == '_'):
		return `\` + string(r)
	}
	return string(r)
}

var fixedAtoms = []string{`.`, `.`, `\w`, `\W`, `\s`, `\S`, `\d`, `\pL`, `\PL`, `\pM`, `\p{Hiragana}`, `[[:alpha:]]`, `[^\n]`,
	`\x{301}`, `\x{1F600}`, `\x{e9}`, `[a-z]`, `[\x{80}-\x{10FFFF}]`, `[^a-z]`, `[\x{3040}-\x{309f}]`, `\n`, `(?s:.)`, `(?i:k)`, `(?i:s)`}
var anchors = []string{`^`, `$`, `\b`, `\B`, `\A`, `\z`, `(?m:^)`, `(?m:$)`, `^`, `$`, `\b`}
var quants = []string{`*`, `+`, `?`, `*?`, `+?`, `??`, `{0,2}`, `{2}`, `{1,}`, `{0}`, `{1,2}?`, `*`, `?`}

// atom returns something a quantifier may follow.
func (g *reGen) atom(d int) string {
	k := rapid.IntRange(0, 19).Draw(g.t, "atom")
	switch {
	case k < 7:
		g.feat["literal"] = true
		return regexp.QuoteMeta(string(g.letter()))
	case k < 9:
		g.feat["class"] = true
		return rapid.SampledFrom(fixedAtoms).Draw(g.t, "fixed")
	case k < 11:
		g.feat["class"] = true
		a, b := g.letter(), g.letter()
		switch rapid.IntRange(0, 3).Draw(g.t, "classkind") {
		case 0:
			return "[" + classChar(a) + classChar(b) + "]"
		case 1:
			return "[^" + classChar(a) + "]"
		case 2:
			if a > b {
				a, b = b, a
			}
			return "[" + classChar(a) + "-" + classChar(b) + "]"
		default:
			return "[^" + classChar(a) + classChar(b) + `\n]`
		}
	case k < 13:
		g.feat["anchor"] = true
		return rapid.SampledFrom(anchors).Draw(g.t, "anchor")
	case k < 14:
		g.feat["empty-group"] = true
		return rapid.SampledFrom([]string{"()", "(?:)", "(|)"}).Draw(g.t, "emptygroup")
	}
	if d <= 0 {
		g.feat["literal"] = true
		return regexp.QuoteMeta(string(g.letter()))
	}
	inner := g.alt(d - 1)
	switch rapid.IntRange(0, 6).Draw(g.t, "group") {
	case 0, 1:
		g.feat["group"] = true
		return "(" + inner + ")"
	case 2:
		return "(?:" + inner + ")"
	case 3:
		g.feat["inline-flag"] = true
		return "(?" + rapid.SampledFrom([]string{"i", "s", "m", "U", "-s", "is"}).Draw(g.t, "gflag") + ":" + inner + ")"
	default:
		if g.names >= 3 {
			g.feat["group"] = true
			return "(" + inner + ")"
		}
		g.names++
		g.feat["named"] = true
		if rapid.Bool().Draw(g.t, "pname") {
			return fmt.Sprintf("(?P<n%d>%s)", g.names, inner)
		}
		return fmt.Sprintf("(?<n%d>%s)", g.names, inner)
	}
}

func (g *reGen) item(d int) string {
	a := g.atom(d)
	if rapid.IntRange(0, 2).Draw(g.t, "quantified") == 0 {
		g.feat["quantifier"] = true
		return a + rapid.SampledFrom(quants).Draw(g.t, "quant")
	}
	return a
}

func (g *reGen) concat(d int) string {
	n := rapid.SampledFrom([]int{1, 2, 1, 0, 1, 2, 3, 4}).Draw(g.t, "items")
	var sb strings.Builder
	for i := 0; i < n; i++ {
		sb.WriteString(g.item(d))
	}
	return sb.String()
}

func (g *reGen) alt(d int) string {
	n := rapid.SampledFrom([]int{1, 1, 1, 1, 2, 2, 3}).Draw(g.t, "alts")
	parts := make([]string, n)
	for i := range parts {
		parts[i] = g.concat(d)
	}
	if n > 1 {
		g.feat["alternation"] = true
	}
	return strings.Join(parts, "|")
}

var handRegexes = []string{
	"", "a", "b*", "a*", "a*?", "(a|b)*", "é", "[^a]", ".", ".*", "^", "$", `\b`, `\B`,
	"(?<n1>a)|(?<n2>é)", "(a)?", "a??", "(?<n1>.)(?<n2>.)?", `\x{301}`, `\s`, `\S+`, "(?m:^)", "(?m:$)",
	"あ|\U0001F600", "[あ-ん]?", ".{2}", "(?:)|a", "a|", `\pM*`, "(?i)A", "b+?", "()", "(?<n1>)", "\n",
	"^.", ".$", `\A|\z`, "[ab]+", "(?<n1>a+)(?<n2>b*)", "(a)|b", "(?<n1>\U0001F600)?(?<n2>b)?", `[^\n]*`, ".?", "(.)(.)?", ` *`, "(?s).",
	`\x{fffd}`, `(?<n1>\x{fffd}+)|(?<n2>a)`,
	// anchors on both sides of literals, alternations and classes (subjects
	// that contain the literal without being equal to it must not match)
	"^a$", `\Aab\z`, `^\x{e9}\z`, `\Aa$`, "^$", "^(?:a|\u00e9)$", "^[ab]+$", `\ba\b`, `\Bb\B`, "(?m)^a$", "^(?<n1>a)(?<n2>b)?$",
}

// genRegex draws a regex Go's regexp accepts; the letters of the subject are
// preferred for literals so that matches are frequent.
func genRegex(t *rapid.T, subject string) (string, map[string]bool) {
	g := &reGen{t: t, feat: map[string]bool{}}
	for _, r := range subject {
		g.pool = append(g.pool, r)
	}
	for len(g.pool) < 4 {
		g.pool = append(g.pool, []rune(rapid.SampledFrom(rndAlphabet).Draw(t, "poolletter"))...)
	}
	g.pool = append(g.pool, []rune(rapid.SampledFrom(rndAlphabet).Draw(t, "poolextra"))...)
	var re string
	switch k := rapid.IntRange(0, 19).Draw(t, "rekind"); {
	case k == 19:
		re = ""
	case k >= 17:
		re = rapid.SampledFrom(handRegexes).Draw(t, "hand")
		if _, err := regexp.Compile(re); err != nil {
			re = ""
		}
	default:
		re = g.alt(2)
		if rapid.IntRange(0, 9).Draw(t, "prefix") == 0 {
			g.feat["inline-flag"] = true
			re = rapid.SampledFrom([]string{"(?i)", "(?s)", "(?m)", "(?U)", "(?is)"}).Draw(t, "inline") + re
		}
	}
	if re == "" {
		g.feat["empty-regex"] = true
	}
	return re, g.feat
}

var leftAnchors = []string{"^", `\A`, "^", `\b`, `\B`, "(?m:^)", "", "(?m)^", `^\b`, `\A^`}
var rightAnchors = []string{"$", `\z`, "$", `\b`, `\B`, "(?m:$)", "", `\b$`, `$\z`}

// genAnchored draws an anchored regex around a literal core (plain, in a
// group, in an alternation, as a class) together with a subject that is the
// literal, contains it at the start / in the middle / at the end / twice /
// on a line of its own, does not contain it, or is empty.
func genAnchored(t *rapid.T) (string, string, map[string]bool) {
	feat := map[string]bool{"anchored-core": true}
	word := func(label string, min, max int) string {
		n := rapid.IntRange(min, max).Draw(t, label+"len")
		var sb strings.Builder
		for i := 0; i < n; i++ {
			sb.WriteString(rapid.SampledFrom(rndAlphabet).Draw(t, label))
		}
		return sb.String()
	}
	lit := word("core", 1, 3)
	other := word("other", 1, 2)
	q := regexp.QuoteMeta
	var core string
	switch rapid.IntRange(0, 9).Draw(t, "corekind") {
	case 0, 1, 2, 3:
		core = q(lit)
		feat["anchored-literal"] = true
	case 4:
		core = "(" + q(lit) + ")"
	case 5:
		core = "(?<n1>" + q(lit) + ")"
		feat["named"] = true
	case 6:
		core = "(?:" + q(lit) + "|" + q(other) + ")"
		feat["alternation"] = true
	case 7:
		core = q(lit) + "|" + q(other) // the anchors bind to one branch each
		feat["alternation"] = true
	case 8:
		var sb strings.Builder
		for _, r := range lit {
			sb.WriteString(classChar(r))
		}
		core = "[" + sb.String() + "]" + rapid.SampledFrom([]string{"", "+", "*", "{1,3}"}).Draw(t, "classrep")
		feat["class"] = true
	default:
		core = q(lit) + "(?:" + q(other) + ")?"
		feat["quantifier"] = true
	}
	left := rapid.SampledFrom(leftAnchors).Draw(t, "left")
	right := rapid.SampledFrom(rightAnchors).Draw(t, "right")
	if left != "" && right != "" {
		feat["anchored-both-sides"] = true
	}
	re := left + core + right
	x, y := word("x", 1, 3), word("y", 1, 3)
	if rapid.IntRange(0, 3).Draw(t, "xfromcore") == 0 {
		x = string([]rune(lit)[:1])
	}
	var subject string
	shape := rapid.IntRange(0, 11).Draw(t, "shape")
	switch shape {
	case 0:
		subject = lit
	case 1:
		subject = x + lit
	case 2:
		subject = lit + x
	case 3:
		subject = x + lit + y
	case 4:
		subject = lit + lit
	case 5:
		subject = lit + x + lit
	case 6:
		subject = ""
	case 7:
		subject = x
	case 8:
		subject = lit + "\n" + x
	case 9:
		subject = x + "\n" + lit
	case 10:
		subject = x + "\n" + lit + "\n" + y
	default:
		subject = x + " " + lit + " " + y
	}
	feat[fmt.Sprintf("anchored-subject-shape-%02d", shape)] = true
	if subject != lit && strings.Contains(subject, lit) {
		feat["anchored-subject-contains-core"] = true
	}
	return subject, re, feat
}

func genReCase(t *rapid.T) (reCase, map[string]bool) {
	if rapid.IntRange(0, 4).Draw(t, "anchoredmode") == 0 {
		s, re, feat := genAnchored(t)
		fl := genFlags(t)
		return reCase{S: s, Re: re, Flags: fl, Form: genForm(t, fl)}, feat
	}
	s := genSubject(rndAlphabet, 30, true).Draw(t, "subject")
	re, feat := genRegex(t, s)
	fl := genFlags(t)
	c := reCase{S: s, Re: re, Flags: fl, Form: genForm(t, fl)}
	return c, feat
}

func genIdx(t *rapid.T, n int, label string) int {
	if rapid.IntRange(0, 19).Draw(t, label+"huge") == 0 {
		return rapid.SampledFrom([]int{1 << 40, -(1 << 40), 1<<63 - 1, -1 << 63, 1 << 31, -(1 << 31), 1 << 32, 255, 256, -256}).Draw(t, label+"hugeval")
	}
	return rapid.IntRange(-n-3, n+3).Draw(t, label)
}

// ---------------------------------------------------------------------------

func replayCase(sub string, raw json.RawMessage) string {
	switch sub {
	case "pairs":
		return replayPairs(raw)
	case "length", "slice", "index", "find":
		var c cpCase
		if err := json.Unmarshal(raw, &c); err != nil {
			return "bad replay: " + err.Error()
		}
		switch sub {
		case "length":
			return checkLength(c)
		case "slice":
			return checkSlice(c)
		case "index":
			return checkIndex(c)
		default:
			return checkFind(c)
		}
	}
	if l := lawByName(sub); l != nil {
		var c reCase
		if err := json.Unmarshal(raw, &c); err != nil {
			return "bad replay: " + err.Error()
		}
		if msg := validCase(c); msg != "" {
			return msg
		}
		return l.judge(c, fetchRef(c))
	}
	return "unknown sub " + sub
}

func subjectsUpTo(alpha []string, n int) []string {
	out := []string{""}
	level := []string{""}
	for l := 1; l <= n; l++ {
		var next []string
		for _, p := range level {
			for _, a := range alpha {
				next = append(next, p+a)
			}
		}
		out = append(out, next...)
		level = next
	}
	return out
}

func ip(i int) *int { return &i }

func TestC14(t *testing.T) {
	rec = evid.Open("C14")
	defer rec.Close()
	rec.Replays(replayCase)
	if rec.ReplayPath() != "" {
		return
	}

	direct := map[string]int{}
	report := func(sub string, c any, msg string) {
		direct[sub]++
		if direct[sub] <= 5 {
			rec.Direct(sub, c, "%s", msg)
		}
	}

	subjects := subjectsUpTo(exhAlphabet, 4)

	// (E1) code-point laws, exhaustively: every subject up to 4 letters,
	// every index in -6..6 (and absent), every needle of 1..2 letters.
	idxs := []*int{nil}
	for i := -6; i <= 6; i++ {
		idxs = append(idxs, ip(i))
	}
	needles := subjectsUpTo(exhAlphabet, 2)[1:]

	// the ill-formed scope: every subject of up to 3 pieces over
	// badExhAlphabet that is not valid UTF-8 (up to 9 code points)
	var badSubjects []string
	for _, s := range subjectsUpTo(badExhAlphabet, 3) {
		if !utf8.ValidString(s) {
			badSubjects = append(badSubjects, s)
		}
	}
	badIdxs := []*int{nil}
	for i := -10; i <= 10; i++ {
		badIdxs = append(badIdxs, ip(i))
	}
	badNeedles := append(subjectsUpTo(badExhAlphabet, 1)[1:], "\ufffd", "a\x80", "\x80a", "\xc3\x80", "\xb0\xb0", "\xe3\x81\x80", "\xff\u00e9", "\xed\xa0", "\xa0\x80")

	cpExhaustive := func(subjects []string, idxs []*int, needles []string) {
		for n, s := range subjects {
			if !rec.Mine(n) {
				continue
			}
			mb := multibyteBefore(s, len(s)) || !utf8.ValidString(s)
			c := cpCase{S: s}
			rec.Eval()
			if mb {
				rec.NT("length\x00" + s)
			}
			if msg := checkLength(c); msg != "" {
				report("length", c, msg)
			}
			// both syntactic forms (indices as variables / as literals in the
			// query text) in thorough, alternating in quick
			k := n
			forms := func() []bool {
				k++
				if rec.Thorough() {
					return []bool{false, true}
				}
				return []bool{k%2 == 0}
			}
			for _, i := range idxs {
				for _, j := range idxs {
					for _, lit := range forms() {
						c := cpCase{S: s, I: i, J: j, Lit: lit}
						rec.Eval()
						if ntSlice(c) {
							rec.NT(fmt.Sprintf("slice\x00%s\x00%s:%s%v", s, showOpt(i), showOpt(j), lit))
						}
						if msg := checkSlice(c); msg != "" {
							report("slice", c, msg)
						}
					}
				}
				if i != nil {
					for _, lit := range forms() {
						c := cpCase{S: s, I: i, Lit: lit}
						rec.Eval()
						if ntIndex(c) {
							rec.NT(fmt.Sprintf("index\x00%s\x00%d%v", s, *i, lit))
						}
						if msg := checkIndex(c); msg != "" {
							report("index", c, msg)
						}
					}
				}
			}
			for _, nd := range needles {
				for _, lit := range forms() {
					c := cpCase{S: s, T: nd, Lit: lit}
					rec.Eval()
					if ntFind(c) {
						rec.NT("find\x00" + s + "\x00" + nd + fmt.Sprint(lit))
					}
					if msg := checkFind(c); msg != "" {
						report("find", c, msg)
					}
				}
			}
		}
	}
	cpExhaustive(subjects, idxs, needles)
	rec.Exhaustive(fmt.Sprintf("code-point laws: %d subjects (alphabet of %d, length<=4) x indices -6..6/absent (as variables and as literals) x needles of length 1..2", len(subjects), len(exhAlphabet)),
		direct["length"]+direct["slice"]+direct["index"]+direct["find"] == 0)
	cpBefore := direct["length"] + direct["slice"] + direct["index"] + direct["find"]
	cpExhaustive(badSubjects, badIdxs, badNeedles)
	rec.Exhaustive(fmt.Sprintf("code-point laws on ill-formed UTF-8: %d subjects (<=3 pieces of %d, not valid UTF-8) x indices -10..10/absent x %d needles", len(badSubjects), len(badExhAlphabet), len(badNeedles)),
		direct["length"]+direct["slice"]+direct["index"]+direct["find"] == cpBefore)

	// (E2) regex laws: every subject up to 4 letters x the hand-written
	// regex list x flag sets, all nine laws on each.
	var hand []string
	for _, re := range handRegexes {
		if _, err := regexp.Compile(re); err == nil {
			hand = append(hand, re)
		}
	}
	flagSets := []*string{nil, sp("g"), sp("i"), sp("m"), sp("gi"), sp("gm"), sp(""), sp("gim")}
	before := 0
	for _, l := range laws {
		before += direct[l.name]
	}
	cnt := 0
	reExhaustive := func(subjects []string) {
		for n, s := range subjects {
			if !rec.Mine(n) {
				continue
			}
			for ri, re := range hand {
				var fsel []*string
				if rec.Thorough() {
					fsel = flagSets
				} else {
					// two flag sets per (subject, regex), rotating
					fsel = []*string{flagSets[(n+ri)%2], flagSets[2+(n+ri*5)%6]}
				}
				for _, fl := range fsel {
					c := reCase{S: s, Re: re, Flags: fl, Form: "v2"}
					switch (n + ri) % 3 {
					case 0:
						if fl == nil {
							c.Form = "v1"
						}
					case 1:
						c.Form = "lit"
					}
					rf := fetchRef(c)
					for i := range laws {
						l, c := &laws[i], c
						if l.name == "sub" || l.name == "gsubid" {
							cnt++
							c.K = cnt % len(subTemplates)
							c.G = (cnt/len(subTemplates))%2 == 0
						}
						rec.Eval()
						observe("exh", l.name, c, rf)
						if msg := l.judge(c, rf); msg != "" {
							report(l.name, c, msg)
						}
					}
				}
			}
		}
	}
	lawViolations := func() int {
		n := 0
		for _, l := range laws {
			n += direct[l.name]
		}
		return n
	}
	reExhaustive(subjects)
	flagsText := map[bool]string{true: "8 flag sets", false: "2 rotating flag sets of 8"}[rec.Thorough()]
	rec.Exhaustive(fmt.Sprintf("regex laws: %d subjects (length<=4) x %d hand-written regexes x %s", len(subjects), len(hand), flagsText), lawViolations() == before)
	before = lawViolations()
	reExhaustive(badSubjects)
	rec.Exhaustive(fmt.Sprintf("regex laws on ill-formed UTF-8: %d subjects (<=3 pieces, not valid UTF-8) x %d hand-written regexes x %s", len(badSubjects), len(hand), flagsText), lawViolations() == before)

	// (R) random part: one rapid sub-check per law.
	for i := range laws {
		l := &laws[i]
		n := rec.Scale(48000, 1500000)
		rec.Rapid(t, l.name, n, func(t *rapid.T) {
			c, feat := genReCase(t)
			if l.name == "sub" || l.name == "gsubid" {
				c.G = rapid.Bool().Draw(t, "gsub")
			}
			if l.name == "sub" {
				c.K = rapid.IntRange(0, len(subTemplates)-1).Draw(t, "template")
			}
			if msg := validCase(c); msg != "" {
				rec.Class("generator/invalid")
				t.Skip(msg)
			}
			rf := fetchRef(c)
			rec.Eval()
			nt := observe("rnd", l.name, c, rf)
			fs := make([]string, 0, len(feat))
			for f := range feat {
				fs = append(fs, f)
			}
			sort.Strings(fs)
			for _, f := range fs {
				rec.Class("regex/" + f)
			}
			if feat["anchored-both-sides"] && feat["anchored-subject-contains-core"] {
				// the anchors, not the characters, decide: also non-trivial
				rec.NT(l.name + "\x00" + c.key())
			}
			if nt && len(rf.r) > 2 {
				rec.Sample(map[string]any{"law": l.name, "case": c})
			}
			if msg := l.judge(c, rf); msg != "" {
				t.Fatalf("%s", rec.Fail(l.name, c, "%s", msg))
			}
		})
	}

	cpSub := func(name string, n int, draw func(t *rapid.T, s string, r []rune) cpCase, nt func(cpCase) bool, check func(cpCase) string) {
		rec.Rapid(t, name, n, func(t *rapid.T) {
			s := genSubject(rndAlphabet, 30, true).Draw(t, "subject")
			c := draw(t, s, []rune(s))
			rec.Eval()
			rec.Class("law/" + name)
			if !utf8.ValidString(c.S) {
				rec.Class("subject/cp/ill-formed")
			}
			if c.Lit {
				rec.Class("form/cp-literal")
			}
			if nt(c) {
				rec.NT(name + "\x00" + fmt.Sprint(c.S, "\x00", showOpt(c.I), ":", showOpt(c.J), "\x00", c.T, c.Lit))
			}
			rec.Sample(map[string]any{"law": name, "case": c})
			if msg := check(c); msg != "" {
				t.Fatalf("%s", rec.Fail(name, c, "%s", msg))
			}
		})
	}
	cpSub("length", rec.Scale(24000, 600000), func(t *rapid.T, s string, r []rune) cpCase { return cpCase{S: s} },
		func(c cpCase) bool { return multibyteBefore(c.S, len(c.S)) || !utf8.ValidString(c.S) }, checkLength)
	cpSub("slice", rec.Scale(120000, 2400000), func(t *rapid.T, s string, r []rune) cpCase {
		c := cpCase{S: s, Lit: rapid.IntRange(0, 4).Draw(t, "lit") == 0}
		if rapid.IntRange(0, 5).Draw(t, "noi") != 0 {
			c.I = ip(genIdx(t, len(r), "i"))
		}
		if rapid.IntRange(0, 5).Draw(t, "noj") != 0 {
			c.J = ip(genIdx(t, len(r), "j"))
		}
		return c
	}, ntSlice, checkSlice)
	cpSub("index", rec.Scale(60000, 1200000), func(t *rapid.T, s string, r []rune) cpCase {
		return cpCase{S: s, Lit: rapid.IntRange(0, 4).Draw(t, "lit") == 0, I: ip(genIdx(t, len(r), "i"))}
	}, ntIndex, checkIndex)
	cpSub("find", rec.Scale(120000, 2400000), func(t *rapid.T, s string, r []rune) cpCase {
		c := cpCase{S: s, Lit: rapid.IntRange(0, 4).Draw(t, "lit") == 0}
		if len(r) > 0 && rapid.IntRange(0, 3).Draw(t, "substr") != 0 {
			a := rapid.IntRange(0, len(r)-1).Draw(t, "from")
			b := rapid.IntRange(a+1, min(len(r), a+4)).Draw(t, "to")
			c.T = cut(s, a, b) // the bytes themselves, ill-formed ones included
		} else {
			n := rapid.IntRange(1, 3).Draw(t, "needlelen")
			for i := 0; i < n; i++ {
				c.T += rapid.SampledFrom(rndAlphabet).Draw(t, "needle")
			}
		}
		return c
	}, ntFind, checkFind)

	// several regex calls sharing one compiled program (one regexp cache)
	for i, c := range handPairs {
		if !rec.Mine(i) {
			continue
		}
		rec.Eval()
		rec.Class("law/pairs")
		kb, _ := json.Marshal(c)
		rec.NT("pairs\x00" + string(kb))
		if msg := checkPairs(c); msg != "" {
			report("pairs", c, msg)
		}
	}
	rec.Rapid(t, "pairs", rec.Scale(30000, 900000), func(t *rapid.T) {
		c, kind := genPairs(t)
		rec.Eval()
		rec.Class("law/pairs")
		rec.Class("pairs/kind/" + kind)
		rec.Class("pairs/mode/" + c.Mode)
		nt, class := ntPairs(c)
		if class != "" {
			rec.Class("pairs/relation/" + class)
		}
		if nt {
			b, _ := json.Marshal(c)
			rec.NT("pairs\x00" + string(b))
			rec.Sample(map[string]any{"law": "pairs", "case": c})
		}
		if msg := checkPairs(c); msg != "" {
			t.Fatalf("%s", rec.Fail("pairs", c, "%s", msg))
		}
	})
}

func sp(s string) *string { return &s }
