// C15 — the command prints exactly what the library yields, with documented
// statuses.
//
// Oracle: a model of the command's run loop written here.  The harness builds
// the input stream itself (every document is known by construction and is
// parsed with encoding/json + UseNumber), parses the argument list with its own
// reading of the documented flag syntax, runs the query through the gojq
// library (Parse / Compile with WithInputIter / RunWithContext, lazily, one
// output at a time), renders every output with its own renderer (compact text
// from gojq.Marshal as plumbing — C12 decides the encoders — and an own
// pretty-printer for the indentation unit), appends the selected terminator and
// applies the documented loop and status rules.  For queries of the small
// algebra a second, library-free evaluator predicts the same events (outputs,
// errors, halts with the status and message requested in the query text); both
// predictions must coincide before the command is judged.
package c15

import (
	"bytes"
	"encoding/json"
	"fmt"
	"io"
	"os"
	"path/filepath"
	"regexp"
	"sort"
	"strconv"
	"strings"
	"testing"
	"unicode/utf8"

	"github.com/itchyny/gojq"
	"pgregory.net/rapid"

	"verif/internal/cmdline"
	"verif/internal/evid"
	"verif/internal/gen"
	"verif/internal/run"
	"verif/internal/univ"
)

var rec *evid.Rec

// ---------------------------------------------------------------------------
// the query algebra

// item is one member of a comma-separated list.
//
//	val     V                      a constant (JSON text)
//	dot     .
//	iter    .[]
//	err     error(V) / error       (V == "": the current input is the payload)
//	halt    halt
//	herr    (V | halt_error(N))    (V == "": the current input; N == nil: halt_error/0)
//	empty   empty
//	input   input
//	inputs  inputs
//	debug   debug                  (the command's own function: passes the input on, writes ["DEBUG:",.] to stderr)
//	stderr  stderr                 (the command's own function: passes the input on, writes it to stderr, strings raw)
//	arr     [Then...]
//	if      if . == V then Then... else Else... end
type item struct {
	K    string `json:"k"`
	V    string `json:"v,omitempty"`
	N    *int   `json:"n,omitempty"`
	Then []item `json:"then,omitempty"`
	Else []item `json:"else,omitempty"`
}

func itemsText(is []item) string {
	if len(is) == 0 {
		return "empty"
	}
	parts := make([]string, len(is))
	for i, it := range is {
		parts[i] = itemText(it)
	}
	return strings.Join(parts, ", ")
}

func itemText(it item) string {
	switch it.K {
	case "val":
		return it.V
	case "dot":
		return "."
	case "iter":
		return ".[]"
	case "err":
		if it.V == "" {
			return "error"
		}
		return "error(" + it.V + ")"
	case "halt":
		return "halt"
	case "herr":
		call := "halt_error"
		if it.N != nil {
			call = fmt.Sprintf("halt_error(%d)", *it.N)
		}
		if it.V == "" {
			return call
		}
		return "(" + it.V + " | " + call + ")"
	case "empty":
		return "empty"
	case "input":
		return "input"
	case "inputs":
		return "inputs"
	case "debug":
		return "debug"
	case "stderr":
		return "stderr"
	case "arr":
		return "[" + itemsText(it.Then) + "]"
	case "if":
		return "if . == " + it.V + " then " + itemsText(it.Then) + " else " + itemsText(it.Else) + " end"
	}
	return "<bad item " + it.K + ">"
}

func validItems(is []item) bool {
	for _, it := range is {
		switch it.K {
		case "val", "if":
			if _, err := parseDoc(it.V); err != nil {
				return false
			}
		case "err", "herr":
			if it.V != "" {
				if _, err := parseDoc(it.V); err != nil {
					return false
				}
			}
		case "dot", "iter", "halt", "empty", "input", "inputs", "arr", "debug", "stderr":
		default:
			return false
		}
		if !validItems(it.Then) || !validItems(it.Else) {
			return false
		}
	}
	return true
}

func usesKind(is []item, kinds ...string) bool {
	for _, it := range is {
		for _, k := range kinds {
			if it.K == k {
				return true
			}
		}
		if usesKind(it.Then, kinds...) || usesKind(it.Else, kinds...) {
			return true
		}
	}
	return false
}

// parseDoc reads one JSON text the way the command reads its input.
func parseDoc(s string) (any, error) {
	d := json.NewDecoder(strings.NewReader(s))
	d.UseNumber()
	var v any
	if err := d.Decode(&v); err != nil {
		return nil, err
	}
	var extra any
	if err := d.Decode(&extra); err != io.EOF {
		return nil, fmt.Errorf("more than one value in %q", s)
	}
	return v, nil
}

// ---------------------------------------------------------------------------
// case

type cliCase struct {
	Pre   []string `json:"pre"`             // arguments before the query
	Dash  bool     `json:"dash,omitempty"`  // "--" right before the query
	Text  string   `json:"text"`            // the query argument
	Items []item   `json:"items,omitempty"` // the algebra term Text was printed from (absent: free text)
	NoQ   bool     `json:"noq,omitempty"`   // no query argument at all
	Post  []string `json:"post,omitempty"`  // arguments after the query
	Docs  []string `json:"docs"`            // JSON texts of the input documents
	Sep   string   `json:"sep,omitempty"`   // white space between documents (default "\n")
	Tail  string   `json:"tail,omitempty"`  // malformed text after the last document
	End   string   `json:"end,omitempty"`   // white space at the very end
	// Files, when present, are the input sources given as arguments after the
	// query (written into a scratch directory); Docs/Tail above stay empty.
	Files []fileSpec `json:"files,omitempty"`
	// Lines / NoNL: the content of standard input under -R (Docs/Tail empty).
	Lines []lineSpec `json:"lines,omitempty"`
	NoNL  bool       `json:"nonl,omitempty"`
	// Dirs: directories created in the scratch directory besides the operands
	// (to be named by --slurpfile / --rawfile).
	Dirs []string `json:"dirs,omitempty"`
}

// lineSpec is one line of a raw (-R) input: a literal text, or a generated
// non-periodic text of N bytes (a running counter, so that bytes moved within
// the line show).
type lineSpec struct {
	Text  string `json:"text,omitempty"`
	Style string `json:"style,omitempty"` // "" (Text) | counter | mb (multi-byte runes between the numbers) | nul (NUL between the numbers)
	N     int    `json:"n,omitempty"`     // length in bytes (a multi-byte rune cut by it is dropped)
	Pad   int    `json:"pad,omitempty"`   // 0..3 leading bytes to shift the multi-byte runes across the buffer boundary
	Start int    `json:"start,omitempty"` // first number
	CR    bool   `json:"cr,omitempty"`    // a carriage return at the end of the line
}

var mbRunes = []rune{'é', '☃', '😀', 'ß', '漢'}

func (l lineSpec) build() string {
	s := l.Text
	if l.Style != "" {
		var b strings.Builder
		b.WriteString("xyz"[:min(max(l.Pad, 0), 3)])
		for i := 0; b.Len() < l.N; i++ {
			switch l.Style {
			case "mb":
				b.WriteRune(mbRunes[(l.Start+i)%len(mbRunes)])
			case "nul":
				b.WriteByte(0)
			default:
				b.WriteByte(';')
			}
			fmt.Fprintf(&b, "%05d", l.Start+i)
		}
		s = b.String()[:max(l.N, 0)]
		for len(s) > 0 && !utf8.ValidString(s) {
			s = s[:len(s)-1]
		}
	}
	if l.CR {
		s += "\r"
	}
	return s
}

// rawText: the lines, each followed by a line feed, the last one only unless noNL.
func rawText(lines []lineSpec, noNL bool) []byte {
	var b bytes.Buffer
	for i, l := range lines {
		b.WriteString(l.build())
		if i < len(lines)-1 || !noNL {
			b.WriteByte('\n')
		}
	}
	return b.Bytes()
}

// rawLines is the documented reading of a raw input: the text is cut after
// every line feed, the line feed itself is dropped (a carriage return before
// it stays), and a last piece without line feed counts unless it is empty.
// errPattern: the source ends in an error whose diagnostic contains this text
// ("": the source is read to its end without error).  Established on the
// unchanged tree: a name that does not exist fails in open, a directory opens
// and fails at the first read ("invalid json: dirN ... read dirN: is a
// directory", plain "read dirN: is a directory" under -R), a malformed tail is
// an "invalid json" / "invalid yaml" report.
func errPattern(o opts, f fileSpec) string {
	switch {
	case f.Kind == "missing":
		return "no such file or directory"
	case f.Kind == "dir":
		return "is a directory"
	case f.Tail == "":
		return ""
	case o.yaml:
		return "invalid yaml: "
	}
	return "invalid json: "
}

func rawLines(content []byte) []any {
	var out []any
	parts := strings.Split(string(content), "\n")
	for i, p := range parts {
		if i == len(parts)-1 && p == "" {
			break
		}
		out = append(out, p)
	}
	return out
}

// fileSpec is one input source named on the command line.
type fileSpec struct {
	Kind string   `json:"kind"` // file | stdin ("-") | missing (a name that does not exist)
	Docs []string `json:"docs,omitempty"`
	Sep  string   `json:"sep,omitempty"`
	Tail string   `json:"tail,omitempty"`
	End  string   `json:"end,omitempty"`
	// under -R instead of Docs/Tail:
	Lines []lineSpec `json:"lines,omitempty"`
	NoNL  bool       `json:"nonl,omitempty"`
}

func (c cliCase) fileNames() []string {
	var names []string
	for i, f := range c.Files {
		switch f.Kind {
		case "stdin":
			names = append(names, "-")
		case "missing":
			names = append(names, fmt.Sprintf("missing%d.json", i))
		case "dir":
			names = append(names, fmt.Sprintf("dir%d", i))
		default:
			names = append(names, fmt.Sprintf("f%d.json", i))
		}
	}
	return names
}

// sourceText is the content of one input source: JSON documents separated by
// white space, or under --yaml-input the same documents (flow style) each
// after a "---" line; then the malformed tail.
func sourceText(yaml bool, docs []string, sep, tail, end string) []byte {
	var b bytes.Buffer
	if yaml {
		for _, d := range docs {
			b.WriteString("---\n" + d + "\n")
		}
		if tail != "" {
			b.WriteString("---\n" + tail + "\n")
		}
		return b.Bytes()
	}
	if sep == "" {
		sep = "\n"
	}
	for i, d := range docs {
		if i > 0 {
			b.WriteString(sep)
		}
		b.WriteString(d)
	}
	if tail != "" {
		if len(docs) > 0 {
			b.WriteString(sep)
		}
		b.WriteString(tail)
	}
	b.WriteString(end)
	return b.Bytes()
}

func (c cliCase) argv() []string {
	args := append([]string{}, c.Pre...)
	if c.Dash {
		args = append(args, "--")
	}
	if !c.NoQ {
		args = append(args, c.Text)
	}
	return append(append(args, c.Post...), c.fileNames()...)
}

func isSpace(s string) bool { return strings.Trim(s, " \t\r\n") == "" }

func (c cliCase) stdin() []byte {
	sep := c.Sep
	if sep == "" {
		sep = "\n"
	}
	var b bytes.Buffer
	for i, d := range c.Docs {
		if i > 0 {
			b.WriteString(sep)
		}
		b.WriteString(d)
	}
	if c.Tail != "" {
		if len(c.Docs) > 0 {
			b.WriteString(sep)
		}
		b.WriteString(c.Tail)
	}
	b.WriteString(c.End)
	return b.Bytes()
}

// ---------------------------------------------------------------------------
// the documented flag syntax (cli/flags.go, cli/cli.go flagopts), restricted to
// the forms the generators produce

type opts struct {
	raw, join, raw0, compact, tab, exit, null, slurp, stream, yaml, rawIn bool
	indent                                                                *int
	argFiles                                                              []string // files named by --slurpfile / --rawfile
}

var longBool = map[string]func(*opts){
	"raw-output":     func(o *opts) { o.raw = true },
	"raw-output0":    func(o *opts) { o.raw0 = true },
	"join-output":    func(o *opts) { o.join = true },
	"compact-output": func(o *opts) { o.compact = true },
	"tab":            func(o *opts) { o.tab = true },
	"exit-status":    func(o *opts) { o.exit = true },
	"null-input":     func(o *opts) { o.null = true },
	"slurp":          func(o *opts) { o.slurp = true },
	"stream":         func(o *opts) { o.stream = true },
	"yaml-input":     func(o *opts) { o.yaml = true },
	"raw-input":      func(o *opts) { o.rawIn = true },
}

var shortBool = map[byte]string{'r': "raw-output", 'j': "join-output", 'c': "compact-output", 'e': "exit-status", 'n': "null-input", 's': "slurp", 'R': "raw-input"}

// flags the command has but this model does not cover: a case using one of
// them is a harness error, not a verdict.
var otherLong = map[string]bool{"yaml-output": true, "color-output": true, "monochrome-output": true,
	"from-file": true, "library-path": true, "arg": true, "argjson": true, "slurpfile": true, "rawfile": true,
	"args": true, "jsonargs": true, "version": true, "help": true}
var otherShort = "CMfLvh"

// parseArgs returns the options, the positional arguments, whether the
// argument list is a usage error, and a non-empty string when the list uses a
// form outside the model.
func parseArgs(args []string) (o opts, rest []string, usage bool, outside string) {
	done := false
	for i := 0; i < len(args); i++ {
		a := args[i]
		switch {
		case done:
			rest = append(rest, a)
		case a == "--":
			done = true
		case strings.HasPrefix(a, "--"):
			name, val, hasVal := a[2:], "", false
			if _, ok := longBool[name]; !ok && name != "indent" && !otherLong[name] {
				if j := strings.IndexByte(name, '='); j >= 0 {
					name, val, hasVal = name[:j], name[j+1:], true
				}
			}
			if !hasVal && (name == "slurpfile" || name == "rawfile") { // --slurpfile name file
				if i += 2; i >= len(args) {
					return o, nil, true, "" // expected 2 arguments
				}
				o.argFiles = append(o.argFiles, args[i])
				continue
			}
			if otherLong[name] {
				return o, nil, false, "flag outside the model: " + a
			}
			if set, ok := longBool[name]; ok {
				if hasVal {
					return o, nil, true, "" // boolean flag cannot have an argument
				}
				set(&o)
				continue
			}
			if name != "indent" {
				return o, nil, true, "" // unknown flag
			}
			if !hasVal {
				if i++; i >= len(args) {
					return o, nil, true, "" // expected argument
				}
				val = args[i]
			}
			n, err := strconv.Atoi(val)
			if err != nil {
				return o, nil, true, "" // invalid argument
			}
			o.indent = &n
		case len(a) > 1 && a[0] == '-':
			for j := 1; j < len(a); j++ {
				ch := a[j]
				if !('a' <= ch && ch <= 'z' || 'A' <= ch && ch <= 'Z') {
					return o, nil, false, "short option group outside the model: " + a
				}
			}
			for j := 1; j < len(a); j++ {
				if strings.IndexByte(otherShort, a[j]) >= 0 {
					return o, nil, false, "flag outside the model: " + a
				}
				name, ok := shortBool[a[j]]
				if !ok {
					return o, nil, true, "" // unknown flag
				}
				longBool[name](&o)
			}
		default:
			rest = append(rest, a)
		}
	}
	return o, rest, false, ""
}

// ---------------------------------------------------------------------------
// --stream: for a complete document the command's events are the outputs of
// the library's own tostream on that document, in order, provided the keys of
// every object appear in the text in sorted order without repetition (the
// parser reports members in text order, tostream in key order).

var tostreamCode = run.MustCompile("tostream")

func eventsOf(doc any) ([]any, error) {
	var evs []any
	it := tostreamCode.Run(doc)
	for {
		v, ok := it.Next()
		if !ok {
			return evs, nil
		}
		if err, ok := v.(error); ok {
			return nil, err
		}
		evs = append(evs, v)
	}
}

// keysSorted reports whether every object of the JSON text lists its keys in
// strictly increasing byte order.
func keysSorted(text string) bool {
	type frame struct {
		obj, key, has bool
		last          string
	}
	var stack []frame
	value := func() {
		if n := len(stack); n > 0 && stack[n-1].obj {
			stack[n-1].key = true
		}
	}
	d := json.NewDecoder(strings.NewReader(text))
	d.UseNumber()
	for {
		tok, err := d.Token()
		if err == io.EOF {
			return true
		}
		if err != nil {
			return false
		}
		switch x := tok.(type) {
		case json.Delim:
			switch x {
			case '{':
				value()
				stack = append(stack, frame{obj: true, key: true})
			case '[':
				value()
				stack = append(stack, frame{})
			default:
				stack = stack[:len(stack)-1]
			}
		case string:
			if n := len(stack); n > 0 && stack[n-1].obj && stack[n-1].key {
				f := &stack[n-1]
				if f.has && x <= f.last {
					return false
				}
				f.last, f.has, f.key = x, true, false
			} else {
				value()
			}
		default:
			value()
		}
	}
}

// ---------------------------------------------------------------------------
// the input stream as the command sees it

type stream struct {
	items    []any // values; the last one may be an error (malformed tail)
	pos      int
	tailSeen int      // error values handed out so far
	notes    []string // what debug / stderr wrote since the last takeNotes
	all      []any    // the units before --slurp
}

func (s *stream) debug(v any) {
	b, _ := gojq.Marshal([]any{"DEBUG:", v})
	s.notes = append(s.notes, string(b)+"\n")
}

func (s *stream) stderr(v any) {
	if x, ok := v.(string); ok {
		s.notes = append(s.notes, x)
		return
	}
	b, _ := gojq.Marshal(v)
	s.notes = append(s.notes, string(b))
}

func (s *stream) takeNotes() []string {
	n := s.notes
	s.notes = nil
	return n
}

// tailError stands for the one error an input source ends with; pat is a text
// the command's diagnostic for it has to contain.
type tailError struct {
	id  int
	pat string
}

const tailMark = "(harness model)"

func (e tailError) Error() string { return fmt.Sprintf("malformed input #%d %s", e.id, tailMark) }

// patternIn finds the pattern of the stream error quoted in an error message.
func (s *stream) patternIn(msg string) (string, bool) {
	i := strings.Index(msg, "malformed input #")
	if i < 0 || !strings.Contains(msg, tailMark) {
		return "", false
	}
	id, _ := strconv.Atoi(strings.SplitN(msg[i+len("malformed input #"):], " ", 2)[0])
	for _, it := range s.all {
		if te, ok := it.(tailError); ok && te.id == id {
			return te.pat, true
		}
	}
	return "", true
}

// newStream takes the values of all input sources in order, an error value
// standing for each malformed tail / unreadable file (the source ends there,
// the next one continues).  --slurp collects up to the first error and then
// yields only that error.
func newStream(o opts, units []any) *stream {
	if o.slurp {
		for _, u := range units {
			if _, bad := u.(error); bad {
				return &stream{items: []any{u}, all: units}
			}
		}
		return &stream{items: []any{append([]any{}, units...)}, all: units}
	}
	return &stream{items: append([]any{}, units...), all: units}
}

func (s *stream) Next() (any, bool) {
	if s.pos >= len(s.items) {
		return nil, false
	}
	v := s.items[s.pos]
	s.pos++
	if _, ok := v.(error); ok {
		s.tailSeen++
	}
	return v, true
}

func (s *stream) more() bool { return s.pos < len(s.items) }

type nullIter struct{ done bool }

func (n *nullIter) Next() (any, bool) {
	if n.done {
		return nil, false
	}
	n.done = true
	return nil, true
}

// ---------------------------------------------------------------------------
// the two evaluators

type stopEv struct {
	halt   bool
	code   int
	val    any    // halt value
	msg    string // message of the runtime error, "" when not predicted
	stream bool   // the error is the malformed tail reached through input/inputs
	pat    string // then: what the diagnostic has to contain
	panic  string
	budget bool
}

// runner produces the outputs of the query for one input lazily through emit
// (emit returning false abandons the run) and reports how the run ended.
type runner func(in any, emit func(any) bool) *stopEv

func libRunner(code *gojq.Code, st *stream) runner {
	return func(in any, emit func(any) bool) (ev *stopEv) {
		defer func() {
			if r := recover(); r != nil {
				ev = &stopEv{panic: fmt.Sprint(r)}
			}
		}()
		ctx := run.NewCountCtx(3000000)
		seen := st.tailSeen
		it := code.RunWithContext(ctx, in)
		for n := 0; ; n++ {
			v, ok := it.Next()
			if !ok {
				return nil
			}
			if err, ok := v.(error); ok {
				if ctx.Fired() {
					return &stopEv{budget: true}
				}
				if h, ok := err.(*gojq.HaltError); ok {
					return &stopEv{halt: true, code: h.ExitCode(), val: h.Value()}
				}
				if pat, ok := st.patternIn(err.Error()); ok {
					return &stopEv{msg: err.Error(), stream: true, pat: pat}
				}
				return &stopEv{msg: err.Error(), stream: st.tailSeen > seen}
			}
			if n >= 20000 {
				return &stopEv{budget: true}
			}
			if !emit(v) {
				return nil
			}
		}
	}
}

func errorMessage(v any) string {
	if s, ok := v.(string); ok {
		return "error: " + s
	}
	b, err := gojq.Marshal(v)
	if err != nil {
		return ""
	}
	return "error: " + string(b)
}

// algRunner evaluates the algebra without the library.
func algRunner(items []item, st *stream) runner {
	var eval func(is []item, in any, emit func(any) bool) (*stopEv, bool)
	eval = func(is []item, in any, emit func(any) bool) (*stopEv, bool) {
		for _, it := range is {
			switch it.K {
			case "val":
				v, _ := parseDoc(it.V)
				if !emit(v) {
					return nil, false
				}
			case "dot", "debug", "stderr":
				if it.K == "debug" {
					st.debug(in)
				} else if it.K == "stderr" {
					st.stderr(in)
				}
				if !emit(in) {
					return nil, false
				}
			case "iter":
				switch x := in.(type) {
				case []any:
					for _, e := range x {
						if !emit(e) {
							return nil, false
						}
					}
				case map[string]any:
					keys := make([]string, 0, len(x))
					for k := range x {
						keys = append(keys, k)
					}
					sort.Strings(keys)
					for _, k := range keys {
						if !emit(x[k]) {
							return nil, false
						}
					}
				default:
					return &stopEv{}, false
				}
			case "err":
				v := in
				if it.V != "" {
					v, _ = parseDoc(it.V)
				}
				return &stopEv{msg: errorMessage(v)}, false
			case "halt":
				return &stopEv{halt: true}, false
			case "herr":
				v := in
				if it.V != "" {
					v, _ = parseDoc(it.V)
				}
				code := 5
				if it.N != nil {
					code = *it.N
				}
				return &stopEv{halt: true, code: code, val: v}, false
			case "empty":
			case "input":
				v, ok := st.Next()
				if !ok {
					return &stopEv{}, false
				}
				if te, bad := v.(tailError); bad {
					return &stopEv{stream: true, pat: te.pat}, false
				}
				if !emit(v) {
					return nil, false
				}
			case "inputs":
				for {
					v, ok := st.Next()
					if !ok {
						break
					}
					if te, bad := v.(tailError); bad {
						return &stopEv{stream: true, pat: te.pat}, false
					}
					if !emit(v) {
						return nil, false
					}
				}
			case "arr":
				acc := []any{}
				ev, cont := eval(it.Then, in, func(v any) bool { acc = append(acc, v); return true })
				if ev != nil || !cont {
					return ev, false
				}
				if !emit(acc) {
					return nil, false
				}
			case "if":
				k, _ := parseDoc(it.V)
				branch := it.Else
				if univ.Equal(in, k) {
					branch = it.Then
				}
				ev, cont := eval(branch, in, emit)
				if ev != nil || !cont {
					return ev, false
				}
			}
		}
		return nil, true
	}
	return func(in any, emit func(any) bool) *stopEv {
		ev, _ := eval(items, in, emit)
		return ev
	}
}

// ---------------------------------------------------------------------------
// rendering

// pretty re-indents a compact JSON text.  Empty containers stay closed.
func pretty(compact []byte, unit string) []byte {
	var out bytes.Buffer
	depth := 0
	nl := func() {
		out.WriteByte('\n')
		for i := 0; i < depth; i++ {
			out.WriteString(unit)
		}
	}
	for i := 0; i < len(compact); i++ {
		ch := compact[i]
		switch ch {
		case '"':
			j := i + 1
			for j < len(compact) && compact[j] != '"' {
				if compact[j] == '\\' {
					j++
				}
				j++
			}
			if j >= len(compact) {
				j = len(compact) - 1
			}
			out.Write(compact[i : j+1])
			i = j
		case '[', '{':
			if i+1 < len(compact) && compact[i+1] == ch+2 {
				out.WriteByte(ch)
				out.WriteByte(ch + 2)
				i++
			} else {
				out.WriteByte(ch)
				depth++
				nl()
			}
		case ']', '}':
			depth--
			nl()
			out.WriteByte(ch)
		case ',':
			out.WriteByte(',')
			nl()
		case ':':
			out.WriteString(": ")
		default:
			out.WriteByte(ch)
		}
	}
	return out.Bytes()
}

// render gives the bytes of one output (without terminator); nul reports the
// documented rejection of a string containing NUL under --raw-output0.
func render(o opts, v any) (text []byte, nul bool) {
	if s, ok := v.(string); ok && (o.raw || o.raw0 || o.join) {
		if o.raw0 && strings.IndexByte(s, 0) >= 0 {
			return nil, true
		}
		return []byte(s), false
	}
	b, err := gojq.Marshal(v)
	if err != nil {
		return []byte("<marshal: " + err.Error() + ">"), false
	}
	switch {
	case o.compact:
		return b, false
	case o.tab:
		return pretty(b, "\t"), false
	case o.indent != nil:
		return pretty(b, strings.Repeat(" ", *o.indent)), false
	}
	return pretty(b, "  "), false
}

func terminator(o opts) string {
	switch {
	case o.raw0:
		return "\x00"
	case o.join:
		return ""
	}
	return "\n"
}

// ---------------------------------------------------------------------------
// the run loop

type expect struct {
	stdout  []byte
	exit    int
	diags   int      // diagnostics due, a halt_error message not counted
	msgs    []string // texts that stderr has to contain
	pats    []string // texts the diagnostics of the input errors have to contain
	haltMsg string
	halted  bool

	units        int  // items of the input stream
	events       int  // documents, or events under --stream
	fileErrEarly bool // an input source other than the last one ends in an error
	errMid       bool
	errLast      bool
	haltMid      bool
	tailErr      bool
	nulErr       bool
	nulMid       bool
	notes        int
	outputs      int
	lastFalsy    bool
	kind         string // usage | indent | query | run
	harness      string // budget / plumbing problem: the case is not judged
	panic        string
}

func haltMessage(v any) string {
	if v == nil {
		return ""
	}
	if s, ok := v.(string); ok {
		return s
	}
	b, err := gojq.Marshal(v)
	if err != nil {
		return "<marshal: " + err.Error() + ">"
	}
	return string(b) + "\n"
}

func loop(o opts, st *stream, rn runner) expect {
	e := expect{kind: "run", units: len(st.items)}
	var main interface{ Next() (any, bool) } = st
	if o.null {
		main = &nullIter{}
	}
	term := terminator(o)
	var out bytes.Buffer
	anyErr := false
	var last any
	for {
		v, ok := main.Next()
		if !ok {
			break
		}
		if te, bad := v.(tailError); bad {
			e.diags++
			e.tailErr = true
			anyErr = true
			if te.pat != "" {
				e.pats = append(e.pats, te.pat)
			}
			continue
		}
		nul := false
		ev := rn(v, func(x any) bool {
			b, rejected := render(o, x)
			if rejected {
				nul = true
				return false
			}
			out.Write(b)
			out.WriteString(term)
			e.outputs++
			last = x
			return true
		})
		mid := !o.null && st.more()
		for _, n := range st.takeNotes() {
			if n != "" {
				e.diags++
				e.notes++
				e.msgs = append(e.msgs, n)
			}
		}
		if nul {
			e.diags++
			e.nulErr = true
			e.nulMid = e.nulMid || mid
			e.msgs = append(e.msgs, "cannot output a string containing NUL character")
			anyErr = true
			e.errMid = e.errMid || mid
			e.errLast = e.errLast || !mid
			continue
		}
		if ev == nil {
			continue
		}
		if ev.panic != "" {
			e.panic = ev.panic
			return e
		}
		if ev.budget {
			e.harness = "budget"
			return e
		}
		if ev.halt {
			e.halted = true
			e.haltMsg = haltMessage(ev.val)
			e.exit = ((ev.code % 256) + 256) % 256
			e.haltMid = mid
			break
		}
		e.diags++
		anyErr = true
		if ev.stream {
			e.tailErr = true
			if ev.pat != "" {
				e.pats = append(e.pats, ev.pat)
			}
		} else {
			e.msgs = append(e.msgs, ev.msg) // "" when the evaluator does not predict the text
		}
		e.errMid = e.errMid || mid
		e.errLast = e.errLast || !mid
	}
	e.stdout = out.Bytes()
	e.lastFalsy = e.outputs > 0 && (last == nil || last == false)
	switch {
	case e.halted:
	case anyErr:
		e.exit = 5
	case o.exit && e.outputs == 0:
		e.exit = 4
	case o.exit && e.lastFalsy:
		e.exit = 1
	}
	return e
}

// ---------------------------------------------------------------------------
// the oracle on one case

type verdict struct {
	msg     string
	discard string
	exp     expect
	o       opts
}

func clip(s string) string {
	if len(s) > 300 {
		return s[:300] + "...(" + strconv.Itoa(len(s)) + " bytes)"
	}
	return s
}

func firstDiff(a, b []byte) int {
	n := min(len(a), len(b))
	for i := 0; i < n; i++ {
		if a[i] != b[i] {
			return i
		}
	}
	return n
}

func bad(format string, args ...any) verdict {
	return verdict{msg: "bad case: " + fmt.Sprintf(format, args...)}
}

func judge(c cliCase) verdict {
	// the case itself
	if c.Items != nil && (!validItems(c.Items) || itemsText(c.Items) != c.Text) {
		return bad("the query text is not the printed form of the term")
	}
	args := c.argv()
	o, rest, usage, outside := parseArgs(args)
	if outside != "" {
		return bad("%s", outside)
	}
	for _, a := range args {
		if strings.IndexByte(a, 0) >= 0 {
			return bad("NUL in an argument")
		}
	}
	if o.yaml && o.stream || o.rawIn && (o.yaml || o.stream) {
		return bad("two input formats at once are outside the model")
	}
	// the input sources
	type source struct {
		spec    fileSpec
		name    string
		vals    []any
		content []byte
	}
	var srcs []source
	if len(c.Files) == 0 {
		srcs = []source{{spec: fileSpec{Kind: "stdin", Docs: c.Docs, Sep: c.Sep, Tail: c.Tail, End: c.End, Lines: c.Lines, NoNL: c.NoNL}}}
		if len(rest) > 1 {
			return bad("file arguments that are not listed in the case")
		}
	} else {
		if len(c.Docs) > 0 || c.Tail != "" || c.NoQ || len(c.Lines) > 0 {
			return bad("a case with file arguments keeps its documents in the file list and has a query")
		}
		names := c.fileNames()
		if !usage && (len(rest) != len(names)+1 || strings.Join(rest[1:], "\x00") != strings.Join(names, "\x00")) {
			return bad("the positional arguments %q are not the query and the files %q", rest, names)
		}
		stdins := 0
		for i, f := range c.Files {
			srcs = append(srcs, source{spec: f, name: names[i]})
			switch f.Kind {
			case "stdin":
				stdins++
			case "missing", "dir":
				if len(f.Docs) > 0 || f.Tail != "" || len(f.Lines) > 0 {
					return bad("a missing file or a directory has no content")
				}
			case "file":
			default:
				return bad("file kind %q", f.Kind)
			}
		}
		if stdins > 1 {
			return bad("standard input named twice")
		}
	}
	for _, d := range c.Dirs {
		if d == "" || strings.ContainsAny(d, "/.\x00") || strings.HasPrefix(d, "-") {
			return bad("directory name %q", d)
		}
	}
	for _, f := range o.argFiles { // only a directory is modelled as the file of --slurpfile / --rawfile
		known := false
		for _, d := range c.Dirs {
			known = known || d == f
		}
		if !known {
			return bad("--slurpfile / --rawfile %q: only the directories of the case are modelled", f)
		}
	}
	var input []byte
	fileErrEarly := false
	for i := range srcs {
		sp := srcs[i].spec
		if !isSpace(sp.Sep) || !isSpace(sp.End) {
			return bad("separator is not white space")
		}
		if o.rawIn && (len(sp.Docs) > 0 || sp.Tail != "") || !o.rawIn && len(sp.Lines) > 0 {
			return bad("documents belong to the JSON/YAML formats, lines to -R")
		}
		if o.rawIn {
			srcs[i].content = rawText(sp.Lines, sp.NoNL)
			srcs[i].vals = rawLines(srcs[i].content)
			if sp.Kind == "stdin" {
				input = srcs[i].content
			}
			if (sp.Kind == "missing" || sp.Kind == "dir") && i < len(srcs)-1 {
				fileErrEarly = true
			}
			continue
		}
		for _, d := range sp.Docs {
			v, err := parseDoc(d)
			if err != nil {
				return bad("document %q: %v", d, err)
			}
			if o.yaml && !yamlSafe[d] {
				return bad("document %q is not in the pool whose YAML reading is known", d)
			}
			srcs[i].vals = append(srcs[i].vals, v)
		}
		if o.yaml && sp.Tail != "" && !yamlTail[sp.Tail] {
			return bad("tail %q is not in the pool of YAML texts that fail only at the end of the stream", sp.Tail)
		}
		if (sp.Tail != "" || sp.Kind == "missing" || sp.Kind == "dir") && i < len(srcs)-1 {
			fileErrEarly = true
		}
		srcs[i].content = sourceText(o.yaml, sp.Docs, sp.Sep, sp.Tail, sp.End)
		if sp.Kind == "stdin" {
			input = srcs[i].content
		}
		if !o.yaml { // the bytes really are these documents followed by an error iff a tail is given
			d := json.NewDecoder(bytes.NewReader(srcs[i].content))
			d.UseNumber()
			n := 0
			var err error
			for {
				var v any
				if err = d.Decode(&v); err != nil {
					break
				}
				if n >= len(srcs[i].vals) || !univ.Same(v, srcs[i].vals[n]) {
					return bad("the stream does not decode to the listed documents")
				}
				n++
			}
			if n != len(srcs[i].vals) || (err == io.EOF) != (sp.Tail == "") {
				return bad("the stream decodes to %d documents, then %v", n, err)
			}
		}
	}

	// expectation
	var exp expect
	switch {
	case usage:
		exp = expect{kind: "usage", exit: 2, diags: 1}
	case o.indent != nil && (*o.indent > 9 || *o.indent < 0):
		exp = expect{kind: "indent", exit: 5, diags: 1}
	case len(o.argFiles) > 0:
		// the file of --slurpfile / --rawfile is read before anything runs; a
		// directory fails at the first read: one diagnostic, status 5, no output
		exp = expect{kind: "argfile", exit: 5, diags: 1, pats: []string{"is a directory"}}
	default:
		text := "."
		if len(rest) >= 1 {
			text = strings.TrimSpace(rest[0])
		}
		q, err := gojq.Parse(text)
		if err != nil {
			exp = expect{kind: "query", exit: 3, diags: 1}
			break
		}
		var units []any
		for _, src := range srcs {
			vals := src.vals
			if o.stream {
				if src.spec.Tail != "" && !streamTail[src.spec.Tail] {
					return bad("under --stream only a tail that fails before any event is modelled (truncated documents are C16's)")
				}
				vals = nil
				for i, d := range src.vals {
					if !keysSorted(src.spec.Docs[i]) {
						return bad("--stream with unsorted or repeated keys in %q", src.spec.Docs[i])
					}
					e, err := eventsOf(d)
					if err != nil {
						return bad("tostream: %v", err)
					}
					vals = append(vals, e...)
				}
			}
			units = append(units, vals...)
			if pat := errPattern(o, src.spec); pat != "" {
				units = append(units, tailError{id: len(units), pat: pat})
			}
		}
		mkStream := func() *stream { return newStream(o, units) }
		if o.rawIn && o.slurp { // -R -s: the text of all sources as one string
			var all strings.Builder
			units = []any{nil}
			for _, src := range srcs {
				if pat := errPattern(o, src.spec); pat != "" {
					units[0] = tailError{id: 0, pat: pat}
					break
				}
				all.Write(src.content)
			}
			if units[0] == nil {
				units[0] = all.String()
			}
			mkStream = func() *stream { return &stream{items: append([]any{}, units...)} }
		}
		st := mkStream()
		code, err := gojq.Compile(q, gojq.WithInputIter(st),
			gojq.WithFunction("debug", 0, 0, func(v any, _ []any) any { st.debug(v); return v }),
			gojq.WithFunction("stderr", 0, 0, func(v any, _ []any) any { st.stderr(v); return v }))
		if err != nil {
			exp = expect{kind: "query", exit: 3, diags: 1}
			break
		}
		exp = loop(o, st, libRunner(code, st))
		exp.events = len(units)
		exp.fileErrEarly = fileErrEarly
		if exp.panic != "" {
			return verdict{msg: "the library panicked: " + clip(exp.panic), o: o, exp: exp}
		}
		if exp.harness != "" {
			return verdict{discard: exp.harness, o: o, exp: exp}
		}
		if c.Items != nil && len(rest) >= 1 && rest[0] == c.Text {
			st2 := mkStream()
			alg := loop(o, st2, algRunner(c.Items, st2))
			var d string
			switch {
			case !bytes.Equal(alg.stdout, exp.stdout):
				d = fmt.Sprintf("outputs %q vs %q", clip(string(alg.stdout)), clip(string(exp.stdout)))
			case alg.exit != exp.exit:
				d = fmt.Sprintf("status %d vs %d", alg.exit, exp.exit)
			case alg.halted != exp.halted || alg.haltMsg != exp.haltMsg:
				d = fmt.Sprintf("halt message %q vs %q", alg.haltMsg, exp.haltMsg)
			case alg.diags != exp.diags || alg.tailErr != exp.tailErr:
				d = fmt.Sprintf("%d vs %d diagnostics", alg.diags, exp.diags)
			case len(alg.msgs) != len(exp.msgs):
				d = fmt.Sprintf("%d vs %d runtime errors", len(alg.msgs), len(exp.msgs))
			default:
				for i := range alg.msgs {
					if alg.msgs[i] != "" && alg.msgs[i] != exp.msgs[i] {
						d = fmt.Sprintf("error message %q vs %q", alg.msgs[i], exp.msgs[i])
					}
				}
			}
			if d != "" {
				return verdict{msg: fmt.Sprintf("gojq %q: what the query text requests and what the library yields differ (requested vs library): %s", args, d), o: o, exp: exp}
			}
		}
	}

	// the command
	opt := cmdline.Opt{Stdin: input}
	if len(c.Files) > 0 || len(c.Dirs) > 0 {
		dir, err := os.MkdirTemp("", "c15-files-")
		if err != nil {
			return verdict{discard: "scratch-directory", o: o, exp: exp}
		}
		defer os.RemoveAll(dir)
		for _, src := range srcs {
			var err error
			switch src.spec.Kind {
			case "file":
				err = os.WriteFile(filepath.Join(dir, src.name), src.content, 0o644)
			case "dir":
				err = os.Mkdir(filepath.Join(dir, src.name), 0o755)
			}
			if err != nil {
				return verdict{discard: "scratch-directory", o: o, exp: exp}
			}
		}
		for _, d := range c.Dirs {
			if err := os.Mkdir(filepath.Join(dir, d), 0o755); err != nil {
				return verdict{discard: "scratch-directory", o: o, exp: exp}
			}
		}
		opt.Dir = dir
	}
	r := cmdline.Run(opt, args...)
	if r.TimedOut {
		return verdict{discard: "cli-timeout", o: o, exp: exp}
	}
	v := verdict{o: o, exp: exp}
	desc := clip(string(input))
	if len(c.Files) > 0 {
		desc = ""
		for _, src := range srcs {
			if src.spec.Kind == "file" || src.spec.Kind == "stdin" {
				desc += src.name + "=" + clip(string(src.content)) + "; "
			}
		}
	}
	where := fmt.Sprintf("gojq %q on %q", args, desc)
	if strings.Contains(r.Stderr, "goroutine ") && (strings.Contains(r.Stderr, "panic:") || strings.Contains(r.Stderr, "fatal error:")) || r.Exit < 0 {
		v.msg = fmt.Sprintf("%s: the command crashed (exit %d): %s", where, r.Exit, clip(r.Stderr))
		return v
	}
	if r.Stdout != string(exp.stdout) {
		i := firstDiff([]byte(r.Stdout), exp.stdout)
		v.msg = fmt.Sprintf("%s: stdout differs from the rendered library outputs at byte %d: got %q, want %q (stderr %q, exit %d)",
			where, i, clip(r.Stdout[max(0, min(i, len(r.Stdout))-40):]), clip(string(exp.stdout[max(0, min(i, len(exp.stdout))-40):])), clip(r.Stderr), r.Exit)
		return v
	}
	if r.Exit != exp.exit {
		v.msg = fmt.Sprintf("%s: exit status %d, want %d (%s; stderr %q)", where, r.Exit, exp.exit, exp.kind, clip(r.Stderr))
		return v
	}
	switch {
	case exp.diags == 0 && r.Stderr != exp.haltMsg:
		v.msg = fmt.Sprintf("%s: stderr is %q, want exactly the halt message %q (no diagnostic is due)", where, clip(r.Stderr), exp.haltMsg)
	case exp.diags > 0 && (len(r.Stderr) <= len(exp.haltMsg) || !strings.HasSuffix(r.Stderr, exp.haltMsg)):
		v.msg = fmt.Sprintf("%s: %d diagnostics are due (then the halt message %q) but stderr is %q", where, exp.diags, exp.haltMsg, clip(r.Stderr))
	default:
		for _, m := range exp.msgs {
			if m != "" && !strings.Contains(r.Stderr, m) {
				v.msg = fmt.Sprintf("%s: stderr %q lacks the diagnostic %q", where, clip(r.Stderr), m)
				break
			}
		}
		due := map[string]int{}
		for _, p := range exp.pats {
			due[p]++
		}
		for _, p := range exp.pats {
			if v.msg == "" && strings.Count(r.Stderr, p) < due[p] {
				v.msg = fmt.Sprintf("%s: %d input diagnostics containing %q are due, stderr is %q", where, due[p], p, clip(r.Stderr))
			}
		}
	}
	return v
}

func checkCase(c cliCase) string { return judge(c).msg }

// ---------------------------------------------------------------------------
// bookkeeping

// longestIndent: the longest run of blanks or tabs right after a line feed.
func longestIndent(out []byte) int {
	best := 0
	for i := 0; i < len(out); i++ {
		if out[i] != '\n' {
			continue
		}
		j := i + 1
		for j < len(out) && (out[j] == ' ' || out[j] == '\t') {
			j++
		}
		best = max(best, j-i-1)
		i = j - 1
	}
	return best
}

// deepDoc nests leaf d levels deep; kinds[i%len(kinds)] is 'a' (array) or 'o'
// (object) for level i (0 = outermost); every sib-th level gets a sibling.
func deepDoc(d int, kinds string, leaf string, sib int) string {
	cur := leaf
	for i := d - 1; i >= 0; i-- {
		withSib := sib > 0 && i%sib == 0
		if kinds[i%len(kinds)] == 'o' {
			if withSib {
				cur = `{"a":` + cur + `,"b":[]}`
			} else {
				cur = `{"a":` + cur + `}`
			}
		} else if withSib {
			if i%2 == 0 {
				cur = `[` + cur + `,1]`
			} else {
				cur = `[{},` + cur + `]`
			}
		} else {
			cur = `[` + cur + `]`
		}
	}
	return cur
}

// deepQuery manufactures the nesting inside the query.
func deepQuery(d int, shape string, leaf string, sib bool) string {
	wrap := map[string]string{"arr": `[.]`, "obj": `{a: .}`, "alt": `if $i % 2 == 0 then [.] else {a: .} end`}[shape]
	if sib {
		wrap = `if $i % 5 == 0 then [., $i] else ` + wrap + ` end`
	}
	return fmt.Sprintf(`reduce range(%d) as $i (%s; %s)`, d, leaf, wrap)
}

var deepDepths = []int{1, 8, 9, 10, 16, 17, 18, 19, 20, 32, 33, 63, 64, 65, 66, 70, 100, 128, 129, 130, 140, 200, 260}
var deepLeaves = []string{`0`, `"s"`, `null`, `true`, `1.5`, `[]`, `{}`, `false`, `-0`, `1e2`, `""`, `[1,2]`, `{"k":null}`}
var deepLayouts = [][]string{{"-c"}, {"--indent", "0"}, {"--indent", "1"}, {"--indent", "3"}, {"--indent", "9"}, {"-r"}, {"-j"}, {"-s"}, {"--indent", "5"},
	{"--indent", "2"}, {"--indent", "4"}, {"--indent", "6"}, {"--indent", "8"}, {"--tab", "-s"}, {"-e", "--indent=7"}, {"--raw-output0"}}

var longNumberRE = regexp.MustCompile(`-?[0-9][0-9.eE+-]{64,}`)

func hasLongNumber(c cliCase) bool {
	for _, d := range c.Docs {
		if len(d) >= 65 && longNumberRE.MatchString(d) {
			return true
		}
	}
	for _, f := range c.Files {
		for _, d := range f.Docs {
			if len(d) >= 65 && longNumberRE.MatchString(d) {
				return true
			}
		}
	}
	return false
}

func layoutClass(o opts) string {
	switch {
	case o.compact:
		return "compact"
	case o.tab:
		return "tab"
	case o.indent != nil:
		return "indent" + strconv.Itoa(*o.indent)
	}
	return "default"
}

func rawClass(o opts) string {
	switch {
	case o.raw0:
		return "raw0"
	case o.join:
		return "join"
	case o.raw:
		return "raw"
	}
	return "json"
}

// do runs one case through the oracle and records it.  It returns the message
// of a violation.
func do(sub string, c cliCase) string {
	rec.Eval()
	v := judge(c)
	if v.discard != "" {
		rec.Discard(v.discard)
		return ""
	}
	e, o := v.exp, v.o
	rec.Class(sub + "/kind:" + e.kind)
	if e.kind == "run" {
		rec.Class("layout/" + layoutClass(o))
		rec.Class("strings/" + rawClass(o))
		if !o.stream {
			rec.Class(fmt.Sprintf("mode/e=%t,n=%t,s=%t", o.exit, o.null, o.slurp))
		}
		rec.Class("exit/" + strconv.Itoa(e.exit))
		if e.halted {
			rec.Class(fmt.Sprintf("event/halt(mid=%t,msg=%t)", e.haltMid, e.haltMsg != ""))
		}
		if e.errMid {
			rec.Class("event/error-then-more-inputs")
		}
		if e.errLast {
			rec.Class("event/error-on-last-input")
		}
		if e.tailErr {
			rec.Class("event/malformed-tail-reached")
		}
		if e.nulErr {
			rec.Class(fmt.Sprintf("event/nul-rejected(more inputs=%t)", e.nulMid))
		}
		if e.notes > 0 {
			rec.Class("event/debug-or-stderr-message")
		}
		if e.diags > 1 {
			rec.Class("event/several-diagnostics")
		}
		if n := longestIndent(e.stdout); n >= 100 {
			rec.Class(fmt.Sprintf("deep/longest indentation>=129:%t,layout=%s", n >= 129, layoutClass(o)))
			if n >= 129 {
				rec.NT(fmt.Sprintf("%q|%x", c.argv(), evid.Hash(strings.Join(c.Docs, "|"))))
				rec.Class("nontrivial")
			}
		}
		if hasLongNumber(c) {
			rec.Class(fmt.Sprintf("numbers/literal of 65 bytes or more,layout=%s,stream=%t,files=%t", layoutClass(o), o.stream, len(c.Files) > 0))
			if e.outputs > 0 && !o.yaml && !o.rawIn {
				key, _ := json.Marshal([]any{c.Docs, c.Files})
				rec.NT(fmt.Sprintf("%q|%s", c.argv(), key))
				rec.Class("nontrivial")
			}
		}
		if o.rawIn {
			all := append([]lineSpec{}, c.Lines...)
			for _, f := range c.Files {
				all = append(all, f.Lines...)
			}
			longest := 0
			for _, l := range all {
				longest = max(longest, len(l.build()))
			}
			size := "<=4096"
			switch {
			case longest > 65536:
				size = ">65536"
			case longest > 8192:
				size = ">8192"
			case longest > 4096:
				size = ">4096"
			}
			rec.Class(fmt.Sprintf("raw-input/longest-line%s,files=%t,n=%t,s=%t", size, len(c.Files) > 0, o.null, o.slurp))
			if longest > 4096 && !o.slurp && e.outputs > 0 {
				key, _ := json.Marshal([]any{c.Lines, c.NoNL, c.Files})
				rec.NT(fmt.Sprintf("%q|%s", c.argv(), key))
				rec.Class("nontrivial")
			}
		} else if len(c.Files) > 0 {
			mode := "json"
			if o.yaml {
				mode = "yaml"
			} else if o.stream {
				mode = "stream"
			}
			rec.Class(fmt.Sprintf("files/%s,n=%t,s=%t,error-before-last-file=%t", mode, o.null, o.slurp, e.fileErrEarly))
			if e.fileErrEarly {
				key, _ := json.Marshal(c.Files)
				rec.NT(fmt.Sprintf("%q|%s", c.argv(), key))
				rec.Class("nontrivial")
			}
		} else if o.stream {
			keeps := o.slurp || o.null && strings.Contains(c.Text, "input")
			rec.Class(fmt.Sprintf("stream/events-kept-alive=%t", keeps))
			if keeps && e.events >= 3 && e.exit == 0 {
				rec.NT(fmt.Sprintf("%q|%q|%q", c.argv(), c.Docs, c.Sep+"/"+c.End))
				rec.Class("nontrivial")
			}
		} else if e.units >= 2 && (e.errMid || e.haltMid || o.exit && (e.exit == 1 || e.exit == 4)) {
			rec.NT(fmt.Sprintf("%q|%q|%q|%q", c.argv(), c.Docs, c.Tail, c.Sep+"/"+c.End))
			rec.Class("nontrivial")
		}
	} else {
		rec.Class("exit/" + strconv.Itoa(e.exit))
	}
	in := string(c.stdin())
	if len(c.Lines) > 0 {
		in = clip(string(rawText(c.Lines, c.NoNL)))
	}
	for i, f := range c.Files {
		if len(f.Lines) > 0 {
			in += fmt.Sprintf("[%s %s: %q] ", f.Kind, c.fileNames()[i], clip(string(rawText(f.Lines, f.NoNL))))
			continue
		}
		in += fmt.Sprintf("[%s %s: %q tail %q] ", f.Kind, c.fileNames()[i], f.Docs, f.Tail)
	}
	rec.Sample(map[string]any{"argv": c.argv(), "stdin": clip(in), "exit": e.exit, "stdout": clip(string(e.stdout))})
	return v.msg
}

// ---------------------------------------------------------------------------
// pools

var docPool = []string{`1`, `2`, `3`, `0`, `null`, `false`, `true`, `"a"`, `"x y"`, `""`, `"a\u0000b"`, `"l1\nl2"`, `"é☃"`, `"\"q\"\\"`,
	`[]`, `{}`, `[1,[2]]`, `{"b":1,"a":[]}`, `[null]`, `[false,"s"]`, `{"a":{"b":[1,2]}}`, `1.0`, `1e2`, `100000000000000000000`, `-0`, `0.10`,
	`[1.0,"a\u0000"]`, `-5`, `"gojq: x"`, `[[[[]]]]`, `{"":null}`, `"t\tb"`, `[1,2,3]`, `{"a":"z"}`, `"\u0000"`, `[[],{}]`, `1.5`, `"null"`}

// number literals with long spellings: the command has to print the literal
// the library passes through, whatever its length.

// digits gives n decimal digits determined by seed, the first one not zero.
func digits(n, seed int) string {
	b := make([]byte, max(n, 0))
	x := uint32(seed)*2654435761 + 12345
	for i := range b {
		x = x*1103515245 + 12345
		b[i] = byte('0' + (x>>16)%10)
	}
	if n > 0 && b[0] == '0' {
		b[0] = byte('1' + seed%9)
	}
	return string(b)
}

// longNumber spells one literal: shape int | dec | mant | mantfrac | tiny.
func longNumber(shape string, n, seed int, neg bool) string {
	var s string
	switch shape {
	case "dec":
		s = digits(1+seed%3, seed+1) + "." + digits(n, seed)
	case "mant":
		s = digits(n, seed) + "e" + strconv.Itoa(seed%9)
	case "mantfrac":
		s = "1." + digits(n, seed) + "E-" + strconv.Itoa(1+seed%7)
	case "tiny":
		s = "0." + strings.Repeat("0", n) + "1"
	default:
		s = digits(n, seed)
	}
	if neg {
		s = "-" + s
	}
	return s
}

var numberShapes = []string{"int", "dec", "mant", "mantfrac", "tiny"}
var numberLens = []int{30, 63, 64, 65, 66, 100, 300, 70, 80}

var longNumberDocs = func() []string {
	var out []string
	for i, n := range numberLens {
		a := longNumber(numberShapes[i%len(numberShapes)], n, 3*i+1, i%2 == 1)
		b := longNumber(numberShapes[(i+2)%len(numberShapes)], n, 5*i+2, i%3 == 0)
		out = append(out, []string{a, `[` + b + `,1,` + a + `]`, `{"a":` + a + `,"b":{"c":[` + b + `]}}`}[i%3])
	}
	return out
}()

func init() { docPool = append(docPool, longNumberDocs...) }

var simpleDocs = []string{`1`, `2`, `3`, `null`, `false`, `true`, `"a"`, `""`, `[]`, `{}`, `[1,[2]]`, `0`, `"x y"`}

var constPool = []string{`1`, `2`, `0`, `7`, `null`, `false`, `true`, `"s"`, `"a b"`, `""`, `"a\u0000b"`, `"l1\nl2"`, `[]`, `{}`, `[1,[2]]`,
	`{"b":1,"a":[]}`, `[null]`, `"é☃"`, `"\"q\""`, `{"k":{"z":[false,"s"]}}`, `["a\u0000b"]`, `"\u0000"`, `[[],{}]`}

var stringConsts = []string{`"s"`, `"a b"`, `""`, `"a\u0000b"`, `"l1\nl2"`, `"é☃"`, `"\"q\""`, `"\u0000"`, `"\\"`, `"\t"`, `"null"`, `"end\u0000"`, `"\u0000\n"`}

var falsyConsts = []string{`null`, `false`, `null`, `false`, `0`, `""`, `[]`, `true`}

var payloads = []string{``, ``, `"x"`, `"boom now"`, `null`, `{"a":1}`, `[1,"b"]`, `"bye\n"`, `""`, `7`, `false`, `"l1\nl2\n"`}

var haltCodes = []int{0, 1, 5, 255, 256, -1, 300, 2, 3, 4, 512, -256, 1000, 44}

var tails = []string{`{"a":`, `]`, `tru`, `"abc`, `[1,]`, `{"a" 1}`, `nul`, `@`, `}`, `[1 2]`, `{"a":1,}`, `'x'`, `[`}

var seps = []string{"\n", "\n", " ", "\n\n", "\t", " \r\n"}

// free-text queries: only the library decides what they yield
var freeQueries = []string{`.[]?`, `..`, `range(3)`, `first(., halt)`, `limit(1; ., error("x"))`, `try error("x") catch .`, `error("x")?`, `.a`, `.a?`,
	`try halt catch "c"`, `try halt_error catch "c"`, `(halt_error) // 1`, `[1] as [$a] ?// $a | ($a, halt)`, `label $f | ., break $f, 1`,
	`reduce .[]? as $x (0; . + 1)`, `"v=\(.)"`, `tojson`, `tostring`, `@json "j\(.)"`, `length`, `not`, `select(.)`, `select(. == null)`, `., not`,
	`if . then "t" else false end`, `[.] | length`, `keys?`, `type`, `{a: .}`, `[., .]`, `first(inputs)`, `[limit(2; inputs)]`, `input | input`,
	`., (input | not)`, `try input catch "none"`, `nan`, `[nan, infinite]`, `1/3`, `3.0`, `100000000000000000000 + 1`, `"é"`, `@base64`,
	`$__loc__`, `getpath(["a","b"])?`, `paths`, `to_entries?`, `tojson | fromjson`, `error`, `error(null)`, `null | error`, `{} | error`,
	`halt_error("x")`, `halt_error(1.5)`, `"m" | halt_error(1e300)`, `halt_error(-1e300)`, `.[0]`, `.[]  `, `  .`, `. as $x | $x, $x`,
	`def f: ., halt; f`, `def f: error("in f"); 1, f, 2`, `foreach (1,2) as $x (0; . + $x; ., error("fe"))`, `[inputs] | length`,
	`input, input, input`, `(1, null) | select(. == null)`, `., halt_error(0)`, `empty, false`, `if . == null then halt_error else . end`,
	`"a" * 3`, `ascii_downcase?`, `tojson | halt_error(3)`, `[.[]?] | .[0]`, `label $out | (., break $out)`, `isvalid(error)?`, `try (1, error("x"), 3) catch "c"`,
	`.[]?, error({"in": .})`, `first(empty)`, `last(inputs)`, `input as $x | [., $x]`, `[., input]?`, `inputs | select(. == 2) | halt_error(9)`,
	`debug`, `stderr`, `debug("m: \(.)")`, `.[]? | debug | select(. == 1)`, `debug, error("after")`, `[.[]? | stderr]`, `debug | halt`}

// queries that must be refused before anything runs (the library decides; the
// command has to turn the refusal into status 3)
var badQueries = []string{`.[`, `1 +`, `if . then 1`, `{`, `"abc`, `. |`, `1 as x | x`, `)`, `try`, `reduce . as $x`, `foo`, `$x`, `foo(1)`, `break $l`,
	`import "nonexistent" as m; .`, `. as [$a] | $b`, `include "nope"; .`, `.a.[`, `def f: ; f`, `1, , 2`, `@foo`, `%`, `label $a | break $b`, `..a`, `.[1:2:3]`}

var badArgs = []string{`--bogus`, `-x`, `-rx`, `--tab=1`, `--exit-status=true`, `--indent=foo`, `--indent=`, `--compact-output=1`, `--sort-keys`, `-S`, `-a`, `--seq`,
	`--indent=1.5`, `--raw-output1`, `--null-input=`, `-nq`, `--ascii-output`, `--unbuffered`}

// documents whose YAML reading (flow style after a "---" line) is the value
// of the JSON text: small integers, plain strings, null, booleans, containers
var yamlDocs = []string{`1`, `2`, `0`, `-5`, `null`, `true`, `false`, `"a"`, `"x y"`, `""`, `[]`, `{}`, `[1,[2]]`, `{"a":[],"b":1}`, `[null]`,
	`[false,"s"]`, `{"a":{"b":[1,2]}}`, `[1,2,3]`, `{"a":"z"}`}

// YAML texts that are refused only when the end of the stream is reached (an
// unclosed flow collection), so that every document before them is complete
var yamlTails = []string{`[1, 2`, `{a: 1`}

// JSON tails that fail before the --stream parser has produced any event
var streamTails = []string{`]`, `@`, `}`, `'x'`, `tru`, `nul`}

var yamlSafe, yamlTail, streamTail = setOf(yamlDocs), setOf(yamlTails), setOf(streamTails)

func setOf(xs []string) map[string]bool {
	m := map[string]bool{}
	for _, x := range xs {
		m[x] = true
	}
	return m
}

const tryInput5 = `(try input catch "E"), (try input catch "E"), (try input catch "E"), (try input catch "E"), (try input catch "E")`

var fileQueries = []string{`.`, `[inputs]`, tryInput5, `., (try input catch "E")`, `[., (try input catch "E")]`, `first(inputs)`, `[limit(2; inputs)]`,
	`try input catch "E"`, `.[]?`, `[.[]?]`, `length`, `input`, `inputs`, `., input`, `[inputs] | length`, `reduce inputs as $x (0; . + 1)`, `tojson`,
	`[., input]`, `[try input catch "E", try input catch "E"]`, `(try input catch "E") as $a | [$a, (try input catch "E")]`}

func ip(n int) *int { return &n }

// ---------------------------------------------------------------------------
// generators

type bias struct {
	val, str, falsy, dot, iter, err, halt, empty, input, arr, cond, note, nul int
}

func weighted(t *rapid.T, label string, ws map[string]int) string {
	keys := make([]string, 0, len(ws))
	for k := range ws {
		keys = append(keys, k)
	}
	sort.Strings(keys)
	var bag []string
	for _, k := range keys {
		for i := 0; i < ws[k]; i++ {
			bag = append(bag, k)
		}
	}
	return rapid.SampledFrom(bag).Draw(t, label)
}

func genItems(t *rapid.T, b bias, guards []string, depth, minLen int) []item {
	n := rapid.IntRange(minLen, 4-depth).Draw(t, "items")
	out := make([]item, 0, n)
	for i := 0; i < n; i++ {
		ws := map[string]int{"val": b.val, "str": b.str, "falsy": b.falsy, "dot": b.dot, "iter": b.iter, "err": b.err, "halt": b.halt, "herr": 2 * b.halt,
			"empty": b.empty, "input": b.input, "inputs": b.input, "debug": b.note, "stderr": b.note, "nul": b.nul}
		if depth < 2 {
			ws["arr"] = b.arr
			ws["if"] = b.cond
		}
		switch k := weighted(t, "kind", ws); k {
		case "val":
			out = append(out, item{K: "val", V: rapid.SampledFrom(constPool).Draw(t, "const")})
		case "str":
			out = append(out, item{K: "val", V: rapid.SampledFrom(stringConsts).Draw(t, "string")})
		case "falsy":
			out = append(out, item{K: "val", V: rapid.SampledFrom(falsyConsts).Draw(t, "falsy")})
		case "nul":
			out = append(out, item{K: "val", V: rapid.SampledFrom([]string{`"a\u0000b"`, `"\u0000"`, `"end\u0000"`, `"\u0000start"`}).Draw(t, "nulstring")})
		case "err":
			out = append(out, item{K: "err", V: rapid.SampledFrom(payloads).Draw(t, "payload")})
		case "herr":
			it := item{K: "herr", V: rapid.SampledFrom(payloads).Draw(t, "payload")}
			if rapid.IntRange(0, 3).Draw(t, "withcode") > 0 {
				it.N = ip(rapid.SampledFrom(haltCodes).Draw(t, "code"))
			}
			out = append(out, it)
		case "arr":
			out = append(out, item{K: "arr", Then: genItems(t, b, guards, depth+1, 0)})
		case "if":
			out = append(out, item{K: "if", V: rapid.SampledFrom(guards).Draw(t, "guard"),
				Then: genItems(t, b, guards, depth+1, 0), Else: genItems(t, b, guards, depth+1, 0)})
		default:
			out = append(out, item{K: k})
		}
	}
	return out
}

type streamBias struct {
	maxDocs  int
	tailOdds int // 1 in tailOdds+1 ... 0 = never
	simple   bool
	hostile  bool
}

func genStream(t *rapid.T, c *cliCase, b streamBias) {
	n := rapid.IntRange(0, b.maxDocs).Draw(t, "docs")
	c.Docs = make([]string, 0, n)
	for i := 0; i < n; i++ {
		switch k := rapid.IntRange(0, 19).Draw(t, "dockind"); {
		case b.simple || k < 8:
			c.Docs = append(c.Docs, rapid.SampledFrom(simpleDocs).Draw(t, "doc"))
		case k == 8 && b.hostile:
			s := gen.Str(6).Draw(t, "str")
			j, _ := json.Marshal(s)
			c.Docs = append(c.Docs, string(j))
		case k == 9 && b.hostile:
			s := gen.Str(4).Draw(t, "str")
			j, _ := json.Marshal([]any{s, map[string]any{s: s}})
			c.Docs = append(c.Docs, string(j))
		case k == 10 && rapid.IntRange(0, 5).Draw(t, "big") == 0:
			c.Docs = append(c.Docs, `"`+strings.Repeat("z", 17000)+`"`)
		default:
			c.Docs = append(c.Docs, rapid.SampledFrom(docPool).Draw(t, "doc"))
		}
	}
	c.Sep = rapid.SampledFrom(seps).Draw(t, "sep")
	if b.tailOdds > 0 && rapid.IntRange(0, b.tailOdds).Draw(t, "tail") == 0 {
		c.Tail = rapid.SampledFrom(tails).Draw(t, "tailtext")
	}
	c.End = rapid.SampledFrom([]string{"", "\n", "\n", " "}).Draw(t, "end")
}

func guardsOf(c cliCase) []string {
	g := []string{}
	for _, d := range c.Docs {
		for _, s := range simpleDocs {
			if d == s {
				g = append(g, d)
			}
		}
	}
	if len(g) == 0 {
		return simpleDocs
	}
	return append(g, `2`, `null`)
}

// flag atoms: (short, long)
type atom struct{ short, long string }

var atoms = []atom{{"r", "--raw-output"}, {"j", "--join-output"}, {"", "--raw-output0"}, {"c", "--compact-output"}, {"", "--tab"},
	{"", "--indent"}, {"e", "--exit-status"}, {"n", "--null-input"}, {"s", "--slurp"}}

// odds[i]: the flag is present with probability odds[i]/8.
func genFlags(t *rapid.T, c *cliCase, odds [9]int) {
	var picked []int
	for i := range atoms {
		if rapid.IntRange(0, 7).Draw(t, "flag"+atoms[i].long) >= 8-odds[i] {
			picked = append(picked, i)
		}
	}
	if len(picked) > 0 && rapid.IntRange(0, 7).Draw(t, "dup") == 7 {
		picked = append(picked, rapid.SampledFrom(picked).Draw(t, "which"))
	}
	if len(picked) > 1 {
		picked = rapid.Permutation(picked).Draw(t, "order")
	}
	var args []string
	cluster := false
	for _, i := range picked {
		a := atoms[i]
		switch {
		case a.long == "--indent":
			n := rapid.IntRange(0, 9).Draw(t, "indent")
			if rapid.Bool().Draw(t, "eq") {
				args = append(args, "--indent="+strconv.Itoa(n))
			} else {
				args = append(args, "--indent", strconv.Itoa(n))
			}
			cluster = false
		case a.short != "" && rapid.IntRange(0, 2).Draw(t, "long") < 2:
			if cluster && rapid.Bool().Draw(t, "join") {
				args[len(args)-1] += a.short
			} else {
				args = append(args, "-"+a.short)
			}
			cluster = true
		default:
			args = append(args, a.long)
			cluster = false
		}
	}
	// where the query goes; never between "--indent" and its value
	cut := len(args)
	if rapid.IntRange(0, 3).Draw(t, "after") == 3 {
		cut = rapid.IntRange(0, len(args)).Draw(t, "cut")
		if cut > 0 && args[cut-1] == "--indent" {
			cut--
		}
	}
	c.Pre, c.Post = args[:cut:cut], append([]string{}, args[cut:]...)
	if len(c.Post) == 0 {
		c.Post = nil
		c.Dash = rapid.IntRange(0, 9).Draw(t, "dash") == 9
	}
}

// genDocText prints a complete document with sorted, distinct object keys;
// arrays mostly have two or more elements.
func genDocText(t *rapid.T, depth int) string {
	k := rapid.IntRange(0, 9).Draw(t, "shape")
	if depth >= 3 && k < 7 {
		k = 9
	}
	switch {
	case k < 5: // array
		n := rapid.SampledFrom([]int{2, 3, 2, 4, 1, 0, 5}).Draw(t, "len")
		parts := make([]string, n)
		for i := range parts {
			parts[i] = genDocText(t, depth+1)
		}
		return "[" + strings.Join(parts, ",") + "]"
	case k < 7: // object
		keys := []string{``, `a`, `b`, `c`, `k1`, `z z`}
		var parts []string
		for _, key := range keys {
			if rapid.IntRange(0, 2).Draw(t, "key") == 0 {
				parts = append(parts, `"`+key+`":`+genDocText(t, depth+1))
			}
		}
		return "{" + strings.Join(parts, ",") + "}"
	}
	return rapid.SampledFrom([]string{`1`, `2`, `0`, `null`, `false`, `true`, `"a"`, `""`, `"x y"`, `1.0`, `1e2`, `-0`, `100000000000000000000`, `"a\u0000b"`, `"é"`, `[]`, `{}`,
		longNumber("int", 65, 4, false), longNumber("dec", 70, 9, true), longNumber("mant", 80, 2, true), longNumber("int", 300, 5, true), longNumber("tiny", 66, 0, false)}).Draw(t, "scalar")
}

// queries that keep several inputs alive at once (or, as controls, do not)
var streamQueries = []string{`.`, `[inputs]`, `input as $a | input as $b | [$a,$b]`, `reduce inputs as $e ([]; . + [$e])`, `[., input]`, `., input`,
	`[limit(3; inputs)]`, `fromstream(inputs)`, `[inputs] | length`, `. as $x | input as $y | [$x, $y]`, `.[]?`, `fromstream(.[])`,
	`[inputs | select(length == 2)]`, `foreach inputs as $e (null; $e; [$e, .])`, `first(inputs), [inputs]`, `input, [inputs]`,
	`[inputs] | map(.[0])`, `[inputs | .[0]] | unique`, `[., inputs]`, `[inputs][1:]`, `input as $a | [inputs] | .[0], $a`,
	`. as [$p, $v] | {p: $p, v: $v}`, `[.[]? | .[0]]`, `reduce (., inputs) as $e ({}; .[$e[0] | tojson] = $e[1])`, `[inputs] | reverse`,
	`last(inputs)`, `[inputs] | .[0][0]`, `input as $a | input as $b | input as $c | $a, $b, $c`, `getpath([0,0])?`, `tojson`}

var streamArgs = [][]string{{"--stream"}, {"--stream", "-s"}, {"--stream", "-n"}, {"-n", "--stream", "-c"}, {"-c", "--stream", "--slurp"},
	{"--stream", "-c"}, {"-s", "--stream", "-n", "-c"}, {"--stream", "--tab", "-n"}}

var streamDocs = [][]string{{`[1,2,[3,4]]`}, {`[1,2]`, `{"a":[true,false,null],"b":{"c":[[1,2],[3]]}}`}, {`3`, `"s"`, `[[],{},[0,[1,[2,3]]]]`}, {`{"a":1,"b":2}`, `[]`, `[[1,2],[3,4]]`},
	{`[{"a":[1,2]},{"a":[3,4]},5]`}, {}}

func algQuery(t *rapid.T, c *cliCase, b bias) {
	c.Items = genItems(t, b, guardsOf(*c), 0, 1)
	c.Text = itemsText(c.Items)
}

// ---------------------------------------------------------------------------
// bounded-exhaustive part: every subset of the nine flags

type scenario struct {
	docs  []string
	tail  string
	items []item
}

func val(v string) item  { return item{K: "val", V: v} }
func kind(k string) item { return item{K: k} }
func cond(v string, th, el []item) item {
	return item{K: "if", V: v, Then: th, Else: el}
}

var scenarios = []scenario{
	{docs: []string{`"a"`, `[1,{"b":[]}]`, `null`}, items: []item{kind("dot")}},
	{docs: []string{`1`, `2`, `3`}, items: []item{cond(`2`, []item{{K: "err", V: `"x"`}}, []item{kind("dot"), val(`"s"`)})}},
	{docs: []string{`"x"`, `2`, `false`}, items: []item{cond(`2`, []item{{K: "herr", V: `"bye\n"`, N: ip(300)}}, []item{kind("dot")})}},
	{docs: []string{`[1,2]`, `3`, `{"a":"z"}`}, items: []item{kind("iter")}},
	{docs: []string{`1`, `2`}, tail: `{"a":`, items: []item{kind("dot"), kind("input")}},
	{docs: []string{`"a\u0000b"`, `"c"`}, items: []item{kind("dot"), val(`["a\u0000b"]`)}},
	{docs: []string{`1`, `[2]`, `"s"`}, tail: `]`, items: []item{kind("inputs")}},
	{docs: []string{}, items: []item{kind("dot")}},
	{docs: []string{`1`, `null`}, items: []item{kind("dot"), kind("empty")}},
	{docs: []string{`1`, `2`, `3`}, items: []item{{K: "arr", Then: []item{kind("dot"), kind("input")}}}},
	{docs: []string{`true`, `false`}, items: []item{cond(`false`, []item{kind("halt")}, []item{kind("dot"), val(`false`)})}},
	{docs: []string{`1`, `2`}, items: []item{val(`{"k":{"z":[false,"s"]}}`), cond(`1`, []item{{K: "herr"}}, []item{val(`null`)})}},
	{docs: []string{`"s"`, `{"a":[1,{"b":2}]}`}, tail: `tru`, items: []item{kind("dot")}},
	{docs: []string{`null`, `1`}, items: []item{cond(`null`, []item{{K: "err"}}, []item{{K: "herr", V: `{"a":1}`, N: ip(-1)}})}},
}

func flagSet(mask, indent int) []string {
	var args []string
	for i, a := range atoms {
		if mask&(1<<i) == 0 {
			continue
		}
		switch {
		case a.long == "--indent":
			args = append(args, "--indent", strconv.Itoa(indent))
		case a.short != "":
			args = append(args, "-"+a.short)
		default:
			args = append(args, a.long)
		}
	}
	return args
}

// ---------------------------------------------------------------------------

func replayCase(sub string, raw json.RawMessage) string {
	var c cliCase
	if err := json.Unmarshal(raw, &c); err != nil {
		return "bad replay: " + err.Error()
	}
	return checkCase(c)
}

func selfTest() string {
	for _, d := range append(append([]string{}, docPool...), constPool...) {
		v, err := parseDoc(d)
		if err != nil {
			return fmt.Sprintf("pool text %q: %v", d, err)
		}
		b, err := gojq.Marshal(v)
		if err != nil {
			return err.Error()
		}
		var want bytes.Buffer
		if err := json.Indent(&want, b, "", "   "); err != nil {
			return fmt.Sprintf("pool text %q: %v", d, err)
		}
		if got := pretty(b, "   "); !bytes.Equal(got, want.Bytes()) {
			return fmt.Sprintf("pretty(%s) = %q, encoding/json indents it as %q", b, got, want.Bytes())
		}
	}
	return ""
}

func TestC15(t *testing.T) {
	rec = evid.Open("C15")
	defer rec.Close()
	rec.Replays(replayCase)
	if rec.ReplayPath() != "" {
		return
	}
	if msg := selfTest(); msg != "" {
		t.Fatalf("harness self-test: %s", msg)
	}

	// (E) every subset of the nine flags x scenarios
	indents := []int{2}
	perSet := 3
	if rec.Thorough() {
		indents = []int{0, 1, 3, 7, 9}
		perSet = len(scenarios)
	}
	idx := 0
	complete := true
flagSets:
	for mask := 0; mask < 1<<len(atoms); mask++ {
		for k := 0; k < perSet; k++ {
			for _, ind := range indents {
				if mask&(1<<5) == 0 && ind != indents[0] {
					continue
				}
				idx++
				if !rec.Mine(idx) {
					continue
				}
				if !rec.Thorough() {
					ind = []int{0, 1, 2, 3, 4, 5, 7, 9}[(mask/64+k)%8]
				}
				sc := scenarios[(mask+k*5)%len(scenarios)]
				if rec.Thorough() {
					sc = scenarios[k]
				}
				c := cliCase{Pre: flagSet(mask, ind), Items: sc.items, Text: itemsText(sc.items), Docs: sc.docs, Tail: sc.tail}
				if msg := do("flags", c); msg != "" {
					rec.Direct("flags", c, "%s", msg)
					complete = false
					if rec.Violations() > 12 {
						break flagSets // enough; the other sub-checks still run
					}
				}
			}
		}
	}
	rec.Exhaustive(fmt.Sprintf("all 512 subsets of {-r,-j,--raw-output0,-c,--tab,--indent n,-e,-n,-s} x %d scenarios", perSet), complete)

	// (E2) --stream alone and with -s / -n over fixed documents and queries that
	// keep several events alive
	complete = true
	before := rec.Violations()
streamSets:
	for _, docs := range streamDocs {
		for _, args := range streamArgs {
			for _, q := range streamQueries {
				idx++
				if !rec.Mine(idx) || !rec.Thorough() && idx%5 != 0 {
					continue
				}
				c := cliCase{Pre: args, Text: q, Docs: docs}
				if msg := do("stream-fixed", c); msg != "" {
					rec.Direct("stream-fixed", c, "%s", msg)
					complete = false
					if rec.Violations() > before+6 {
						break streamSets
					}
				}
			}
		}
	}
	if rec.Thorough() {
		rec.Exhaustive(fmt.Sprintf("--stream: %d document sets x %d flag lists x %d queries", len(streamDocs), len(streamArgs), len(streamQueries)), complete)
	}

	// (E3) several file arguments, some ending in a malformed tail, missing,
	// empty or standard input: every source contributes its complete values,
	// then one error, and the next source continues
	file := func(tail string, docs ...string) fileSpec { return fileSpec{Kind: "file", Docs: docs, Tail: tail} }
	jsonSets := [][]fileSpec{
		{file(`{"a":`, `1`, `2`), file("", `3`)},
		{file(""), file(`]`), file("", `"s"`, `[1,[2]]`), file(`tru`, `4`)},
		{file("", `1`), {Kind: "missing"}, {Kind: "stdin", Docs: []string{`9`, `8`}, Sep: " "}, file("", `2`)},
		{file(`]`, `[1,2]`), file("", `{"a":[3,4]}`)},
		{file(`@`), file(`}`, `null`), file("", `false`)},
		// a directory as an operand opens and fails at the first read: first, middle, last, alone
		{{Kind: "dir"}, file("", `1`, `2`)},
		{file("", `1`, `[2,3]`), {Kind: "dir"}, file("", `3`)},
		{file("", `1`, `2`), {Kind: "dir"}},
		{{Kind: "dir"}},
		{{Kind: "dir"}, {Kind: "stdin", Docs: []string{`7`}}, {Kind: "dir"}, {Kind: "missing"}},
	}
	yamlSets := [][]fileSpec{
		{file(`[1, 2`, `1`, `"a"`), file("", `true`)},
		{file(`{a: 1`), file(""), file("", `[1,[2]]`, `{"a":"z"}`)},
		{file("", `2`), {Kind: "stdin", Docs: []string{`"x y"`}, Tail: `[1, 2`}, file("", `null`)},
		{file("", `1`), {Kind: "dir"}, file("", `true`)},
	}
	type fmode struct {
		pre  []string
		text string
	}
	jsonModes := []fmode{{nil, `.`}, {[]string{"-c"}, `.[]?`}, {[]string{"-n", "-c"}, `[inputs]`}, {[]string{"-n"}, tryInput5}, {[]string{"-s", "-c"}, `.`},
		{[]string{"--stream", "-c"}, `.`}, {[]string{"--stream", "-n", "-c"}, `[inputs]`}, {[]string{"--stream", "-n", "-c"}, tryInput5},
		{[]string{"-c"}, `., (try input catch "E")`}, {[]string{"-e"}, `.`}, {[]string{"-r", "-n"}, `inputs`}, {[]string{"-c", "-n", "-s"}, `input`}}
	yamlModes := []fmode{{[]string{"--yaml-input", "-c"}, `.`}, {[]string{"--yaml-input", "-n", "-c"}, `[inputs]`}, {[]string{"-s", "--yaml-input"}, `.`},
		{[]string{"-n", "--yaml-input"}, tryInput5}}
	complete = true
	before = rec.Violations()
	runFixed := func(sets [][]fileSpec, modes []fmode) {
		for _, set := range sets {
			if rec.Violations() > before+6 {
				return
			}
			for _, m := range modes {
				idx++
				if !rec.Mine(idx) {
					continue
				}
				c := cliCase{Pre: m.pre, Text: m.text, Docs: []string{}, Files: set}
				if m.pre != nil && m.pre[0] == "--stream" {
					fits := true
					for _, f := range set {
						fits = fits && (f.Tail == "" || streamTail[f.Tail])
					}
					if !fits {
						continue
					}
				}
				if msg := do("files-fixed", c); msg != "" {
					rec.Direct("files-fixed", c, "%s", msg)
					complete = false
				}
			}
		}
	}
	runFixed(jsonSets, jsonModes)
	runFixed(yamlSets, yamlModes)
	{ // -R over a directory between two files; a directory named by --slurpfile / --rawfile
		txt := func(lines ...string) fileSpec {
			f := fileSpec{Kind: "file"}
			for _, l := range lines {
				f.Lines = append(f.Lines, lineSpec{Text: l})
			}
			return f
		}
		rawSet := []fileSpec{txt("ab", "c"), {Kind: "dir"}, txt("d")}
		var extra []cliCase
		for _, pre := range [][]string{{"-R", "-c"}, {"-R", "-s", "-c"}, {"-nR", "-c"}, {"-R", "-e"}} {
			text := `.`
			if pre[0] == "-nR" {
				text = `[inputs]`
			}
			extra = append(extra, cliCase{Pre: pre, Text: text, Docs: []string{}, Files: rawSet},
				cliCase{Pre: pre, Text: text, Docs: []string{}, Files: []fileSpec{{Kind: "dir"}, txt("z")}})
		}
		for _, flag := range []string{"--slurpfile", "--rawfile"} {
			for _, pre := range [][]string{{}, {"-e"}, {"-n"}, {"-s", "-c"}, {"--indent", "3"}} {
				args := append(append([]string{}, pre...), flag, "x", "adir")
				extra = append(extra, cliCase{Pre: args, Text: `$x`, Docs: []string{`1`, `2`}, Dirs: []string{"adir"}},
					cliCase{Pre: []string{"-c"}, Text: `.`, Post: append([]string{flag, "x", "adir"}, pre...), Docs: []string{}, Dirs: []string{"adir"}})
			}
			extra = append(extra, cliCase{Pre: []string{flag, "x", "adir"}, Text: `.[`, Docs: []string{`1`}, Dirs: []string{"adir"}},
				cliCase{Pre: []string{"--indent", "10", flag, "x", "adir"}, Text: `.`, Docs: []string{`1`}, Dirs: []string{"adir"}},
				cliCase{Pre: []string{flag, "x"}, NoQ: true, Docs: []string{`1`}, Dirs: []string{"adir"}})
		}
		for _, c := range extra {
			idx++
			if !rec.Mine(idx) || rec.Violations() > before+12 {
				continue
			}
			if msg := do("files-fixed", c); msg != "" {
				rec.Direct("files-fixed", c, "%s", msg)
				complete = false
			}
		}
	}
	rec.Exhaustive(fmt.Sprintf("file arguments: %d JSON sets x %d modes, %d YAML sets x %d modes", len(jsonSets), len(jsonModes), len(yamlSets), len(yamlModes)), complete)

	// (E4) -R: lines whose lengths lie around the reader's buffer sizes, with
	// non-periodic content, mixed with short ones
	rawLens := []int{0, 1, 4095, 4096, 4097, 8191, 8192, 8193, 12289, 16385, 70000}
	rawStyles := []lineSpec{{Style: "counter"}, {Style: "mb", Pad: 1}, {Style: "mb", Pad: 2}, {Style: "nul"}, {Style: "counter", CR: true}, {Style: "mb", Pad: 3, CR: true}}
	type rmode struct {
		pre   []string
		text  string
		files bool
	}
	rawModes := []rmode{{[]string{"-R", "-c"}, `.`, false}, {[]string{"-r", "--raw-input"}, `.`, false}, {[]string{"-Rj"}, `., length`, false},
		{[]string{"-nR", "-c"}, `[inputs]`, false}, {[]string{"-n", "-R", "-r"}, `inputs`, false}, {[]string{"-R", "-c"}, `[., length]`, true},
		{[]string{"-R", "-s", "-c"}, `.`, false}, {[]string{"-cR"}, `., input`, false}, {[]string{"-rR", "-s"}, `.`, true}}
	complete = true
	before = rec.Violations()
rawSets:
	for li, n := range rawLens {
		for si, st := range rawStyles {
			for mi, m := range rawModes {
				idx++
				if !rec.Mine(idx) || !rec.Thorough() && (li+si+mi)%2 != 0 {
					continue
				}
				long, other := st, rawStyles[(si+1)%len(rawStyles)]
				long.N, long.Start = n, 10*li+si
				other.N, other.Start = rawLens[(li+3)%len(rawLens)], 7
				lines := []lineSpec{{Text: "ab"}, long, {Text: ""}, other, {Text: "last"}}
				c := cliCase{Pre: m.pre, Text: m.text, Docs: []string{}}
				if m.files {
					c.Files = []fileSpec{{Kind: "file", Lines: lines[:2], NoNL: mi%2 == 0}, {Kind: "file", Lines: lines[2:], NoNL: si%2 == 0}}
				} else {
					c.Lines, c.NoNL = lines, (li+si)%2 == 0
				}
				if msg := do("raw-fixed", c); msg != "" {
					rec.Direct("raw-fixed", c, "%s", msg)
					complete = false
					if rec.Violations() > before+6 {
						break rawSets
					}
				}
			}
		}
	}
	if rec.Thorough() {
		rec.Exhaustive(fmt.Sprintf("-R: %d line lengths x %d contents x %d modes", len(rawLens), len(rawStyles), len(rawModes)), complete)
	}

	// deeply nested values in every layout: an indentation line is exactly a
	// line feed and depth x unit
	complete = true
	before = rec.Violations()
	for di, d := range deepDepths {
		for si, shape := range []string{"arr", "obj", "alt"} {
			for src := 0; src < 2; src++ {
				k := di*7 + si*3 + src
				leaf := deepLeaves[k%len(deepLeaves)]
				for li, lay := range [][]string{{}, {"--indent", "7"}, {"--tab"}, deepLayouts[k%len(deepLayouts)]} {
					idx++
					if !rec.Mine(idx) || rec.Violations() > before+6 {
						continue
					}
					var c cliCase
					if src == 0 {
						kinds := map[string]string{"arr": "a", "obj": "o", "alt": "ao"}[shape]
						c = cliCase{Pre: lay, Text: `.`, Docs: []string{deepDoc(d, kinds, leaf, []int{0, 5, 3}[(di+li)%3])}}
						if k%4 == 0 {
							c.Docs = append(c.Docs, `[1,[2]]`)
						}
					} else {
						c = cliCase{Pre: append([]string{"-n"}, lay...), Text: deepQuery(d, shape, leaf, (di+li)%2 == 0), Docs: []string{}}
					}
					if msg := do("deep-fixed", c); msg != "" {
						rec.Direct("deep-fixed", c, "%s", msg)
						complete = false
					}
				}
			}
		}
	}
	rec.Exhaustive(fmt.Sprintf("deep nesting: %d depths x 3 shapes x 2 sources x 4 layouts", len(deepDepths)), complete)

	rec.Rapid(t, "deep", rec.Scale(300, 20000), func(t *rapid.T) {
		d := max(1, rapid.SampledFrom(deepDepths).Draw(t, "depth")+rapid.IntRange(-2, 2).Draw(t, "delta"))
		leaf := rapid.SampledFrom(deepLeaves).Draw(t, "leaf")
		var c cliCase
		if rapid.IntRange(0, 3).Draw(t, "source") > 0 {
			n := rapid.IntRange(1, 7).Draw(t, "period")
			kinds := make([]byte, n)
			for i := range kinds {
				kinds[i] = "ao"[rapid.IntRange(0, 1).Draw(t, "kind")]
			}
			c.Docs = []string{deepDoc(d, string(kinds), leaf, rapid.IntRange(0, 6).Draw(t, "sibling"))}
			if rapid.IntRange(0, 3).Draw(t, "second") == 0 {
				c.Docs = append(c.Docs, rapid.SampledFrom(simpleDocs).Draw(t, "doc"))
			}
			c.Text = rapid.SampledFrom([]string{`.`, `.`, `[.]`, `{a: .}`, `., .`, `.[]?`, `.a?`, `[.[]?]`}).Draw(t, "query")
			genFlags(t, &c, [9]int{2, 2, 1, 1, 3, 5, 1, 0, 2})
		} else {
			c.Docs = []string{}
			c.Text = deepQuery(d, rapid.SampledFrom([]string{"arr", "obj", "alt"}).Draw(t, "shape"), leaf, rapid.Bool().Draw(t, "sibling"))
			genFlags(t, &c, [9]int{2, 2, 1, 1, 3, 5, 1, 0, 0})
			c.Pre = append([]string{"-n"}, c.Pre...)
		}
		if msg := do("deep", c); msg != "" {
			t.Fatalf("%s", rec.Fail("deep", c, "%s", msg))
		}
	})

	// long number literals through pass-through queries in every layout
	passQueries := []string{`.`, `.a`, `.[]`, `[.[]]`, `max`, `{a: .}`, `tojson`, `@text`, `tostring`, `.[0]`, `.a?`, `.[]?`, `[.[]?]`, `[., .]`, `first(.[]?)`, `..`,
		`[inputs]`, `.b.c[0]?`, `[.[]?] | max`, `{a: .} | .a`, `. as $x | [$x]`, `[.] | sort | .[0]`, `"v=\(.)"`, `getpath(["a"])?`, `to_entries?`, `[..]`, `., input`}
	numModes := [][]string{{"-c"}, {}, {"--indent", "3"}, {"--tab"}, {"-r"}, {"-j"}, {"--raw-output0"}, {"--indent", "0"}, {"-c", "-s"}, {"-c", "--stream"}, {"-n", "-c"}, {"--indent", "7", "-e"}}
	complete = true
	before = rec.Violations()
	for si, shape := range numberShapes {
		for li, n := range numberLens {
			for neg := 0; neg < 2; neg++ {
				a := longNumber(shape, n, 11*si+li+neg, neg == 1)
				b := longNumber(numberShapes[(si+1)%len(numberShapes)], numberLens[(li+2)%len(numberLens)], 13*li+si, neg == 0)
				for di, doc := range []string{a, `[` + a + `,1,` + b + `]`, `{"a":` + a + `,"b":{"c":[` + b + `]}}`, `[[` + a + `],{"a":` + b + `}]`} {
					idx++
					if !rec.Mine(idx) || rec.Violations() > before+6 {
						continue
					}
					k := si + 3*li + 5*neg + 7*di
					c := cliCase{Pre: numModes[k%len(numModes)], Text: passQueries[k%len(passQueries)], Docs: []string{doc, b}}
					if k%5 == 0 {
						c.Files, c.Docs = []fileSpec{{Kind: "file", Docs: []string{doc}}, {Kind: "file", Docs: []string{b, doc}, Sep: " "}}, []string{}
					}
					if msg := do("numbers-fixed", c); msg != "" {
						rec.Direct("numbers-fixed", c, "%s", msg)
						complete = false
					}
				}
			}
		}
	}
	rec.Exhaustive(fmt.Sprintf("long number literals: %d shapes x %d lengths x 2 signs x 4 positions", len(numberShapes), len(numberLens)), complete)

	rec.Rapid(t, "long-numbers", rec.Scale(1500, 25000), func(t *rapid.T) {
		lit := func() string {
			n := rapid.SampledFrom([]int{30, 63, 64, 65, 66, 100, 300, 64, 65}).Draw(t, "len") + rapid.SampledFrom([]int{0, 0, 0, 1, -1, 7}).Draw(t, "delta")
			return longNumber(rapid.SampledFrom(numberShapes).Draw(t, "shape"), n, rapid.IntRange(0, 999).Draw(t, "seed"), rapid.Bool().Draw(t, "neg"))
		}
		doc := func() string {
			switch rapid.IntRange(0, 5).Draw(t, "position") {
			case 0, 1:
				return lit()
			case 2:
				return `[` + lit() + `,` + rapid.SampledFrom(simpleDocs).Draw(t, "other") + `,` + lit() + `]`
			case 3:
				return `{"a":` + lit() + `,"b":{"c":[` + lit() + `]}}`
			case 4:
				return `[[` + lit() + `],{"a":` + lit() + `,"b":` + lit() + `}]`
			}
			return rapid.SampledFrom(simpleDocs).Draw(t, "plain")
		}
		c := cliCase{Docs: []string{}}
		n := rapid.IntRange(1, 3).Draw(t, "docs")
		var docs []string
		for i := 0; i < n; i++ {
			docs = append(docs, doc())
		}
		c.Sep = rapid.SampledFrom(seps).Draw(t, "sep")
		c.End = rapid.SampledFrom([]string{"", "\n"}).Draw(t, "end")
		genFlags(t, &c, [9]int{2, 2, 1, 3, 2, 3, 1, 1, 1})
		where := rapid.IntRange(0, 9).Draw(t, "where")
		switch {
		case where == 0: // two files
			c.Dash = false
			c.Files = []fileSpec{{Kind: "file", Docs: docs[:1], End: c.End}, {Kind: "file", Docs: docs, Sep: c.Sep}}
			c.Sep, c.End = "", ""
		case where == 1: // --stream
			c.Docs = docs
			c.Pre = append([]string{"--stream"}, c.Pre...)
		default:
			c.Docs = docs
		}
		if rapid.IntRange(0, 4).Draw(t, "alg") == 0 {
			algQuery(t, &c, bias{val: 1, dot: 6, iter: 4, err: 1, empty: 1, input: 1, arr: 3, cond: 1, note: 1})
		} else {
			c.Text = rapid.SampledFrom(passQueries).Draw(t, "query")
		}
		if msg := do("long-numbers", c); msg != "" {
			t.Fatalf("%s", rec.Fail("long-numbers", c, "%s", msg))
		}
	})

	// -R / --raw-input / -nR with input(s) / over files; -R -s as control
	rec.Rapid(t, "raw-long", rec.Scale(1500, 30000), func(t *rapid.T) {
		genLine := func() lineSpec {
			switch rapid.IntRange(0, 9).Draw(t, "linekind") {
			case 0, 1, 2:
				return lineSpec{Text: strings.ReplaceAll(gen.Str(8).Draw(t, "text"), "\n", "/"), CR: rapid.IntRange(0, 5).Draw(t, "cr") == 0}
			case 3:
				return lineSpec{}
			}
			base := rapid.SampledFrom([]int{4096, 4096, 8192, 12288, 16384, 65536, 70000, 1, 300}).Draw(t, "base")
			return lineSpec{Style: rapid.SampledFrom([]string{"counter", "mb", "mb", "nul"}).Draw(t, "style"),
				N:     max(0, base+rapid.IntRange(-3, 3).Draw(t, "delta")),
				Pad:   rapid.IntRange(0, 3).Draw(t, "pad"),
				Start: rapid.IntRange(0, 5000).Draw(t, "start"),
				CR:    rapid.IntRange(0, 5).Draw(t, "cr") == 0}
		}
		genLines := func() ([]lineSpec, bool) {
			n := rapid.IntRange(0, 5).Draw(t, "lines")
			ls := make([]lineSpec, n)
			for i := range ls {
				ls[i] = genLine()
			}
			return ls, rapid.Bool().Draw(t, "nonl")
		}
		c := cliCase{Docs: []string{}}
		if rapid.IntRange(0, 3).Draw(t, "files") == 0 {
			nf := rapid.IntRange(1, 3).Draw(t, "nfiles")
			stdinUsed := false
			for i := 0; i < nf; i++ {
				f := fileSpec{Kind: "file"}
				switch k := rapid.IntRange(0, 9).Draw(t, "kind"); {
				case k == 0:
					f.Kind = "missing"
				case k == 1 && !stdinUsed:
					f.Kind, stdinUsed = "stdin", true
				case k == 2:
					f.Kind = "dir"
				}
				if f.Kind == "file" || f.Kind == "stdin" {
					f.Lines, f.NoNL = genLines()
				}
				c.Files = append(c.Files, f)
			}
		} else {
			c.Lines, c.NoNL = genLines()
		}
		genFlags(t, &c, [9]int{3, 2, 1, 4, 0, 0, 1, 3, 1})
		c.Dash = false
		p := rapid.IntRange(0, len(c.Pre)).Draw(t, "at")
		if p > 0 && c.Pre[p-1] == "--indent" {
			p--
		}
		c.Pre = append(append(append([]string{}, c.Pre[:p]...), rapid.SampledFrom([]string{"-R", "--raw-input", "-R"}).Draw(t, "rawflag")), c.Pre[p:]...)
		if rapid.IntRange(0, 3).Draw(t, "alg") == 0 {
			algQuery(t, &c, bias{val: 1, dot: 6, err: 1, empty: 1, input: 4, arr: 2, cond: 1})
		} else {
			c.Text = rapid.SampledFrom([]string{`.`, `.`, `length`, `[inputs]`, `inputs`, `., input`, `utf8bytelength`, `[., length]`, `.[4090:4100]`,
				`explode | length`, `[inputs | length]`, `input`, `try input catch "E"`, `ltrimstr("x")`, `[., input]`, `. as $a | input as $b | [$a, $b]`,
				`reduce inputs as $l (""; . + $l) | length`, `[inputs] | map(.[:8])`, `ascii_downcase`, `tojson | length`}).Draw(t, "query")
		}
		if msg := do("raw-long", c); msg != "" {
			t.Fatalf("%s", rec.Fail("raw-long", c, "%s", msg))
		}
	})

	anyFlags := [9]int{2, 2, 1, 3, 1, 2, 3, 1, 1}

	// 2..4 input sources named on the command line
	rec.Rapid(t, "files", rec.Scale(2000, 50000), func(t *rapid.T) {
		c := cliCase{Docs: []string{}}
		mode := rapid.SampledFrom([]string{"json", "json", "json", "yaml", "stream"}).Draw(t, "mode")
		n := rapid.IntRange(2, 4).Draw(t, "files")
		stdinUsed := false
		for i := 0; i < n; i++ {
			f := fileSpec{Kind: "file"}
			switch k := rapid.IntRange(0, 19).Draw(t, "kind"); {
			case k == 0:
				f.Kind = "missing"
			case k <= 2 && !stdinUsed:
				f.Kind, stdinUsed = "stdin", true
			case k <= 5:
				f.Kind = "dir"
			}
			if f.Kind == "file" || f.Kind == "stdin" {
				nd := rapid.IntRange(0, 3).Draw(t, "docs")
				for j := 0; j < nd; j++ {
					switch mode {
					case "yaml":
						f.Docs = append(f.Docs, rapid.SampledFrom(yamlDocs).Draw(t, "doc"))
					case "stream":
						f.Docs = append(f.Docs, genDocText(t, 1))
					default:
						f.Docs = append(f.Docs, rapid.SampledFrom(docPool).Draw(t, "doc"))
					}
				}
				if rapid.IntRange(0, 2).Draw(t, "tail") == 0 {
					switch mode {
					case "yaml":
						f.Tail = rapid.SampledFrom(yamlTails).Draw(t, "tailtext")
					case "stream":
						f.Tail = rapid.SampledFrom(streamTails).Draw(t, "tailtext")
					default:
						f.Tail = rapid.SampledFrom(tails).Draw(t, "tailtext")
					}
				}
				f.Sep = rapid.SampledFrom(seps).Draw(t, "sep")
				f.End = rapid.SampledFrom([]string{"", "\n", "\n", " "}).Draw(t, "end")
			}
			c.Files = append(c.Files, f)
		}
		genFlags(t, &c, [9]int{1, 1, 1, 5, 1, 1, 1, 3, 2})
		c.Dash = false
		if mode != "json" {
			p := rapid.IntRange(0, len(c.Pre)).Draw(t, "at")
			if p > 0 && c.Pre[p-1] == "--indent" {
				p--
			}
			c.Pre = append(append(append([]string{}, c.Pre[:p]...), map[string]string{"yaml": "--yaml-input", "stream": "--stream"}[mode]), c.Pre[p:]...)
		}
		if rapid.IntRange(0, 3).Draw(t, "alg") == 0 {
			algQuery(t, &c, bias{val: 1, dot: 5, iter: 1, err: 1, halt: 1, empty: 1, input: 4, arr: 3, cond: 2})
		} else {
			c.Text = rapid.SampledFrom(fileQueries).Draw(t, "query")
		}
		if msg := do("files", c); msg != "" {
			t.Fatalf("%s", rec.Fail("files", c, "%s", msg))
		}
	})

	// --stream: the events the command feeds to the query are the library's
	// tostream events of each complete document; they stay intact when the
	// query (or -s) keeps several of them
	rec.Rapid(t, "stream", rec.Scale(2500, 50000), func(t *rapid.T) {
		var c cliCase
		n := rapid.IntRange(0, 4).Draw(t, "docs")
		for i := 0; i < n; i++ {
			c.Docs = append(c.Docs, genDocText(t, 0))
		}
		if c.Docs == nil {
			c.Docs = []string{}
		}
		c.Sep = rapid.SampledFrom(seps).Draw(t, "sep")
		c.End = rapid.SampledFrom([]string{"", "\n", " "}).Draw(t, "end")
		genFlags(t, &c, [9]int{1, 1, 1, 5, 1, 1, 1, 4, 3})
		p := rapid.IntRange(0, len(c.Pre)).Draw(t, "at")
		if p > 0 && c.Pre[p-1] == "--indent" {
			p--
		}
		c.Pre = append(append(append([]string{}, c.Pre[:p]...), "--stream"), c.Pre[p:]...)
		if rapid.IntRange(0, 2).Draw(t, "alg") == 0 {
			algQuery(t, &c, bias{val: 1, dot: 4, iter: 2, err: 1, empty: 1, input: 5, arr: 5, cond: 1})
		} else {
			c.Text = rapid.SampledFrom(streamQueries).Draw(t, "query")
		}
		if msg := do("stream", c); msg != "" {
			t.Fatalf("%s", rec.Fail("stream", c, "%s", msg))
		}
	})

	// error continuation: errors at chosen inputs and output positions, type
	// errors from data, malformed tails
	rec.Rapid(t, "continue", rec.Scale(3000, 115000), func(t *rapid.T) {
		var c cliCase
		genStream(t, &c, streamBias{maxDocs: 5, tailOdds: 3})
		genFlags(t, &c, anyFlags)
		if rapid.IntRange(0, 5).Draw(t, "free") == 0 {
			c.Text = rapid.SampledFrom(freeQueries).Draw(t, "query")
		} else {
			algQuery(t, &c, bias{val: 4, str: 1, falsy: 1, dot: 5, iter: 3, err: 3, empty: 1, input: 1, arr: 1, cond: 6, note: 1})
		}
		if msg := do("continue", c); msg != "" {
			t.Fatalf("%s", rec.Fail("continue", c, "%s", msg))
		}
	})

	// halt and halt_error: status modulo 256, message, nothing afterwards
	rec.Rapid(t, "halt", rec.Scale(3000, 105000), func(t *rapid.T) {
		var c cliCase
		genStream(t, &c, streamBias{maxDocs: 5, tailOdds: 7})
		genFlags(t, &c, anyFlags)
		algQuery(t, &c, bias{val: 3, str: 1, falsy: 1, dot: 4, iter: 1, err: 1, halt: 2, empty: 1, input: 1, arr: 1, cond: 6})
		if msg := do("halt", c); msg != "" {
			t.Fatalf("%s", rec.Fail("halt", c, "%s", msg))
		}
	})

	// --exit-status bookkeeping
	rec.Rapid(t, "exit", rec.Scale(2500, 85000), func(t *rapid.T) {
		var c cliCase
		genStream(t, &c, streamBias{maxDocs: 4, tailOdds: 9})
		genFlags(t, &c, [9]int{1, 1, 1, 3, 1, 1, 7, 1, 1})
		if rapid.IntRange(0, 5).Draw(t, "free") == 0 {
			c.Text = rapid.SampledFrom(freeQueries).Draw(t, "query")
		} else {
			algQuery(t, &c, bias{val: 2, falsy: 5, dot: 5, iter: 1, err: 1, halt: 1, empty: 4, arr: 1, cond: 5})
		}
		if msg := do("exit", c); msg != "" {
			t.Fatalf("%s", rec.Fail("exit", c, "%s", msg))
		}
	})

	// terminators, raw strings, NUL rejection, layouts
	rec.Rapid(t, "terminators", rec.Scale(3000, 105000), func(t *rapid.T) {
		var c cliCase
		genStream(t, &c, streamBias{maxDocs: 4, tailOdds: 9, hostile: true})
		genFlags(t, &c, [9]int{3, 3, 4, 2, 2, 3, 1, 1, 1})
		algQuery(t, &c, bias{val: 3, str: 4, dot: 6, iter: 3, err: 1, empty: 1, arr: 2, cond: 3, note: 1, nul: 3})
		if msg := do("terminators", c); msg != "" {
			t.Fatalf("%s", rec.Fail("terminators", c, "%s", msg))
		}
	})

	// -n / -s with input and inputs
	rec.Rapid(t, "inputs", rec.Scale(2500, 85000), func(t *rapid.T) {
		var c cliCase
		genStream(t, &c, streamBias{maxDocs: 5, tailOdds: 2})
		genFlags(t, &c, [9]int{1, 1, 1, 4, 1, 1, 2, 4, 3})
		if rapid.IntRange(0, 5).Draw(t, "free") == 0 {
			c.Text = rapid.SampledFrom(freeQueries).Draw(t, "query")
		} else {
			algQuery(t, &c, bias{val: 2, falsy: 1, dot: 4, iter: 2, err: 1, halt: 1, empty: 1, input: 4, arr: 3, cond: 3})
		}
		if msg := do("inputs", c); msg != "" {
			t.Fatalf("%s", rec.Fail("inputs", c, "%s", msg))
		}
	})

	// statuses 2 and 3, the indentation range, a missing query
	rec.Rapid(t, "usage", rec.Scale(1500, 35000), func(t *rapid.T) {
		var c cliCase
		genStream(t, &c, streamBias{maxDocs: 3, tailOdds: 5, simple: true})
		genFlags(t, &c, anyFlags)
		algQuery(t, &c, bias{val: 3, dot: 5, iter: 1, err: 1, halt: 1, empty: 1, cond: 2})
		insert := func(extra ...string) {
			if c.Dash || rapid.Bool().Draw(t, "before") {
				p := rapid.IntRange(0, len(c.Pre)).Draw(t, "at")
				if p > 0 && c.Pre[p-1] == "--indent" {
					p--
				}
				c.Pre = append(append(append([]string{}, c.Pre[:p]...), extra...), c.Pre[p:]...)
			} else {
				p := rapid.IntRange(0, len(c.Post)).Draw(t, "at")
				if p > 0 && c.Post[p-1] == "--indent" {
					p--
				}
				c.Post = append(append(append([]string{}, c.Post[:p]...), extra...), c.Post[p:]...)
			}
		}
		switch rapid.IntRange(0, 6).Draw(t, "what") {
		case 0:
			insert(rapid.SampledFrom(badArgs).Draw(t, "badarg"))
		case 1:
			n := rapid.SampledFrom([]string{"10", "-1", "12", "-3", "99", "+3", "007", "9", "0"}).Draw(t, "n")
			if rapid.Bool().Draw(t, "eq") {
				insert("--indent=" + n)
			} else {
				insert("--indent", n)
			}
		case 2:
			c.Items, c.Text = nil, rapid.SampledFrom(badQueries).Draw(t, "badquery")
		case 3: // the flag swallows the next argument, whatever it is
			if c.Dash {
				c.Dash = false
			}
			if rapid.Bool().Draw(t, "last") {
				c.Post = append(c.Post, "--indent")
			} else {
				c.Pre = append(c.Pre, "--indent")
				if rapid.Bool().Draw(t, "numeric") {
					c.Items, c.Text = []item{val(`7`)}, `7`
				}
			}
		case 4:
			c.NoQ, c.Items, c.Text, c.Post, c.Dash = true, nil, "", nil, false
		case 5:
			c.Items, c.Text = nil, rapid.SampledFrom([]string{" . ", "\n.\t", " .[]? ", ". ,1"}).Draw(t, "spaced")
		default:
			c.Items, c.Text = nil, rapid.SampledFrom(badQueries).Draw(t, "badquery")
			if rapid.Bool().Draw(t, "both") {
				insert(rapid.SampledFrom(badArgs).Draw(t, "badarg"))
			} else {
				insert("--indent", "10")
			}
		}
		if msg := do("usage", c); msg != "" {
			t.Fatalf("%s", rec.Fail("usage", c, "%s", msg))
		}
	})
}
