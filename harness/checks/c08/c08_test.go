// C08 — no query text or input can crash the library or the command.
//
// Oracle: totality.  Parse returns a query or a *ParseError with
// 0 <= Offset <= len(src); Compile and Run report failures as error values;
// Marshal / Preview / Error() on everything emitted do not panic; the command
// exits with a documented status and prints no Go stack trace.  Panics are
// recovered and reported; fatal errors kill the shard and are attributed
// through the journal.
package c08

import (
	"encoding/json"
	"fmt"
	"math"
	"os"
	"path/filepath"
	"regexp"
	"strings"
	"testing"
	"time"
	"unicode/utf8"

	"github.com/itchyny/gojq"
	"pgregory.net/rapid"

	"verif/internal/cmdline"
	"verif/internal/corpus"
	"verif/internal/evid"
	"verif/internal/gen"
	"verif/internal/refjq"
	"verif/internal/run"
	"verif/internal/univ"
)

var (
	rec   *evid.Rec
	model *refjq.Interp
)

const (
	steps   = 20000
	fuel    = 40000
	maxOuts = 100
)

type libCase struct {
	Query string `json:"query"` // may contain arbitrary bytes: stored as hex when not UTF-8
	Hex   bool   `json:"hex,omitempty"`
	Input univ.V `json:"input"`
	Var   univ.V `json:"var"`
	// Nil: every empty array / object of the input and of $v is handed to
	// gojq as a typed nil ([]any(nil), map[string]any(nil)): legal Go values
	// of the supported types
	Nil bool `json:"nil,omitempty"`
}

// nilify returns a copy of v whose empty containers are typed nils.
func nilify(v any) any {
	switch v := v.(type) {
	case []any:
		if len(v) == 0 {
			return []any(nil)
		}
		w := make([]any, len(v))
		for i, x := range v {
			w[i] = nilify(x)
		}
		return w
	case map[string]any:
		if len(v) == 0 {
			return map[string]any(nil)
		}
		w := make(map[string]any, len(v))
		for k, x := range v {
			w[k] = nilify(x)
		}
		return w
	}
	return v
}

func (c libCase) src() string {
	if c.Hex {
		b := make([]byte, len(c.Query)/2)
		fmt.Sscanf(c.Query, "%x", &b)
		return string(b)
	}
	return c.Query
}

func mkLib(src string, in, v any) libCase {
	if utf8.ValidString(src) {
		return libCase{Query: src, Input: univ.V{X: in}, Var: univ.V{X: v}}
	}
	return libCase{Query: fmt.Sprintf("%x", src), Hex: true, Input: univ.V{X: in}, Var: univ.V{X: v}}
}

// midBand matches number literals that turn into huge allocations
// (.[n] = x, string repetition, ...): 5 to 18 digit integers.
var midBand = regexp.MustCompile(`[0-9]{5,18}|[0-9]+[eE]\+?(0*[4-9]|0*1[0-8])\b`)

// sanitize rewrites allocation-sized literals out of a query text
// (resource guard: programs that legitimately demand unbounded memory are
// outside the claim).
func sanitize(src string) (string, bool) {
	out := midBand.ReplaceAllString(src, "7")
	return out, out != src
}

type outcome struct {
	msg     string
	discard string
	stage   string
}

func try(stage string, f func()) (msg string) {
	defer func() {
		if r := recover(); r != nil {
			msg = fmt.Sprintf("panic in %s: %v", stage, r)
		}
	}()
	f()
	return ""
}

func touch(v any) {
	// everything a caller does with an emitted value or error
	if e, ok := v.(error); ok {
		_ = e.Error()
		if ve, ok := e.(gojq.ValueError); ok {
			touch(ve.Value())
		}
		return
	}
	if refjq.TreeSize(v, 20000) > 20000 {
		return
	}
	b, _ := gojq.Marshal(v)
	_ = b
	_ = gojq.Preview(v)
	_ = gojq.TypeOf(v)
}

func check(c libCase) outcome {
	src := c.src()
	var q *gojq.Query
	var perr error
	if m := try("Parse", func() { q, perr = gojq.Parse(src) }); m != "" {
		return outcome{msg: m}
	}
	if perr != nil {
		pe, ok := perr.(*gojq.ParseError)
		if !ok {
			return outcome{msg: fmt.Sprintf("Parse returned an error that is not a *ParseError: %T %v", perr, perr)}
		}
		if pe.Offset < 0 || pe.Offset > len(src) {
			return outcome{msg: fmt.Sprintf("ParseError.Offset %d outside the source of %d bytes (token %q)", pe.Offset, len(src), pe.Token)}
		}
		if m := try("ParseError.Error", func() { _ = pe.Error() }); m != "" {
			return outcome{msg: m}
		}
		return outcome{stage: "parse-error"}
	}
	if q == nil {
		return outcome{msg: "Parse returned neither a query nor an error"}
	}
	if m := try("Query.String", func() { _ = q.String() }); m != "" {
		return outcome{msg: m}
	}
	var code *gojq.Code
	var cerr error
	if m := try("Compile", func() { code, cerr = gojq.Compile(q, gojq.WithVariables([]string{"$v"})) }); m != "" {
		return outcome{msg: m}
	}
	if cerr != nil {
		if m := try("compile error text", func() { _ = cerr.Error() }); m != "" {
			return outcome{msg: m}
		}
		return outcome{stage: "compile-error"}
	}
	// the model carries the resource guards; what it refuses for resource
	// reasons is not run
	want := model.Run(q, univ.Copy(c.Input.X), map[string]any{"$v": univ.Copy(c.Var.X)}, fuel, maxOuts)
	if refjq.IsNativePanic(want.Err) {
		return outcome{msg: want.Err.Error()}
	}
	if d := want.Discard(); strings.HasPrefix(d, "resource") {
		return outcome{discard: d}
	}
	inputOf := func() (any, any) {
		if c.Nil {
			return nilify(univ.Copy(c.Input.X)), nilify(univ.Copy(c.Var.X))
		}
		return univ.Copy(c.Input.X), univ.Copy(c.Var.X)
	}
	in1, v1 := inputOf()
	res := run.Exec(code, in1, steps, maxOuts, v1)
	if res.Panic != "" {
		return outcome{msg: "Run panicked: " + res.Panic}
	}
	// the same Code once more: whatever the first run left behind in the Code
	// (caches, lazily built tables, memoised failures) must not crash the next
	in2, v2 := inputOf()
	if res2 := run.Exec(code, in2, steps, maxOuts, v2); res2.Panic != "" {
		return outcome{msg: "the second Run of the same Code panicked: " + res2.Panic}
	}
	for _, v := range res.Vals {
		if !univ.Valid(v) {
			return outcome{msg: fmt.Sprintf("emitted a value of an unsupported Go type: %s", univ.Show(v))}
		}
		if m := try("Marshal/Preview of an output", func() { touch(v) }); m != "" {
			return outcome{msg: m + " for " + univ.Show(v)}
		}
	}
	if res.Err != nil {
		if m := try("Error() of the emitted error", func() { touch(res.Err) }); m != "" {
			return outcome{msg: m}
		}
		return outcome{stage: "runtime-error"}
	}
	if res.Budget {
		return outcome{stage: "budget"}
	}
	return outcome{stage: "ok"}
}

// ---------------------------------------------------------------------------
// generators

var hostile = []string{"\x00", "\xff", "\"", "\\", "\\(", ")", "(", "[", "]", "{", "}", "|", ",", ".", "..", "?", "//", "?//", "$", "@", "#", "\n", "\r", ":", ";", "::", "-", "+", "=", "|=", "<", ">",
	"def ", " as ", "reduce ", "foreach ", "if ", " then ", " else ", " end", "try ", " catch ", "label ", "break ", "import ", "include ", "and", "or", "not", "$__loc__", "$__prog_args", "$ENV", "@base64d", "@text \"\\(",
	"1e1000", "-1e1000", "1e-1000", "0x1", "00", "1.", ".5", "1e", "1e+", "9999999999999999999999", "nan", "infinite", "-infinite", "null", "\"\\u", "\"\\ud800\"", "\"\\udc00\"", "\"\\ud83d\\ude00\"", "\"\\x\"", "\u00e9", "\U0001F600", "\u2028",
	"limit(", "first(", "path(", "getpath(", "setpath(", "delpaths(", "error", "halt", "input", "inputs", "debug", "stderr", "env", "builtins", "modulemeta", "input_filename", "splits(", "ltrimstr(", "implode", "tojson", "fromjson", "tostream", "fromstream(",
	"_modify(", "_assign(", "_index(", "_slice(", "_range(", "_match(", "_last(", "_captures", "_plus", "_negate", "_add(", "_tobase64d", "_min_by(", "_sort_by(", "_group_by(", "_unique_by(", "_allocator", "_setpath(", "_delpaths(", "_break",
}

// wideForms: program families scaled by n.
func wideForms() map[string]func(n int) string {
	rep := func(n int, f func(i int) string, sep string) string {
		parts := make([]string, n)
		for i := range parts {
			parts[i] = f(i)
		}
		return strings.Join(parts, sep)
	}
	return map[string]func(n int) string{
		"pipe-of-operators": func(n int) string { return "0 | " + rep(n, func(int) string { return ". + 1" }, " | ") },
		"array-pattern": func(n int) string {
			return ". as [" + rep(n, func(i int) string { return fmt.Sprintf("$v%d", i) }, ", ") + fmt.Sprintf("] | $v%d", n-1)
		},
		"object-pattern": func(n int) string {
			return ". as {" + rep(n, func(i int) string { return fmt.Sprintf("k%d: $v%d", i, i) }, ", ") + fmt.Sprintf("} | $v%d", n-1)
		},
		"object-of-computed": func(n int) string {
			return "{" + rep(n, func(i int) string { return fmt.Sprintf("k%d: (. | length? + %d)", i, i) }, ", ") + "} | length"
		},
		"array-of-computed": func(n int) string {
			return "[" + rep(n, func(i int) string { return fmt.Sprintf("(. | tojson | length + %d)", i) }, ", ") + "] | length"
		},
		"nested-bindings": func(n int) string {
			return rep(n, func(i int) string { return fmt.Sprintf("%d as $a%d", i, i) }, " | ") + " | $a0 + " + fmt.Sprintf("$a%d", n-1)
		},
		"definitions": func(n int) string {
			return rep(n, func(i int) string { return fmt.Sprintf("def f%d: %d;", i, i) }, " ") + fmt.Sprintf(" f0 + f%d", n-1)
		},
		"nested-definitions": func(n int) string {
			return rep(n, func(i int) string { return fmt.Sprintf("def f%d: ", i) }, "") + "1" + strings.Repeat(";", n-1) + "; f0"
		},
		"parameters": func(n int) string {
			return "def f(" + rep(n, func(i int) string { return fmt.Sprintf("$p%d", i) }, "; ") + fmt.Sprintf("): $p%d; f(", n-1) + rep(n, func(i int) string { return fmt.Sprint(i) }, "; ") + ")"
		},
		"closure-parameters": func(n int) string {
			return "def f(" + rep(n, func(i int) string { return fmt.Sprintf("p%d", i) }, "; ") + fmt.Sprintf("): p%d; f(", n-1) + rep(n, func(i int) string { return fmt.Sprintf(". | %d", i) }, "; ") + ")"
		},
		"labels": func(n int) string {
			return rep(n, func(i int) string { return fmt.Sprintf("label $l%d", i) }, " | ") + " | 1, break $l0"
		},
		"sum": func(n int) string { return ". as $x | 0" + strings.Repeat(" + 1", n) },
		"comma": func(n int) string {
			return "[" + rep(n, func(i int) string { return fmt.Sprint(i) }, ", ") + "] | length"
		},
		"interpolation": func(n int) string {
			return "\"" + rep(n, func(i int) string { return fmt.Sprintf("\\(%d)", i) }, "-") + "\" | length"
		},
		"parentheses": func(n int) string { return strings.Repeat("(", n) + "." + strings.Repeat(")", n) },
		"nested-arrays": func(n int) string {
			return strings.Repeat("[", n) + "." + strings.Repeat("]", n) + " | tojson | length"
		},
		"nested-objects": func(n int) string {
			return strings.Repeat("{a: ", n) + "." + strings.Repeat("}", n) + " | tojson | length"
		},
		"if-elif-chain": func(n int) string {
			return "if . == -1 then -1 " + rep(n, func(i int) string { return fmt.Sprintf("elif . == %d then %d", i, i) }, " ") + " else \"e\" end"
		},
		"nested-if":      func(n int) string { return strings.Repeat("if . then ", n) + "1" + strings.Repeat(" else 0 end", n) },
		"nested-try":     func(n int) string { return strings.Repeat("try (", n) + "error" + strings.Repeat(") catch .", n) },
		"alternatives":   func(n int) string { return rep(n, func(int) string { return "empty" }, " // ") + " // 1" },
		"optional-chain": func(n int) string { return "." + strings.Repeat("a?.", n/2+1) + "a?" },
		"index-chain":    func(n int) string { return "." + strings.Repeat("[0]?", n) },
		"reduce-nest": func(n int) string {
			return strings.Repeat("reduce (1,2) as $x (0; ", min(n, 40)) + "." + strings.Repeat(" + $x)", min(n, 40))
		},
		"destructuring-alt": func(n int) string {
			return ". as " + rep(min(n, 60), func(i int) string { return fmt.Sprintf("[$a%d]", i) }, " ?// ") + " ?// $z | [$z, $a0]"
		},
		"string-multiply-key": func(n int) string { return "{(\"k\" * " + fmt.Sprint(n) + "): 1} | keys[0] | length" },
		"path-of-wide": func(n int) string {
			return "[path(" + rep(min(n, 80), func(i int) string { return fmt.Sprintf(".[%d]?", i%3) }, ", ") + ")] | length"
		},
		"update-chain": func(n int) string {
			return rep(min(n, 80), func(i int) string { return fmt.Sprintf(".k%d = %d", i, i) }, " | ") + " | length?"
		},
		"format-chain": func(n int) string { return "tojson" + strings.Repeat(" | @json", min(n, 12)) + " | length" },
		"args-of-wide-object": func(n int) string {
			return "[" + rep(n, func(i int) string { return fmt.Sprintf("{a: %d}", i) }, ", ") + "] | map(.a) | add"
		},
	}
}

func mutate(t *rapid.T, src string) string {
	b := []byte(src)
	n := rapid.IntRange(1, 4).Draw(t, "nmut")
	for i := 0; i < n; i++ {
		pos := 0
		if len(b) > 0 {
			pos = rapid.IntRange(0, len(b)).Draw(t, "pos")
		}
		switch rapid.IntRange(0, 6).Draw(t, "mut") {
		case 0: // delete a range
			if len(b) > 0 {
				end := pos + rapid.IntRange(1, 4).Draw(t, "dlen")
				if end > len(b) {
					end = len(b)
				}
				b = append(b[:pos:pos], b[end:]...)
			}
		case 1: // insert a hostile constant
			h := rapid.SampledFrom(hostile).Draw(t, "hostile")
			b = append(b[:pos:pos], append([]byte(h), b[pos:]...)...)
		case 2: // duplicate a range
			end := pos + rapid.IntRange(1, 8).Draw(t, "len")
			if end > len(b) {
				end = len(b)
			}
			b = append(b[:end:end], append(append([]byte{}, b[pos:end]...), b[end:]...)...)
		case 3: // replace a byte
			if pos < len(b) {
				b[pos] = rapid.Byte().Draw(t, "byte")
			}
		case 4: // splice from another place
			if len(b) > 1 {
				from := rapid.IntRange(0, len(b)-1).Draw(t, "from")
				end := from + rapid.IntRange(1, 10).Draw(t, "slen")
				if end > len(b) {
					end = len(b)
				}
				b = append(b[:pos:pos], append(append([]byte{}, b[from:end]...), b[pos:]...)...)
			}
		case 5: // bracket / quote imbalance or deep nesting
			open := rapid.SampledFrom([]string{"(", "[", "{", "\"", "\"\\(", "if ", "try ", "[[[[[[[[", "((((((((", "{a:{a:{a:"}).Draw(t, "open")
			k := rapid.IntRange(1, 40).Draw(t, "depth")
			b = append(b[:pos:pos], append([]byte(strings.Repeat(open, k)), b[pos:]...)...)
		default: // truncate
			b = b[:pos]
		}
		if len(b) > 4000 {
			b = b[:4000]
		}
	}
	return string(b)
}

// every builtin name/arity (from `builtins` at run time) and the internal
// ones reachable by name.
var internalNames = []string{"_modify/2", "_assign/2", "_index/2", "_slice/3", "_range/3", "_match/3", "_last/1", "_captures/0", "_plus/0", "_negate/0", "_add/2", "_subtract/2", "_multiply/2", "_divide/2", "_modulo/2",
	"_alternative/2", "_equal/2", "_notequal/2", "_greater/2", "_less/2", "_greatereq/2", "_lesseq/2", "_tohtml/0", "_touri/0", "_tourid/0", "_tocsv/0", "_totsv/0", "_tosh/0", "_tobase64/0", "_tobase64d/0", "_min_by/1", "_max_by/1",
	"_sort_by/1", "_group_by/1", "_unique_by/1"}

func builtinList() []string {
	c := run.MustCompile("builtins")
	v, err := run.One(c, nil)
	if err != nil {
		panic(err)
	}
	var out []string
	for _, x := range v.([]any) {
		out = append(out, x.(string))
	}
	return append(out, internalNames...)
}

var boundaryArgs = []string{"null", "true", "false", "0", "1", "-1", "2", "0.5", "-0.5", "1.5", "nan", "infinite", "-infinite", "536870911", "536870912", "536870913", "9223372036854775807", "9223372036854775808", "-9223372036854775808",
	"-9223372036854775809", "1e1000", "-1e1000", "1e308", "1e-320", "\"\"", "\"a\"", "\"abc\"", "\"\\u0000\"", "\"é\"", "\"%\"", "\"=\"", "\"[\"", "\"(?<x>\"", "\"g\"", "\"gx\"", "\"%Y\"", "\"%\"", "[]", "[0]", "[1,2]", "[[]]", "[null]", "[\"a\"]", "[[1],[2]]",
	"[\"a\",0]", "[{}]", "{}", "{\"a\":1}", "{\"start\":0,\"end\":1}", "{\"start\":null}", "{\"start\":\"a\",\"end\":[]}", "{\"a\":{\"b\":2}}", ".", ".[]?", "empty", "error", "(1,2)", "$v", "[$v]", "{a:$v}", "[range(3)]", "[range(7)]", "[range(8)]", "[range(9)]", "[range(16)]", "[range(17)]", "[range(33)]", "[range(100)]", "[range(9) | . * 1.5]", "[range(9) | tostring]", "[range(9) | [.]]", "[2024,1,29,12,34,56.5,4,59,0]",
	"[limit(9; repeat(null))]", "[range(257)] | implode", "[range(65)] | map(tostring) | add", "[range(10)] | map({key: tostring, value: .}) | from_entries", "\"a\" * 3",
	"[limit(3; repeat(\"a\"))]", "{} | .a.b.c", "[.[]?]", "path(..)", "\"\\(1)\"", "@base64 \"x\"", "-.", "(.. | numbers)", "[\"a\",\"b\"] | join(\",\")", "now | floor | . - .", "\"2015-03-05T23:51:47Z\"", "[2015,2,5,23,51,47,4,63]", "1425599507", "-62135596800", "253402300800", "1e18"}

func builtinProgram(t *rapid.T, names []string) string {
	na := rapid.SampledFrom(names).Draw(t, "builtin")
	i := strings.LastIndexByte(na, '/')
	name, arity := na[:i], int(na[i+1]-'0')
	if len(na[i+1:]) > 1 {
		arity = 10
	}
	call := name
	if arity > 0 {
		args := make([]string, arity)
		for j := range args {
			args[j] = rapid.SampledFrom(boundaryArgs).Draw(t, "arg")
		}
		call += "(" + strings.Join(args, "; ") + ")"
	}
	in := rapid.SampledFrom(boundaryArgs).Draw(t, "in")
	switch rapid.IntRange(0, 5).Draw(t, "ctx") {
	case 0:
		return in + " | " + call
	case 1:
		return "[" + in + " | " + call + "]"
	case 2:
		return "try (" + in + " | " + call + ") catch ."
	case 3:
		return in + " | path(" + call + ")"
	case 4:
		return in + " | (" + call + ") |= ."
	default:
		return call
	}
}

func valueGen() *rapid.Generator[any] {
	return rapid.OneOf(
		gen.Value(gen.Opt{Reps: true, Special: true, BadUTF8: true, MaxDepth: 3, MaxWidth: 3, SmallInts: true}),
		rapid.SampledFrom(gen.U60(true, true)),
		rapid.SampledFrom([]any{math.NaN(), math.Inf(1), math.Inf(-1), json.Number("1e1000"), json.Number("-0"), json.Number("0.10"), "\xff", "a\xffb", []any{math.NaN()}, map[string]any{"\xff": 1}, json.Number("9223372036854775808")}),
	)
}

// ---------------------------------------------------------------------------
// command line

type cliCase struct {
	Args  []string `json:"args"`
	Stdin string   `json:"stdin"`
	Hex   bool     `json:"hex,omitempty"`
	Files []string `json:"files,omitempty"` // contents of f0, f1, ... in the working directory
	// Modules: file name -> content, written into the working directory (used with -L .)
	Modules map[string]string `json:"modules,omitempty"`
	// TimeoutS overrides the 10 s harness watchdog (module recursion until the
	// stack limit takes longer on a loaded machine).
	TimeoutS int `json:"timeout_s,omitempty"`
}

var cliFlags = []string{"-r", "--raw-output", "--raw-output0", "-j", "--join-output", "-c", "--compact-output", "--indent", "--indent=3", "--indent=-1", "--indent=8", "--indent=x", "--tab", "--yaml-output", "-C", "-M", "-n", "--null-input",
	"-R", "--raw-input", "--stream", "--yaml-input", "-s", "--slurp", "-f", "--from-file", "-L", "--library-path", "--arg", "--argjson", "--slurpfile", "--rawfile", "--args", "--jsonargs", "-e", "--exit-status", "-v", "--version", "-h", "--help",
	"--", "-", "--unknown", "-x", "-rn", "-nr", "-sR", "-nce", "--arg=a", "--tab=1", "-c=1", "--seq", "--stream-errors", "--ascii-output", "-a", "-S", "--sort-keys", "--unbuffered", "-", "f0", "f1", "nonexistent", ".", "x", "a", "1", "{}", "[1,2]", "\"s\"",
	"$a", "$ARGS", ".[]", "halt", "halt_error", "error", "input", "inputs", "$__prog_args", "import \"m\" as m; m::f", "include \"f0\"; .", "@json", "tojson", "-1", "- 1", "--indent", "0", "7", "8"}

var documentedExits = map[int]bool{0: true, 1: true, 2: true, 3: true, 4: true, 5: true}

func checkCLI(c cliCase) outcome {
	dir, err := os.MkdirTemp("", "c08cli")
	if err != nil {
		return outcome{discard: "tmpdir"}
	}
	defer os.RemoveAll(dir)
	for i, f := range c.Files {
		os.WriteFile(filepath.Join(dir, fmt.Sprintf("f%d", i)), []byte(f), 0o644)
	}
	for name, content := range c.Modules {
		if strings.ContainsAny(name, "/\\") || name == "" {
			continue
		}
		os.WriteFile(filepath.Join(dir, name), []byte(content), 0o644)
	}
	stdin := []byte(c.Stdin)
	if c.Hex {
		stdin = make([]byte, len(c.Stdin)/2)
		fmt.Sscanf(c.Stdin, "%x", &stdin)
	}
	args := make([]string, len(c.Args))
	for i, a := range c.Args {
		s, _ := sanitize(a)
		args[i] = s
	}
	r := cmdline.Run(cmdline.Opt{Stdin: stdin, Dir: dir, Env: []string{"GOMEMLIMIT=2GiB", "HOME=" + dir}, Timeout: time.Duration(max(c.TimeoutS, 10)) * time.Second, MaxOutput: 1 << 20}, args...)
	if r.TimedOut {
		return outcome{discard: "cli-timeout"}
	}
	if strings.Contains(r.Stderr, "goroutine ") && (strings.Contains(r.Stderr, "panic:") || strings.Contains(r.Stderr, "fatal error:")) || strings.Contains(r.Stderr, "[running]:") {
		if strings.Contains(r.Stderr, "out of memory") || strings.Contains(r.Stderr, "cannot allocate") {
			return outcome{discard: "cli-out-of-memory"}
		}
		return outcome{msg: fmt.Sprintf("the command printed a Go stack trace (exit %d):\n%s", r.Exit, head(r.Stderr, 1500))}
	}
	if strings.Contains(r.Stdout, "goroutine ") && strings.Contains(r.Stdout, "[running]:") {
		return outcome{msg: "stack trace on stdout"}
	}
	usesHalt := false
	for _, a := range args {
		if strings.Contains(a, "halt") {
			usesHalt = true
		}
	}
	if r.Exit < 0 || r.Exit > 255 {
		return outcome{msg: fmt.Sprintf("abnormal termination (exit %d): %s", r.Exit, head(r.Stderr, 800))}
	}
	if !documentedExits[r.Exit] && !usesHalt {
		return outcome{msg: fmt.Sprintf("undocumented exit status %d: %s", r.Exit, head(r.Stderr, 800))}
	}
	return outcome{stage: fmt.Sprintf("exit-%d", r.Exit)}
}

func head(s string, n int) string {
	if len(s) > n {
		return s[:n]
	}
	return s
}

// ---------------------------------------------------------------------------

func replayCase(sub string, raw json.RawMessage) string {
	if sub == "cli" {
		var c cliCase
		if err := json.Unmarshal(raw, &c); err != nil {
			return "bad replay: " + err.Error()
		}
		return checkCLI(c).msg
	}
	var c libCase
	if err := json.Unmarshal(raw, &c); err != nil {
		return "bad replay: " + err.Error()
	}
	return check(c).msg
}

func judge(t *rapid.T, sub string, c libCase) {
	c.Nil = rapid.IntRange(0, 5).Draw(t, "nilcontainers") == 0
	rec.Eval()
	rec.Journal(sub, c)
	o := check(c)
	if o.discard != "" {
		rec.Discard(o.discard)
		return
	}
	rec.Class(sub + "/" + o.stage)
	if o.stage != "parse-error" || len(c.Query) > 0 {
		rec.NT(sub + "\x00" + c.Query + "\x00" + univ.Show(c.Input.X))
	}
	rec.Sample(map[string]any{"query": c.Query, "hex": c.Hex, "input": univ.Show(c.Input.X), "stage": o.stage})
	if o.msg != "" {
		t.Fatalf("%s", rec.Fail(sub, c, "%s", o.msg))
	}
}

func TestC08(t *testing.T) {
	rec = evid.Open("C08")
	defer rec.Close()
	var err error
	if model, err = refjq.New(); err != nil {
		t.Fatal(err)
	}
	rec.Replays(replayCase)
	if rec.ReplayPath() != "" {
		return
	}
	qs, err := corpus.Queries()
	if err != nil {
		t.Fatal(err)
	}
	values := valueGen()
	names := builtinList()
	rec.Extra("builtins", len(names))

	// (E) bounded-exhaustive: every index / slice / getpath form with boundary
	// keys, in every path-consuming context, on inputs of every type
	keys := []string{"null", "true", "false", "0", "1", "-1", "1.5", "-0.5", "nan", "infinite", "-infinite", "\"\"", "\"a\"", "[]", "[0]", "[\"a\"]", "{}", "{\"start\":0,\"end\":1}", "{\"start\":null}", "1e1000", "9223372036854775808", "(null,0)", "empty", "$v", "[null]"}
	forms := []string{".[%k]", ".a[%k]", ".[%k][%l]", ".[%k:%l]", ".[%k:]", ".[:%k]", "getpath([%k])", "getpath([\"a\",%k])", "getpath([%k,%l])", ".[]?[%k]", ".[%k]?", "_index(.; %k)", "_slice(.; %k; %l)", "has(%k)", "(.[%k] // .[%l])", ".. | .[%k]?"}
	ctxs := []string{"%f", "path(%f)", "[paths] | length, (%f)", "del(%f)", "(%f) = 1", "(%f) |= 2", "(%f) += 1", "[path(%f)?]", "try path(%f) catch .", "pick(%f)", "to_entries? | (%f)", "[tostream] | (%f)", "delpaths([path(%f)])", "(%f) //= 3", "[limit(2; path(%f))]", "first(%f)", "label $o | path(%f | ., break $o)", "reduce path(%f) as $p (.; setpath($p; 0))", "map_values(%f)?", "walk(%f)?"}
	einputs := []any{nil, true, 0, "", "ab", []any{}, []any{1, []any{2}}, map[string]any{}, map[string]any{"a": []any{1}, "": nil}, []any{nil, map[string]any{"a": nil}}}
	ecount := 0
	ecomplete := true
	for fi, f := range forms {
		for ki, k := range keys {
			ls := []string{"null"}
			if strings.Contains(f, "%l") {
				ls = keys
			}
			for li, l := range ls {
				if !rec.Thorough() && strings.Contains(f, "%l") && (ki+li+fi)%5 != 0 {
					continue // quick: a fifth of the two-key products
				}
				form := strings.ReplaceAll(strings.ReplaceAll(f, "%k", k), "%l", l)
				for ci, cx := range ctxs {
					ecount++
					if !rec.Mine(ecount) {
						continue
					}
					src := strings.ReplaceAll(cx, "%f", form)
					ins := einputs
					if !rec.Thorough() {
						ins = []any{einputs[(ecount+ci)%len(einputs)], einputs[(ecount/3)%len(einputs)], nil}
					}
					for _, in := range ins {
						c := mkLib(src, in, nil)
						rec.Eval()
						rec.Journal("index-forms", c)
						o := check(c)
						if o.discard != "" {
							rec.Discard(o.discard)
							continue
						}
						rec.Class("index-forms/" + o.stage)
						rec.NT("index-forms\x00" + src + "\x00" + univ.Show(in))
						if o.msg != "" {
							rec.Direct("index-forms", c, "%s", o.msg)
							ecomplete = false
							if rec.Violations() > 10 {
								t.Fatalf("too many violations")
							}
						}
					}
				}
			}
		}
	}
	rec.Exhaustive(fmt.Sprintf("index/slice/getpath forms (%d) x boundary keys (%d) x path contexts (%d)", len(forms), len(keys), len(ctxs)), ecomplete && rec.Thorough())

	// (T) the same failing or boundary call evaluated several times in one run
	// and in two runs of one Code (memoised failures, per-Code caches)
	twice := []string{"test(\"[\")", "test(\"(\")", "test(\"a\"; \"y\")", "[match(\"*\"; \"g\")]", "capture(\"(?<x\")", "sub(\"(\"; \"x\")", "gsub(\"[\"; \"x\")", "[splits(\"+\")]", "[scan(\"(?P<\")]", "split(\"(\"; null)", "test(\"\\\\\")",
		"test(.)", "test(\"a\"; .)", "ltrimstr(1)", "tonumber", "fromjson", "@base64d", "implode", "strptime(\"%Y\")", "strftime(\"%Q\")", "mktime", "todate", "getpath([\"a\", 0, \"b\"])", "setpath([0, \"a\"]; 1)", "delpaths([[0, \"a\"]])",
		"add", "add(.[]?)", "flatten", "sort", "unique", "group_by(.)", "min", "max", "reverse", "to_entries", "from_entries", "with_entries(.)", "map_values(.)", "tostream", "[paths]", "transpose", "join(\",\")", "any", "all", "length", "keys", "has(0)", "del(.[0])", ".[0] = 1", ". + .", ". - .", ". * .", "tojson", "[.[] + .[]]", "map(. + {b: 2})", "map(. + [2])", "reduce .[] as $x (null; . + $x)", "getpath([0, \"a\"])", "setpath([0, \"a\"]; 1)", "walk(.)", "[..]", "inside(.)", "contains(.)", "index(.[0])", "@json", "@csv", "@sh", "implode", "combinations", "first", "last", ".[1:]", "limit(1; .[])", "isempty(.[])", "splits(\"a\")", "env | length", "input_filename",
		"error", "error(null)", "input", "$__loc__", "input_filename", "ascii", "@sh", "tojson | fromjson", "splits(\"a\"; \"gx\")", "test(\"a\"; \"gx\")", "test(\"(?i)\" + .)", "[limit(-1; 1)]", "range(1e1000)?", "has(.)", "keys", ".[\"a\"]", ".[0]"}
	tcomplete := true
	for ti, q := range twice {
		if !rec.Mine(ti) {
			continue
		}
		for _, form := range []string{"[.[]? | try (%s) catch \"e\"]", "[(%s)?, (%s)?]", "[try (%s) catch ., try (%s) catch .]", ".[]? | (%s)", "[.[]? | (%s)?] | length", "first(.[]? | try (%s) catch 1), (.[]? | try (%s) catch 2)"} {
			src := strings.ReplaceAll(form, "%s", q)
			for ii, in := range []any{[]any{"a", "b"}, []any{"[", "[", "("}, []any{1, 1}, []any{nil, "x", nil}, "ab", []any{map[string]any{}, map[string]any{"a": 1}}, []any{[]any{}, []any{1}}, map[string]any{"a": map[string]any{}, "b": []any{}}} {
				c := mkLib(src, in, nil)
				c.Nil = ii >= 5
				rec.Eval()
				rec.Journal("twice", c)
				o := check(c)
				if o.discard != "" {
					rec.Discard(o.discard)
					continue
				}
				rec.Class("twice/" + o.stage)
				rec.NT("twice\x00" + src + "\x00" + univ.Show(in))
				if o.msg != "" {
					rec.Direct("twice", c, "%s", o.msg)
					tcomplete = false
				}
			}
		}
	}
	rec.Exhaustive(fmt.Sprintf("%d calls evaluated repeatedly in 6 forms on 5 inputs, each Code run twice", len(twice)), tcomplete)

	// (X) regex shapes x subjects x every regex builtin: capture groups in
	// repetitions and alternations (groups that keep the capture of an earlier
	// iteration, start offsets that decrease with the group number), empty
	// matches, anchors, multi-byte and ill-formed subjects
	rePatterns := []string{"(?:(a)|(b))+", "(?:(?<key>[a-z]+)|(?<num>[0-9]+)|,)+", "((a)|(b))+", "(?:(\\\\w+)(,)?)+", "(a)|(b)|(c)", "(a*)(b*)", "(a)?(b)?(c)?", "()()()", "(?:(x)|(y)|(z))*", "((((a))))", "(a(b(c)?)?)?", "(?<n>a)|(?<n2>b)+",
		"", "^", "$", "^$", "\\\\b", "\\\\B", "a*", "a*?", "(a|ab)(c|bcd)(d*)", "(?i)(A)(b)?", "[^a]", ".", "(.)(.)?(.)?", "(\\\\p{L})+", "(é)|(e)", "(?s)(.)+", "(?m)^(a)?$", "(a)(?:b)(c)", "(?:a|(b))(?:c|(d))+", "(b)?(?:a|(b))+"}
	reSubjects := []string{"", "a", "ba", "ab", "12,ab", "ab,12", "abcabc", "aaa", "xyz", "éa", "aé", "日本a", "a\\nb", "a,b;c", "cba", "bab", "abd", "abcd", " a ", "AB"}
	reBuiltins := []string{"[match(%p; \"g\")]", "[match(%p)]", "test(%p)", "capture(%p)", "[capture(%p; \"g\")]", "[scan(%p)]", "sub(%p; \"<\\(.)>\")", "gsub(%p; \"-\")", "[splits(%p)]", "split(%p; null)", "gsub(%p; \"\\(.a? // \"x\")\")", "[match(%p; \"gi\") | .captures | length]", "sub(%p; \"\\(.key? // .n? // \"\")\"; \"g\")"}
	xcomplete := true
	xn := 0
	for _, pat := range rePatterns {
		for _, b := range reBuiltins {
			xn++
			if !rec.Mine(xn) {
				continue
			}
			src := "[.[] | try (" + strings.ReplaceAll(b, "%p", "\""+pat+"\"") + ") catch \"e\"]"
			in := make([]any, len(reSubjects)+2)
			for i, sj := range reSubjects {
				in[i] = strings.ReplaceAll(sj, "\\n", "\n")
			}
			in[len(reSubjects)], in[len(reSubjects)+1] = "a\xffb", "\xe3\x81a"
			c := mkLib(src, in, nil)
			rec.Eval()
			rec.Journal("regex-shapes", c)
			o := check(c)
			if o.discard != "" {
				rec.Discard(o.discard)
				continue
			}
			rec.Class("regex-shapes/" + o.stage)
			rec.NT("regex-shapes\x00" + src)
			if o.msg != "" {
				rec.Direct("regex-shapes", c, "%s", o.msg)
				xcomplete = false
			}
		}
	}
	rec.Exhaustive(fmt.Sprintf("%d regex shapes x %d regex builtin forms on %d subjects", len(rePatterns), len(reBuiltins), len(reSubjects)+2), xcomplete)

	// (W) wide and deep programs: one construct repeated n times in a single
	// scope / nesting (tables that are sized by a first guess and grown later)
	wide := wideForms()
	wcomplete := true
	wn := 0
	for _, n := range []int{2, 15, 16, 17, 31, 32, 33, 63, 64, 65, 66, 100, 127, 128, 129, 200, 257, 400} {
		for name, build := range wide {
			wn++
			if !rec.Mine(wn) {
				continue
			}
			src := build(n)
			for _, in := range []any{nil, 1, []any{1, 2, 3}, map[string]any{"a": 1}} {
				c := mkLib(src, in, nil)
				rec.Eval()
				rec.Journal("wide", c)
				o := check(c)
				if o.discard != "" {
					rec.Discard(o.discard)
					continue
				}
				rec.Class("wide/" + name)
				rec.NT(fmt.Sprintf("wide\x00%s\x00%d\x00%s", name, n, univ.Show(in)))
				if o.msg != "" {
					rec.Direct("wide", c, "%s (form %s, n = %d)", o.msg, name, n)
					wcomplete = false
				}
			}
			if n == 65 || n == 129 {
				// the same through the command (its own variables take slots too)
				cc := cliCase{Args: []string{"-c", src}, Stdin: "[1,2,3]"}
				rec.Eval()
				o := checkCLI(cc)
				rec.Class("wide/cli")
				if o.msg != "" {
					rec.Direct("cli", cc, "%s (form %s, n = %d)", o.msg, name, n)
					wcomplete = false
				}
			}
		}
	}
	rec.Exhaustive(fmt.Sprintf("%d wide/deep program forms x 18 sizes up to 400", len(wide)), wcomplete)

	// (i) byte-level mutations of the corpus queries
	rec.Rapid(t, "mutated", rec.Scale(150000, 3000000), func(t *rapid.T) {
		src := mutate(t, rapid.SampledFrom(qs).Draw(t, "query"))
		src, _ = sanitize(src)
		judge(t, "mutated", mkLib(src, values.Draw(t, "input"), values.Draw(t, "var")))
	})
	// (ii) every builtin with wrong-typed and boundary arguments
	rec.Rapid(t, "builtins", rec.Scale(150000, 3000000), func(t *rapid.T) {
		src := builtinProgram(t, names)
		judge(t, "builtins", mkLib(src, values.Draw(t, "input"), values.Draw(t, "var")))
	})
	// (iii) grammar programs on inputs of every Go representation
	progs := gen.Program(gen.Conf{AltPat: true, AltPatFree: true, Paths: true, Builtins: true, Update: true, Halt: true, MaxNodes: 40})
	rec.Rapid(t, "grammar", rec.Scale(60000, 1500000), func(t *rapid.T) {
		judge(t, "grammar", mkLib(progs.Draw(t, "prog").Src, values.Draw(t, "input"), values.Draw(t, "var")))
	})
	// pure byte soup
	rec.Rapid(t, "bytes", rec.Scale(60000, 1500000), func(t *rapid.T) {
		n := rapid.IntRange(0, 12).Draw(t, "n")
		var sb strings.Builder
		for i := 0; i < n; i++ {
			if rapid.Bool().Draw(t, "hostile") {
				sb.WriteString(rapid.SampledFrom(hostile).Draw(t, "h"))
			} else {
				sb.WriteByte(rapid.Byte().Draw(t, "b"))
			}
		}
		src, _ := sanitize(sb.String())
		judge(t, "bytes", mkLib(src, values.Draw(t, "input"), nil))
	})
	// modules on disk: random import/include graphs, cycles and self-imports included
	rec.Rapid(t, "cli-modules", rec.Scale(600, 20000), func(t *rapid.T) {
		names := []string{"a", "b", "c", "d"}
		c := cliCase{Modules: map[string]string{}}
		for _, n := range names[:rapid.IntRange(1, 4).Draw(t, "nmods")] {
			var sb strings.Builder
			for i := 0; i < rapid.IntRange(0, 3).Draw(t, "ndirs"); i++ {
				target := rapid.SampledFrom(names).Draw(t, "target")
				switch rapid.IntRange(0, 3).Draw(t, "dir") {
				case 0:
					sb.WriteString("include \"" + target + "\";\n")
				case 1:
					sb.WriteString("import \"" + target + "\" as " + target + ";\n")
				case 2:
					sb.WriteString("import \"" + target + "\" as $" + target + ";\n")
				default:
					sb.WriteString("import \"" + target + "\" as x {search: \"./\"};\n")
				}
			}
			sb.WriteString("def f_" + n + ": \"" + n + "\";\n")
			if rapid.IntRange(0, 5).Draw(t, "garbage") == 0 {
				sb.WriteString(rapid.SampledFrom(hostile).Draw(t, "hostile"))
			}
			c.Modules[n+".jq"] = sb.String()
		}
		c.Modules["d.json"] = rapid.SampledFrom([]string{"1 2 3", "{\"a\":1}", "[", "", "nul"}).Draw(t, "data")
		main := rapid.SampledFrom(names).Draw(t, "main")
		q := rapid.SampledFrom([]string{"import \"%s\" as m; m::f_%s", "include \"%s\"; f_%s", "import \"%s\" as m; 1", "\"%s\" | modulemeta", "import \"d\" as $d; $d, (\"%s%s\" | length)"}).Draw(t, "query")
		q = strings.ReplaceAll(q, "%s", main)
		c.Args = []string{"-n", "-c", "-L", ".", q}
		c.TimeoutS = 180
		rec.Eval()
		o := checkCLI(c)
		if o.discard != "" {
			rec.Discard(o.discard)
			return
		}
		rec.Class("cli-modules/" + o.stage)
		rec.NT("cli-modules\x00" + fmt.Sprint(c.Modules) + q)
		rec.Sample(c)
		if o.msg != "" {
			t.Fatalf("%s", rec.Fail("cli", c, "%s", o.msg))
		}
	})

	// (iv) the command: random argv and stdin
	rec.Rapid(t, "cli", rec.Scale(2500, 40000), func(t *rapid.T) {
		n := rapid.IntRange(0, 6).Draw(t, "nargs")
		c := cliCase{}
		for i := 0; i < n; i++ {
			switch rapid.IntRange(0, 5).Draw(t, "argkind") {
			case 0:
				c.Args = append(c.Args, mutate(t, rapid.SampledFrom(qs).Draw(t, "query")))
			case 1:
				c.Args = append(c.Args, rapid.SampledFrom(qs).Draw(t, "query"))
			default:
				c.Args = append(c.Args, rapid.SampledFrom(cliFlags).Draw(t, "flag"))
			}
		}
		for i, a := range c.Args {
			if strings.ContainsRune(a, 0) {
				c.Args[i] = strings.ReplaceAll(a, "\x00", "")
			}
		}
		stdin := rapid.SampledFrom([]string{"", "null", "1 2 3", "{\"a\":[1,2]}\n[3]", "{\"a\":", "[1,2", "\"abc", "tru", "\xff\xfe", "a: 1\nb: [1,2]\n", "---\n- x\n", "line1\nline2", "\x00", "1e1000 -1e1000 0.10", "[[[[[[[[[[[[[[[[[[[[[[[[[[[[[[[[]]]]]]]]]]]]]]]]]]]]]]]]]]]]]]]]", "{\"a\":1}{\"a\":2}x", "nan", "[1,]", "{,}"}).Draw(t, "stdin")
		if rapid.IntRange(0, 4).Draw(t, "mutstdin") == 0 {
			stdin = mutate(t, stdin)
		}
		if utf8.ValidString(stdin) {
			c.Stdin = stdin
		} else {
			c.Stdin, c.Hex = fmt.Sprintf("%x", stdin), true
		}
		c.Files = []string{"{\"f\":0}\n[1]", "def f: 1; .", "not json"}
		rec.Eval()
		o := checkCLI(c)
		if o.discard != "" {
			rec.Discard(o.discard)
			return
		}
		rec.Class("cli/" + o.stage)
		rec.NT("cli\x00" + fmt.Sprint(c.Args) + c.Stdin)
		rec.Sample(c)
		if o.msg != "" {
			t.Fatalf("%s", rec.Fail("cli", c, "%s", o.msg))
		}
	})
}

// FuzzParseCompileRun is the native coverage-guided target (thorough tier
// only; it cannot be pinned by a seed, the saved failing input is the
// reproducible unit).  The oracle is the same totality check.
func FuzzParseCompileRun(f *testing.F) {
	var err error
	if model, err = refjq.New(); err != nil {
		f.Fatal(err)
	}
	if rec == nil {
		rec = evid.Open("C08")
	}
	qs, _ := corpus.Queries()
	for i, q := range qs {
		if i%7 == 0 {
			f.Add(q, "null")
		}
	}
	for _, h := range hostile {
		f.Add(h, "[1,{\"a\":\"x\"}]")
	}
	f.Add("1 + (label $l | .)", "null")
	f.Add("[0,1] | (.[1:],.[1:]) |= [.]", "null")
	f.Fuzz(func(t *testing.T, src string, input string) {
		if len(src) > 300 || len(input) > 300 {
			t.Skip()
		}
		src, _ = sanitize(src)
		var in any
		d := json.NewDecoder(strings.NewReader(input))
		d.UseNumber()
		if err := d.Decode(&in); err != nil {
			in = input
		}
		c := mkLib(src, in, nil)
		o := check(c)
		if o.msg != "" {
			b, _ := json.Marshal(map[string]any{"sub": "fuzz", "case": c})
			t.Fatalf("VERIF-CASE %s VERIF-END %s", b, o.msg)
		}
	})
}
