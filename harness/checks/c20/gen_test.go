package c20

import (
	"fmt"
	"sort"
	"strings"

	"pgregory.net/rapid"
)

// ---------------------------------------------------------------------------
// (R1) generated parameter-less tail-recursive definitions
//
//	program ::= helpers `def f:` locals BODY `;` CONSUMER[ INIT | f ]
//
// The state `.` is a counter (number, [counter, acc] or {i: counter, a: acc}).
// BODY is built from *tail contexts* only, so every occurrence of `f` is in
// tail position and no backtracking point created in the body is still
// pending when it is reached:
//
//	T ::= STEP | f                          the call (STEP emits exactly once)
//	    | if C then T else STOP end         (and elif / no-else / negated / both-recursive variants)
//	    | OUT, (T)                          comma, right branch (OUT any finite generator)
//	    | FALSY // (T)                      right side of //, the left side emits nothing truthy
//	    | E as PATTERN | T                  after a binding (also ?// whose earlier alternatives fail)
//	    | B | T                             after a pipe; B emits exactly once and leaves no fork
//	    | foreach 1 as $u (.; B; T)         extract clause of a foreach over one fork-free value
//	    | def g: ...; g | T                 local definitions (helpers, inner tail-recursive loops,
//	                                        closures over bound variables, unused definitions calling f)
//	    | try error catch (T)               catch clause (the state travels as the error value)
//	    | (T)
//
// With probability 1/4 the definition is nested in `def outer(cc; $kk)`: the
// condition may then be the closure parameter cc and the step may add $kk
// (the shape of the built-in while / until).
//
// Not generated because they are not tail positions (a fork, try, label or
// caller frame outlives the call): the left side of `,` and `//`, `try T`,
// `T?`, `label $l | T`, `T | x`, `[T]`, `T as $x | ..`, reduce/foreach
// bodies, function arguments, and `B | T` where B keeps a backtracking point
// (first/limit/isempty/`a // b` with a truthy a/try/`.[]`/range outside
// brackets).
//
// Each leaf may be hoisted into a parameter-less helper definition (top
// level, local at the start of f, or at the point of use); with every
// argument-carrying leaf hoisted and no binding / `//` node, f owns no
// variable (the compiler then emits a jump instead of callrec).

type tg struct {
	t       *rapid.T
	shape   int
	pure    bool
	hoist   int
	hoistAt int
	top     []string
	local   []string
	nh      int
	nv      int
	vars    []string
	tickAt  int
	kinds   map[string]bool
	outer   bool
	ccText  string // condition passed for the closure parameter cc
}

func (g *tg) pick(label string, xs []string) string {
	return xs[rapid.IntRange(0, len(xs)-1).Draw(g.t, label)]
}

func (g *tg) ctr() string { return []string{".", ".[0]", ".i"}[g.shape] }

// withVar adds variants using a variable bound to the current state.
func (g *tg) withVar(xs []string, f func(v string) []string) []string {
	if len(g.vars) == 0 || g.pure {
		return xs
	}
	v := g.vars[rapid.IntRange(0, len(g.vars)-1).Draw(g.t, "var")]
	return append(append([]string{}, xs...), f(v)...)
}

func (g *tg) leaf(x string) string {
	usesVar := strings.Contains(x, "$v")
	h := g.pure || g.hoist == 2 || (g.hoist == 1 && rapid.Bool().Draw(g.t, "hoist"))
	if !h {
		return "(" + x + ")"
	}
	g.nh++
	name := fmt.Sprintf("h%d", g.nh)
	def := "def " + name + ": " + x + ";"
	at := g.hoistAt
	if usesVar {
		at = 2
	} else if at == 3 {
		at = rapid.IntRange(0, 2).Draw(g.t, "hoistAt")
	}
	switch at {
	case 0:
		g.top = append(g.top, def)
		return name
	case 1:
		g.local = append(g.local, def)
		return name
	}
	return "(" + def + " " + name + ")"
}

// constant pipes: a literal piped straight into another literal, a variable, a
// constant array or a constant object (the peephole pass rewrites exactly
// these instruction pairs; a slot left behind shows only in a loop that runs
// without backtracking).
var constPipes = []string{"1", "null", "\"a\" | 2", "0 | [1, 2]", "\"k\" | {a: 1}", "1 | 2 | 3", "[1] | {}", "true | false | null", "{a: 1} | [1, 2] | 0", "null | \"s\""}

func condList(shape int) []string {
	switch shape {
	case 0:
		return []string{". < %M%", "%M% > .", "(. >= %M%) | not", ". < %M% and true", "[., %M%] | .[0] < .[1]", "(. - %M%) < 0", ". < %M% or false", ". as $s | null | $s | . < %M%", ". as $s | 1 | 2 | $s < %M%", ". as $s | 0 | [1, 2] | $s | . < %M%"}
	case 1:
		return []string{".[0] < %M%", "first < %M%", "(.[0] >= %M%) | not", "%M% > .[0]", ". as [$i] | $i < %M%", ". as $s | null | $s | .[0] < %M%", ". as [$i] | 0 | {a: 1} | $i < %M%"}
	}
	return []string{".i < %M%", ".[\"i\"] < %M%", "(.i >= %M%) | not", "%M% > .i", ". as {$i} | $i < %M%", ". as $s | \"a\" | $s | .i < %M%", ". as {$i} | 1 | 2 | $i < %M%"}
}

func (g *tg) cond() string {
	xs := condList(g.shape)
	if g.outer && rapid.Bool().Draw(g.t, "cc") {
		if g.ccText == "" {
			g.ccText = g.pick("cctext", xs)
		}
		return "cc"
	}
	switch g.shape {
	case 0:
		xs = g.withVar(xs, func(v string) []string { return []string{v + " < %M%", "[" + v + "] | .[0] < %M%"} })
	case 1:
		xs = g.withVar(xs, func(v string) []string { return []string{v + "[0] < %M%", v + " | .[0] < %M%"} })
	default:
		xs = g.withVar(xs, func(v string) []string { return []string{v + ".i < %M%", v + " | .i < %M%"} })
	}
	return g.leaf(g.pick("cond", xs))
}

func ctrOf(shape int) string { return []string{".", ".[0]", ".i"}[shape] }

func parityList(shape int) []string {
	c := ctrOf(shape)
	return []string{c + " % 2 == 0", c + " % 3 == 1", "(" + c + " % 5) < 2", c + " % 2 != 0", c + " % 7 > 3"}
}

func (g *tg) parity() string {
	return g.leaf(g.pick("parity", parityList(g.shape)))
}

func stepList(shape int) []string {
	switch shape {
	case 0:
		return []string{". + 1", "1 + .", ". - -1", "[., 1] | add", ". as $q | $q + 1", "[.] | .[0] + 1", "{a: .} | .a + 1", "reduce 1 as $d (.; . + $d)", "[., .] | .[0] + 1", ". + 1 | . + 0", ". as $s | 1 | $s + 1", ". as $s | null | 2 | $s + 1", ". as $s | \"a\" | [1, 2] | $s + 1", ". as $s | 0 | {a: 1} | $s + 1", ". as $s | 1 | $s | . + 1"}
	case 1:
		return []string{"[.[0] + 1, (.[1] + .[0]) % 1000]", ".[0] += 1", ".[0] |= . + 1", "[.[0] + 1, .[1]]", "setpath([0]; .[0] + 1)", "[first + 1, last]", ". as [$i, $a] | [$i + 1, $a]", "[.[0] + 1] + .[1:]", ".[0] = .[0] + 1", ". as $s | null | $s | [.[0] + 1, .[1]]", ". as [$i, $a] | 0 | [1, 2] | [$i + 1, $a]", ". as $s | 1 | 2 | $s | .[0] += 1", ". as $s | \"a\" | {a: 1} | $s | .[0] |= . + 1"}
	}
	return []string{".i += 1", ".i |= . + 1", "{i: (.i + 1), a: .a}", ". + {i: (.i + 1)}", "setpath([\"i\"]; .i + 1)", ".i = .i + 1", ". as {i: $i} | .i = $i + 1", "[with_entries(if .key == \"i\" then .value += 1 else . end)] | .[0]", "{i: (.i + 1), a: ((.a + .i) % 1000)}", ". as $s | \"a\" | $s | .i += 1", ". as {i: $i, a: $a} | null | {a: 1} | {i: ($i + 1), a: $a}", ". as $s | 0 | [1, 2] | $s | .i |= . + 1", ". as $s | 1 | 2 | $s + {i: ($s.i + 1)}"}
}

func (g *tg) step() string {
	xs := stepList(g.shape)
	if g.outer {
		xs = append(append([]string{}, xs...), []string{". + $kk", ".[0] += $kk", ".i += $kk"}[g.shape], []string{"$kk + .", "[.[0] + $kk, .[1]]", "{i: (.i + $kk), a: .a}"}[g.shape],
			[]string{". as $s | null | $kk | $s + $kk", ". as $s | 1 | $kk | $s | .[0] += $kk", ". as $s | \"a\" | $kk | $s | .i += $kk"}[g.shape])
	}
	switch g.shape {
	case 0:
		xs = g.withVar(xs, func(v string) []string {
			return []string{v + " + 1", "1 + " + v, "null | " + v + " | . + 1", "1 | 2 | " + v + " | . + 1"}
		})
	case 1:
		xs = g.withVar(xs, func(v string) []string {
			return []string{v + " | .[0] += 1", "[" + v + "[0] + 1, .[1]]", "0 | " + v + " | .[0] += 1"}
		})
	default:
		xs = g.withVar(xs, func(v string) []string {
			return []string{v + " | .i += 1", "{i: (" + v + ".i + 1), a: .a}", "\"a\" | " + v + " | .i += 1"}
		})
	}
	return g.leaf(g.pick("step", xs))
}

func (g *tg) stop() string {
	xs := g.withVar([]string{".", "empty", "\"done\"", "[.]", g.ctr(), "null"}, func(v string) []string { return []string{v} })
	x := g.pick("stop", xs)
	if x == "." || x == "empty" || x == "null" || x == "\"done\"" {
		return x
	}
	return g.leaf(x)
}

func (g *tg) truthyStop() string {
	return g.pick("tstop", []string{".", "\"done\"", "[.]", "{v: .}"})
}

// out: any finite generator (its backtracking points are exhausted before
// the right branch of the comma runs).
func (g *tg) out() string {
	c := g.ctr()
	xs := []string{".", c, "[.]", "{v: .}", "\"x\"", "(., .)", "empty", c + " | select(. % 100 == 0)", "range(2)", "null",
		"first(range(3))", "(" + c + ", 1)", "(null // .)", "(. // 1)", "try error(\"x\") catch .", "try . catch 0", "label $o | (1, break $o)",
		"limit(2; repeat(" + c + "))", "[range(3)]", "first(" + c + ", 1)", "isempty(empty)", ".. | numbers", "path(..)", "[paths]",
		c + " | tostring", "@json", "\"\\(" + c + ")\"", c + " as $z | $z", "reduce range(3) as $i (0; . + $i)", "foreach range(2) as $i (0; . + $i)",
		"def g: 1, 2; g", c + " | if . % 2 == 0 then \"e\" else \"o\" end", "limit(3; " + c + " | recurse(. + 1))", "[limit(2; " + c + " | while(true; . + 1))]",
		c + " | until(. % 4 == 0; . + 1)", "nth(2; range(5))", "any(range(3); . > 1)", "all(range(3); . < 5)", "last(range(3))", ".zz?", "(.[]?, 0)", "tostream", "[tostream] | length"}
	xs = append(xs, "1 | 2", "null | [1, 2]", "\"a\" | {a: 1}", ". as $s | 0 | $s")
	xs = g.withVar(xs, func(v string) []string {
		return []string{v, "[" + v + ", .]", v + " | tojson", "0 | " + v, "null | [1, 2] | " + v}
	})
	return g.leaf(g.pick("out", xs))
}

// falsy: emits only null/false (or nothing) and leaves no fork behind.
func falsyList(shape int) []string {
	c := ctrOf(shape)
	return []string{"1 | null", "\"a\" | false", "0 | [1, 2] | null", "{a: 1} | false", "empty", "null", "false", "(null, false)", ".zz?", c + " | select(. < 0)", "first(empty)", "if true then empty else . end", "[] | .[]", ". and false", "try error(\"x\") catch empty", "(null | not | not)", "limit(0; 1)", "(empty // null)", "[] | first", "{} | .a", "reduce empty as $x (null; 1)", "isempty(1)"}
}

func (g *tg) falsy() string {
	return g.leaf(g.pick("falsy", falsyList(g.shape)))
}

// balanced: emits the state unchanged exactly once and leaves no fork behind.
func balancedList(shape int) []string {
	xs := []string{".", "[.] | .[0]", "[., .] | .[1]", "{a: .} | .a", "tojson | fromjson", "[.] | first", "[.] | last", "reduce range(3) as $i (.; .)",
		"reduce empty as $i (.; 0)", "foreach 1 as $i (.; .)", "last(., .)", "[limit(2; repeat(.))] | .[0]", "(null // .)", "(empty // .)", "((false, null) // .)",
		"if . == null then 0 else . end", ". as $s | [range(4)] | $s", ". as $s | 0 | until(. >= 3; . + 1) | $s", ". as $s | [0 | while(. < 3; . + 1)] | $s",
		". as $s | last(range(5)) | $s", ". as $s | [0 | recurse(. + 1; . < 4)] | $s", ". as $s | [path(..)] | $s", "[first(.)] | .[0]", "[first(range(5))] as [$z] | .",
		"getpath([])", "[.] | sort | .[0]", "[.] | map(.) | .[0]", "[.[]?] as $e | .", ". as $s | [limit(3; repeat(1))] | $s", ". as $s | [..] | $s",
		"[try error(\"x\") catch .] as $e | .", "[isempty(empty)] as $e | .", ". as $s | reduce range(5) as $i (0; . + $i) | $s", ". as $s | [foreach range(3) as $i (0; . + $i)] | $s",
		"[.] | to_entries | .[0].value", "[nth(3; range(10))] as $e | .", "[any(range(3); . > 1), all(range(3); . < 1)] as $e | .", "[paths] as $p | .", "[tostream] as $t | .",
		"[fromstream(tostream)] | .[0]", "walk(.)", ". as $s | \"a,b\" | [splits(\",\")] | $s", ". as $s | [\"abc\" | sub(\"b\"; \"x\")] | $s", "[.] | add", "[., .] | min", "[.] | unique | .[0]",
		". as $s | [range(0; 10; 3)] | length | $s", "if . then . else . end", ". as $s | [$s] | .[0]", "[.] | .[0:1] | .[0]", "[[.]] | flatten(1) | .[0]",
		". as $s | {} | .a.b.c = 1 | $s", ". as $s | [1, [2]] | getpath([1, 0]) | $s", "([.] | tojson) as $j | $j | fromjson | .[0]"}
	for _, cp := range constPipes {
		xs = append(xs, ". as $s | "+cp+" | $s")
	}
	switch shape {
	case 0:
		xs = append(xs, ". + 0", ". * 1", "\"\\(.)\" | tonumber", "{a: .} | .[]", "[.] | .[]", "tostring | tonumber", "floor", ". |= .", ". += 0", "[., 0] | max", "-(-(.))")
	case 1:
		xs = append(xs, "map(.)", ".[1] |= . + 0", ".[0] += 0", "[.[]]", "to_entries | map(.value)", "[.[0], .[1]]", ". as [$a, $b] | [$a, $b]", "del(.[5])", ".[2:] as $r | .",
			"[limit(2; .[])]", "reverse | reverse", "flatten", "(.[0], .[1]) |= .", ".[:2]", ". + []", "[.[] | .]", "[.[0]] + [.[1]]", "path(.[0]) as $p | .", "[.[] | select(true)]")
	default:
		xs = append(xs, ".a |= .", ".x = 1 | del(.x)", "[to_entries | from_entries] | .[0]", "[with_entries(.)] | first", "map_values(.)", ". + {}", "{i, a}", "{i: .i, a: .a}", ". as {i: $i, a: $a} | {i: $i, a: $a}",
			"delpaths([[\"zz\"]])", ". * {}", "pick(.i, .a)", ".a += 0", "(.i, .a) |= .", "[.[]] as $vals | .", "keys as $k | .", "has(\"i\") as $h | .", "{i: .i} + {a: .a}", "path(.i) as $p | .", "del(.zz)", ".a //= 0")
	}
	return xs
}

func (g *tg) balanced() string {
	xs := balancedList(g.shape)
	xs = g.withVar(xs, func(v string) []string {
		return []string{"1 | " + v, "null | 2 | " + v, "\"a\" | [1, 2] | " + v, "0 | {a: 1} | " + v}
	})
	if g.outer {
		xs = append(append([]string{}, xs...), ". as $s | 1 | $kk | $s", ". as $s | $kk | 2 | $s")
	}
	x := g.pick("balanced", xs)
	if x == "." {
		return x
	}
	return g.leaf(x)
}

func (g *tg) newVar() string {
	g.nv++
	return fmt.Sprintf("$v%d", g.nv)
}

func (g *tg) call(guarded bool) string {
	s := g.step()
	switch g.tickAt {
	case 1:
		s += " | tick"
	case 2:
		s = "tick | " + s
	}
	s += " | f"
	if !guarded {
		g.kinds["if"] = true
		return "if " + g.cond() + " then " + s + " else " + g.stop() + " end"
	}
	return s
}

func (g *tg) tail(depth int, guarded bool) string {
	if depth <= 0 {
		return g.call(guarded)
	}
	kinds := []string{"call", "if", "if", "elif", "split", "comma", "comma", "pipe", "pipe", "local", "local", "paren", "catch", "alt", "alt", "bind", "bind", "fx"}
	if g.pure {
		kinds = kinds[:13]
	}
	k := g.pick("node", kinds)
	g.kinds[k] = true
	switch k {
	case "call":
		return g.call(guarded)
	case "if":
		switch rapid.IntRange(0, 3).Draw(g.t, "ifkind") {
		case 0:
			return "if " + g.cond() + " then " + g.tail(depth-1, true) + " else " + g.stop() + " end"
		case 1:
			return "if " + g.cond() + " | not then " + g.stop() + " else " + g.tail(depth-1, true) + " end"
		case 2:
			return "if " + g.cond() + " then " + g.tail(depth-1, true) + " end"
		default:
			return "if " + g.cond() + " then (" + g.tail(depth-1, true) + ") else " + g.stop() + " end"
		}
	case "elif":
		if rapid.Bool().Draw(g.t, "elif3") {
			return "if false then " + g.stop() + " elif null then " + g.stop() + " elif " + g.parity() + " then " + g.tail(depth-1, guarded) + " else " + g.tail(depth-1, guarded) + " end"
		}
		return "if " + g.cond() + " | not then " + g.stop() + " elif " + g.parity() + " then " + g.tail(depth-1, true) + " else " + g.tail(depth-1, true) + " end"
	case "split":
		return "if " + g.parity() + " then " + g.tail(depth-1, guarded) + " else " + g.tail(depth-1, guarded) + " end"
	case "comma":
		return g.out() + ", (" + g.tail(depth-1, guarded) + ")"
	case "pipe":
		return "(" + g.balanced() + " | " + g.tail(depth-1, guarded) + ")"
	case "paren":
		return "(" + g.tail(depth-1, guarded) + ")"
	case "catch": // the catch clause runs after the try fork is gone; error(.) hands the state over
		return "try error catch (" + g.tail(depth-1, guarded) + ")"
	case "fx": // extract clause of a foreach over a single, fork-free value
		g.nv++
		return fmt.Sprintf("(foreach %s as $u%d (.; %s; %s))", g.pick("fxgen", []string{"1", ".", "null", "\"k\""}), g.nv, g.balanced(), g.tail(depth-1, guarded))
	case "alt":
		if rapid.Bool().Draw(g.t, "altguard") {
			return "(if " + g.cond() + " then empty else " + g.truthyStop() + " end) // (" + g.tail(depth-1, true) + ")"
		}
		return g.falsy() + " // (" + g.tail(depth-1, guarded) + ")"
	case "bind":
		v := g.newVar()
		var head string
		switch rapid.IntRange(0, 6).Draw(g.t, "bindkind") {
		case 0:
			head = ". as " + v
		case 1:
			head = g.balanced() + " as " + v
		case 2:
			head = "[., 1] as [" + v + ", $one" + v[2:] + "]"
		case 3:
			head = "{a: .} as {a: " + v + "}"
		case 4:
			head = "{" + v[1:] + ": .} as {" + v + "}"
		case 5:
			if g.shape == 1 {
				head = ". as {$e" + v[2:] + "} ?// " + v
			} else {
				head = ". as [$e" + v[2:] + "] ?// " + v
			}
		default:
			if g.shape == 1 {
				head = ". as {$e" + v[2:] + "} ?// {a: $e" + v[2:] + "} ?// " + v
			} else {
				head = ". as [$e" + v[2:] + "] ?// [[$e" + v[2:] + "]] ?// " + v
			}
		}
		saved := g.vars
		g.vars = append(append([]string{}, g.vars...), v)
		body := g.tail(depth-1, guarded)
		g.vars = saved
		return "(" + head + " | " + body + ")"
	case "local":
		g.nh++
		name := fmt.Sprintf("g%d", g.nh)
		var def, use string
		lk := rapid.IntRange(0, 8).Draw(g.t, "localkind")
		if g.pure {
			lk = []int{0, 3, 4, 5, 6, 0, 3, 4, 5}[lk] // nothing that gives f a variable of its own
		}
		switch lk {
		case 0: // helper applied before the rest
			def, use = "def "+name+": "+strings.Trim(g.balancedRaw(), " ")+";", name+" | "
		case 1: // inner tail-recursive loop, state-preserving
			def = "def " + name + ": if .[1] < 3 then [.[0], .[1] + 1] | " + name + " else .[0] end;"
			use = "[., 0] | " + name + " | "
		case 2: // inner generator loop collected
			def = "def " + name + ": if . < 3 then ., (. + 1 | " + name + ") else empty end;"
			use = "reduce (0 | " + name + ") as $x" + fmt.Sprint(g.nh) + " (.; .) | "
		case 3: // nested two levels
			def = "def " + name + ": def h" + name + ": .; h" + name + ";"
			use = name + " | "
		case 4: // unused definition that calls f
			def, use = "def "+name+": . | f;", ""
		case 5: // shadowing the name of the function
			def = "def " + name + ": def f: .; f;"
			use = name + " | "
		case 6: // closure over a bound variable
			if len(g.vars) > 0 && !g.pure {
				def, use = "def "+name+": "+g.vars[len(g.vars)-1]+";", name+" | "
			} else {
				def, use = "def "+name+": .;", name+" | "
			}
		case 7: // inner loop of its own, started per turn, emitting through last
			def = "def " + name + ": if . < 4 then ., (. + 1 | " + name + ") else empty end;"
			use = "[., last(0 | " + name + ")] | .[0] | "
		default: // inner until-like loop with its own variable
			def = "def " + name + ": . as $w | if $w[1] < 2 then [$w[0], $w[1] + 1] | " + name + " else $w[0] end;"
			use = "[., 0] | " + name + " | "
		}
		return "(" + def + " " + use + g.tail(depth-1, guarded) + ")"
	}
	return g.call(guarded)
}

// balancedRaw is a balanced expression without hoisting (used as a helper body).
func (g *tg) balancedRaw() string {
	saved, savedPure := g.hoist, g.pure
	g.hoist, g.pure = 0, false
	vars := g.vars
	g.vars = nil
	x := g.balanced()
	g.hoist, g.pure, g.vars = saved, savedPure, vars
	return x
}

var consumers = []string{
	"X", "X", "X", "(X)", "X | select(true)", "[X | select(false)] | length", "reduce (X) as $x (0; . + 1)", "last(X)", "first(X | select(false)), \"end\"",
	"isempty(X | select(false))", "any(X; false)", "all(X; true)", "foreach (X) as $x (0; . + 1; select(. % 1000 == 0))", "limit(1000000000; X)",
	"(X) as $x | $x", "label $out | X", "try (X) catch .", "(X) // \"none\"", "null // (X)", "1, (X)", "(X), 1", "def outer: X; outer",
	"if true then X else 0 end", "nth(1000000000; X)", "skip(3; X)", ". as $d | X", "X | tojson | length", "X | . as $o | $o", "{a: (X)} | .a",
	"X | [.] | .[0]", "[limit(3; X)], (X)", "foreach (X) as $x (0; . + 1) | select(. < 0)", "reduce (X) as $z (0; . + 1)",
}

func genTailRec(t *rapid.T) (progCase, []string) {
	g := &tg{t: t, kinds: map[string]bool{}}
	g.shape = rapid.IntRange(0, 2).Draw(t, "shape")
	g.pure = rapid.IntRange(0, 3).Draw(t, "pure") == 0
	g.hoist = rapid.IntRange(0, 2).Draw(t, "hoist")
	g.hoistAt = rapid.IntRange(0, 3).Draw(t, "hoistAt")
	g.tickAt = rapid.IntRange(0, 2).Draw(t, "tickAt")
	g.outer = rapid.IntRange(0, 3).Draw(t, "outer") == 0
	depth := rapid.IntRange(0, 4).Draw(t, "depth")
	body := g.tail(depth, false)
	if g.tickAt == 0 {
		body = "tick | " + body
	}
	init := []string{"0", "[0, 0]", "{i: 0, a: 0}"}[g.shape]
	cons := consumers[rapid.IntRange(0, len(consumers)-1).Draw(t, "consumer")]
	var sb strings.Builder
	if g.outer {
		sb.WriteString("def outer(cc; $kk): ")
	}
	for _, d := range g.top {
		sb.WriteString(d + " ")
	}
	sb.WriteString("def f: ")
	for _, d := range g.local {
		sb.WriteString(d + " ")
	}
	sb.WriteString(body + "; ")
	if g.outer {
		if g.ccText == "" {
			g.ccText = "true"
		}
		sb.WriteString(init + " | f; ")
		sb.WriteString(strings.ReplaceAll(cons, "X", "outer("+g.ccText+"; 1)"))
	} else {
		sb.WriteString(strings.ReplaceAll(cons, "X", init+" | f"))
	}
	n := drawN(t)
	c := progCase{Prog: sb.String(), N: n, Mode: "tick"}
	c.Heap = n >= 20000 && rapid.IntRange(0, 3).Draw(t, "heap") == 0
	classes := []string{fmt.Sprintf("shape/%d", g.shape), fmt.Sprintf("tick-at/%d", g.tickAt), fmt.Sprintf("depth/%d", depth), "consumer/" + cons}
	if g.pure {
		classes = append(classes, "variable-free-body")
	}
	if g.outer {
		classes = append(classes, "nested-in-function-with-parameters")
	}
	var ks []string
	for k := range g.kinds {
		ks = append(ks, k)
	}
	sort.Strings(ks)
	for _, k := range ks {
		classes = append(classes, "node/"+k)
	}
	if g.nh > 0 {
		classes = append(classes, "helpers")
	}
	return c, classes
}

func drawN(t *rapid.T) int {
	if rec != nil && rec.Thorough() {
		return rapid.SampledFrom([]int{2000, 2000, 2000, 2000, 2000, 2000, 2000, 2000, 20000, 20000, 20000, 100000}).Draw(t, "n")
	}
	return rapid.SampledFrom([]int{2000, 2000, 2000, 2000, 2000, 2000, 2000, 20000}).Draw(t, "n")
}

// ---------------------------------------------------------------------------
// (R2) generated compositions of the built-in iteration forms
//
//	stream S  ::= range / while / repeat / recurse / inputs / nat / a tail-recursive def
//	            | limit(big; S) | S | select(P) | S | MAP | foreach S ... | S as $x | $x
//	            | label $l | S | skip(k; S) | first part, S
//	program   ::= S                                   mode out  (consume n and 8n outputs)
//	            | CONSUMER[ limit(%M%; S) | tick ]    mode tick (emit-once consumers)
//	            | CONSUMER[ limit(%M%; S) ]           mode post (two fresh runs)

type cg struct {
	t     *rapid.T
	kinds map[string]bool
	self  bool // the stream ticks by itself (inputs / nat)
}

func (g *cg) pick(label string, xs []string) string {
	return xs[rapid.IntRange(0, len(xs)-1).Draw(g.t, label)]
}

func (g *cg) num(label string) string {
	return g.pick(label, []string{"0", "1", "-3", "7", "0.5", "-0.25", "100", "1000000", "9007199254740993", "-9223372036854775808", "1.5e3"})
}

func (g *cg) posStep() string {
	return g.pick("pstep", []string{"1", "2", "3", "0.5", "0.25", "1000", "1e-3", "7"})
}

func (g *cg) source() string {
	k := g.pick("source", []string{"range1", "range2", "range3", "rangeneg", "while", "whilebig", "repeat", "repeatmulti", "repeatupd", "recurse", "recurse2", "recurseif", "inputs", "nat", "def", "defvar", "defif", "whileobj", "recursearr", "rangenested", "whileconst", "recurseconst", "repeatconst", "defconst", "untilconst"})
	g.kinds["source/"+k] = true
	a := g.num("a")
	switch k {
	case "range1":
		return g.pick("r1", []string{"range(infinite)", "range(1000000000)", "range(1e18)"})
	case "range2":
		return "range(" + a + "; infinite)"
	case "range3":
		return "range(" + a + "; infinite; " + g.posStep() + ")"
	case "rangeneg":
		return "range(" + a + "; -infinite; -" + g.posStep() + ")"
	case "while":
		return a + " | while(true; . + " + g.posStep() + ")"
	case "whilebig":
		return a + " | while(. < 1e300; . + " + g.posStep() + ")"
	case "repeat":
		return "repeat(" + g.pick("rc", []string{"1", "null", "\"s\"", "[1, 2]", "{a: 1}", ".", "true"}) + ")"
	case "repeatmulti":
		return "repeat(" + g.pick("rm", []string{"1, 2", "1, 2, 3", "range(4)", "(1, 2) | . + 1", "first(range(5)), 7", "limit(2; repeat(0))", ".[]?, 0", "empty, 1"}) + ")"
	case "repeatupd":
		return a + " | repeat(" + g.pick("ru", []string{". + 1", "[.]", "tostring", ". as $q | $q", "until(true; .)"}) + ")"
	case "recurse":
		return a + " | recurse(. + " + g.posStep() + ")"
	case "recurse2":
		return a + " | recurse(. + " + g.posStep() + "; " + g.pick("rcond", []string{"true", ". < 1e300", ". != null", "type == \"number\""}) + ")"
	case "recurseif":
		return a + " | recurse(if . < 1e300 then . + " + g.posStep() + " else empty end)"
	case "inputs":
		g.self = true
		return g.pick("in", []string{"inputs", "(input, inputs)", "repeat(input)", "(def r: input, r; r)", "(def r: input as $x | $x, r; r)"})
	case "nat":
		g.self = true
		return "nat"
	case "whileconst":
		return a + " | while(true; . as $s | " + g.pick("cp", constPipes) + " | $s + " + g.posStep() + ")"
	case "recurseconst":
		return a + " | recurse(. as $s | " + g.pick("cp", constPipes) + " | $s + " + g.posStep() + ")"
	case "repeatconst":
		return g.pick("rcp", []string{"repeat(1 | 2)", "repeat(null | [1, 2])", "repeat(\"a\" | {a: 1})", "1 as $x | repeat(0 | $x)", "0 | repeat(. as $s | 1 | $s)"})
	case "defconst":
		return a + " | (def f: ., (. as $s | " + g.pick("cp", constPipes) + " | $s + " + g.posStep() + " | f); f)"
	case "untilconst":
		return "range(infinite) | until(. % 5 == 0; . as $s | " + g.pick("cp", constPipes) + " | $s + 1)"
	case "def":
		return a + " | (def f: ., (. + " + g.posStep() + " | f); f)"
	case "defvar":
		return a + " | (def f: . as $x | $x, ($x + " + g.posStep() + " | f); f)"
	case "defif":
		return a + " | (def f: if . < 1e300 then ., (. + " + g.posStep() + " | f) else empty end; f)"
	case "whileobj":
		return "{i: " + a + "} | while(true; .i += 1) | .i"
	case "recursearr":
		return "[" + a + "] | recurse([.[0] + 1]) | .[0]"
	default:
		return "range(range(infinite))"
	}
}

var streamMaps = []string{".", "[.]", "{a: .}", "tojson", ". as $x | $x", "[., 1] | .[0]", "(. // 0)", "(null // .)", "try . catch 0", "try error catch .", "first(., 1)",
	"[.] | first", "if . then . else 0 end", "reduce range(3) as $i (.; .)", "until(true; .)", "last(., .)", "limit(1; ., .)", "first(range(3))", "isempty(empty)",
	"[limit(2; repeat(.))]", "(., .)", "range(2)", ". as [$a] ?// $a | $a", "label $l | (., break $l)", "[.] | .[0] |= .", "{a: .} | .a |= . | .a", "tojson | fromjson",
	"[range(3)] | length", "any(., 1; . == 1)", "all(., 1; . == 1)", "nth(1; ., ., .)", "[paths]", "[..] | length", "path(.)", "getpath([])", ".a?, 1", "[.[]?]",
	"[foreach range(3) as $i (0; . + $i)] | length", "last(range(3))", "select(true)", "select(. != 5)", "select(type != \"null\")", "(def h: .; h)", "(def h: if . == null then h else . end; h)", ". as $s | 1 | $s", ". as $s | null | [1, 2] | $s", "1 | 2", "\"a\" | {a: 1}"}

func (g *cg) stream(depth int) string {
	if depth <= 0 {
		return g.source()
	}
	k := g.pick("wrap", []string{"source", "limit", "map", "map", "map", "foreach", "foreach3", "foreachnull", "as", "label", "labelbreak", "skip", "prefix", "try", "alt", "paren", "if", "def", "limitseq"})
	if k != "source" {
		g.kinds["wrap/"+k] = true
	}
	switch k {
	case "source":
		return g.source()
	case "limit":
		return "limit(1000000000; " + g.stream(depth-1) + ")"
	case "map":
		return g.stream(depth-1) + " | " + g.pick("map", streamMaps)
	case "foreach":
		return "foreach (" + g.stream(depth-1) + ") as $x (0; . + 1)"
	case "foreach3":
		return "foreach (" + g.stream(depth-1) + ") as $x (0; . + 1; [$x, .]) | .[0]"
	case "foreachnull":
		return "foreach (" + g.stream(depth-1) + ") as $x (null; $x; .)"
	case "as":
		return "(" + g.stream(depth-1) + ") as $y | $y"
	case "label":
		return "label $out | " + g.stream(depth-1)
	case "labelbreak":
		return "label $out | " + g.stream(depth-1) + " | if . == \"never\" then break $out else . end"
	case "skip":
		return "skip(" + g.pick("skipk", []string{"0", "1", "5", "100"}) + "; " + g.stream(depth-1) + ")"
	case "prefix":
		return g.pick("prefix", []string{"1", "(1, 2)", "first(range(3))", "limit(3; repeat(0))", "empty", "range(5)"}) + ", (" + g.stream(depth-1) + ")"
	case "try":
		return "try (" + g.stream(depth-1) + ") catch ."
	case "alt":
		return "null // (" + g.stream(depth-1) + ")"
	case "paren":
		return "(" + g.stream(depth-1) + ")"
	case "if":
		return "if true then " + g.stream(depth-1) + " else 0 end"
	case "def":
		return "def s: " + g.stream(depth-1) + "; s"
	default:
		return "limit(" + g.pick("lk", []string{"1", "10", "1000"}) + "; " + g.stream(depth-1) + "), (" + g.stream(depth-1) + ")"
	}
}

var onceConsumers = []string{
	"last(X)", "reduce (X) as $x (0; . + 1)", "reduce (X) as $x (null; $x)", "foreach (X) as $x (0; . + 1; select(. >= %M%))", "first(X | select(false)), 0",
	"isempty(X | select(false))", "any(X; false)", "all(X; true)", "nth(%M% - 1; X)", "[X | select(false)]", "X | select(false)", "limit(1; X | select(false))",
	"reduce (X) as $q (0; . + 1)", "first(foreach (X) as $x (0; . + 1; select(. >= %M%)))", "label $l | foreach (X) as $x (0; . + 1; if . >= %M% then ., break $l else empty end)",
	"last(foreach (X) as $x (0; . + 1))", "reduce (X | select(true)) as $x (0; . + 1) | . == %M%", "last(limit(%M%; X))", "[limit(2; X)], last(X)",
	"def c: reduce (X) as $x (0; . + 1); c", "try last(X) catch .", "last(X) // 0", "(last(X)) as $l | $l", "skip(%M% - 1; X)", "last(X | [.] | .[0])",
}

func genCompose(t *rapid.T) (progCase, []string) {
	g := &cg{t: t, kinds: map[string]bool{}}
	depth := rapid.IntRange(0, 3).Draw(t, "depth")
	s := g.stream(depth)
	mode := rapid.SampledFrom([]string{"out", "out", "tick", "post"}).Draw(t, "mode")
	n := drawN(t)
	c := progCase{N: n, Mode: mode}
	classes := []string{fmt.Sprintf("depth/%d", depth)}
	switch mode {
	case "out":
		c.Prog = s
	default:
		x := "limit(%M%; " + s + ")"
		if mode == "tick" && !g.self && !strings.Contains(s, "tick") {
			x += " | tick"
		}
		if mode == "tick" && (g.self || strings.Contains(s, "tick")) {
			// the stream counts its own turns; a stream with a filter may need
			// more source turns than outputs, which only makes the run longer
			classes = append(classes, "self-ticking")
		}
		cons := onceConsumers[rapid.IntRange(0, len(onceConsumers)-1).Draw(t, "consumer")]
		c.Prog = strings.ReplaceAll(cons, "X", x)
		classes = append(classes, "consumer/"+cons)
		c.Heap = n >= 20000 && rapid.IntRange(0, 3).Draw(t, "heap") == 0
	}
	var ks []string
	for k := range g.kinds {
		ks = append(ks, k)
	}
	sort.Strings(ks)
	classes = append(classes, ks...)
	return c, classes
}
