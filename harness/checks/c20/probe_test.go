package c20

import (
	"fmt"
	"testing"

	"github.com/itchyny/gojq"
	"verif/internal/run"
)

func fpStr(m map[string]int) string {
	keys := []string{"forks", "stack.data", "stack.index", "stack.limit", "scopes.data", "scopes.index", "scopes.limit", "paths.data", "paths.index", "values", "offset"}
	s := ""
	for _, k := range keys {
		s += fmt.Sprintf("%s=%d ", k, m[k])
	}
	return s
}

func TestProbe(t *testing.T) {
	progs := []string{
		"range(infinite)",
		"0|while(true; .+1)",
		"repeat(1)",
		"0|recurse(.+1)",
		"0|recurse(.+1; true)",
		"limit(1000000000; repeat(1))",
		"def f: ., (.+1|f); 0|f",
		"def f: . as $x | $x, ($x+1|f); 0|f",
		"def f: (.a // 1) as $x | ., (.+1|f); 0|f",
		"def f: ., ((.a // 1) | f); 0|f",
		"def f: ., ((try . catch .) | f); 0|f",
		"def f: ., (first(.+1) | f); 0|f",
		"def f: ., ([first(.+1)][0] | f); 0|f",
		"def f: ., (isempty(empty) | f); 0|f",
		"def f: def g: if . < 0 then . else ., (.+1|f) end; g; 0|f",
		"def f: def g: ., (.+1|f); g; 0|f",
		"def f: ., (.+1 | (f // 3)); 0|f",
		"def f: ., (.+1 | (empty // f)); 0|f",
		"def f: ., (.+1 | (null // f)); 0|f",
		"def f: ., (.+1 | (error // f)); 0|f",
		"def f: ., (.+1 | try f catch .); 0|f",
		"def f: ., (.+1 | label $l | f); 0|f",
		"def f: ., (.+1 | . as [$a] ?// $a | f); 0|f",
		"def f: ., (.+1 | if . then f else . end); 0|f",
		"def f: ., (.+1 | if . then f end); 0|f",
		"def f: ., (.+1 | if false then 1 elif null then 2 elif . then f else 3 end); 0|f",
		"def f: ., (.+1 | reduce (1,2) as $x (.; .) | f); 0|f",
		"def f: ., (.+1 | foreach (1) as $x (.; .) | f); 0|f",
		"def f: ., (.+1 | def h: .+0; h | f); 0|f",
		"def f: ., (.+1 | def h: if . % 10 == 0 then . else .+1|h end; h | f); 0|f",
		"def f: ., (.+1 | f | .); 0|f",
		"def f: ., (.+1 | (f)); 0|f",
		"def f: ., (.+1 | f?); 0|f",
		"def f: (.+1 | f), .; 0|f",
	}
	for _, p := range progs {
		code, err := run.Compile(p)
		if err != nil {
			t.Logf("%s: %v", p, err)
			continue
		}
		var fps []map[string]int
		for _, n := range []int{2000, 16000} {
			it := code.Run(nil)
			cnt := 0
			for i := 0; i < n; i++ {
				v, ok := it.Next()
				if !ok {
					break
				}
				if _, isErr := v.(error); isErr {
					break
				}
				cnt++
			}
			fp := gojq.VerifFootprint(it)
			fp["cnt"] = cnt
			fps = append(fps, fp)
		}
		same := fpStr(fps[0]) == fpStr(fps[1])
		t.Logf("%-90s same=%v\n   n: cnt=%d %s\n  8n: cnt=%d %s", p, same, fps[0]["cnt"], fpStr(fps[0]), fps[1]["cnt"], fpStr(fps[1]))
	}
}
