//go:build c20dev

// Development aids (not built by bin/check): go test -tags "verif c20dev" -run TestLeaves ./checks/c20
package c20

import (
	"pgregory.net/rapid"
	"strings"
	"testing"

	"github.com/itchyny/gojq"
	"verif/internal/run"
	"verif/internal/univ"
)

func states(shape int) []any {
	switch shape {
	case 0:
		return []any{0, 5, 7, 99}
	case 1:
		return []any{[]any{0, 0}, []any{5, 3}, []any{98, 999}}
	}
	return []any{map[string]any{"i": 0, "a": 0}, map[string]any{"i": 5, "a": 3}, map[string]any{"i": 98, "a": 7}}
}

func ctrVal(shape int, v any) any {
	switch shape {
	case 0:
		return v
	case 1:
		return v.([]any)[0]
	}
	return v.(map[string]any)["i"]
}

func runAll(t *testing.T, src string, in any) (outs []any, forksAfterFirst int, ok bool) {
	p := &probe{size: 3}
	code, err := run.Compile(strings.ReplaceAll(src, "%M%", "100"),
		gojq.WithFunction("tick", 0, 0, func(v any, _ []any) any { return v }),
		gojq.WithIterFunction("nat", 0, 0, func(any, []any) gojq.Iter { return &natIter{p: p} }),
		gojq.WithInputIter(&inIter{p: p}))
	if err != nil {
		t.Errorf("%s: %v", src, err)
		return nil, 0, false
	}
	it := code.Run(univ.Copy(in))
	for i := 0; i < 100; i++ {
		v, more := it.Next()
		if !more {
			break
		}
		if e, isErr := v.(error); isErr {
			t.Errorf("%s on %s: error %v", src, univ.Show(in), e)
			return nil, 0, false
		}
		if i == 0 {
			forksAfterFirst = gojq.VerifFootprint(it)["forks"]
		}
		outs = append(outs, v)
	}
	return outs, forksAfterFirst, true
}

func TestLeaves(t *testing.T) {
	for shape := 0; shape < 3; shape++ {
		for _, st := range states(shape) {
			for _, b := range balancedList(shape) {
				outs, forks, ok := runAll(t, b, st)
				if !ok {
					continue
				}
				if len(outs) != 1 || !univ.Equal(outs[0], st) || forks != 0 {
					t.Errorf("balanced %q on %s: outs=%s forks=%d", b, univ.Show(st), univ.ShowAll(outs), forks)
				}
			}
			for _, b := range stepList(shape) {
				outs, forks, ok := runAll(t, b, st)
				if !ok {
					continue
				}
				if len(outs) != 1 || forks != 0 || !univ.Equal(ctrVal(shape, outs[0]), ctrVal(shape, st).(int)+1) {
					t.Errorf("step %q on %s: outs=%s forks=%d", b, univ.Show(st), univ.ShowAll(outs), forks)
				}
			}
			for _, b := range append(condList(shape), parityList(shape)...) {
				outs, forks, ok := runAll(t, b, st)
				if !ok {
					continue
				}
				if len(outs) != 1 || forks != 0 {
					t.Errorf("cond %q on %s: outs=%s forks=%d", b, univ.Show(st), univ.ShowAll(outs), forks)
				} else if _, isB := outs[0].(bool); !isB {
					t.Errorf("cond %q on %s: outs=%s", b, univ.Show(st), univ.ShowAll(outs))
				}
			}
			for _, b := range falsyList(shape) {
				outs, _, ok := runAll(t, b, st)
				if !ok {
					continue
				}
				for _, o := range outs {
					if o != nil && o != false {
						t.Errorf("falsy %q on %s: outs=%s", b, univ.Show(st), univ.ShowAll(outs))
					}
				}
			}
		}
	}
}

func TestFixedDev(t *testing.T) {
	for _, f := range streamForms {
		c := progCase{Prog: f.prog, N: 2000, Mode: "out", Input: f.input}
		msg, inf := check(c)
		if msg != "" || !inf.NT || !inf.Identical {
			t.Logf("STREAM %q nt=%v identical=%v turns=%d msg=%s", f.prog, inf.NT, inf.Identical, inf.Turns, msg)
			res, _ := execute(c.Prog, c.Input, 16008, [2]int{2000, 16000}, 16000, 0, false, stepBudget(2000))
			t.Logf("   %s\n   %s err=%v", fpText(res.OutSnap[0]), fpText(res.OutSnap[1]), res.Err)
		}
	}
	for _, f := range turnForms {
		for _, mode := range []string{"tick", "post"} {
			p := strings.ReplaceAll(f.prog, "%T%", "| tick")
			if mode == "post" {
				p = strings.ReplaceAll(f.prog, " %T%", "")
			}
			c := progCase{Prog: p, N: 2000, Mode: mode, Input: f.input, Want: f.want}
			msg, inf := check(c)
			if msg != "" || !inf.NT || !inf.Identical {
				t.Logf("TURN %s %q nt=%v identical=%v turns=%d msg=%s", mode, p, inf.NT, inf.Identical, inf.Turns, msg)
			}
		}
	}
}

func TestGenDev(t *testing.T) {
	rapid.Check(t, func(rt *rapid.T) {
		var c progCase
		if rapid.Bool().Draw(rt, "which") {
			c, _ = genTailRec(rt)
		} else {
			c, _ = genCompose(rt)
		}
		c.N = 2000
		c.Heap = false
		msg, inf := check(c)
		if msg != "" || !inf.NT || !inf.Identical {
			t.Logf("%s %q nt=%v identical=%v turns=%d discard=%s msg=%s", c.Mode, c.Prog, inf.NT, inf.Identical, inf.Turns, inf.Discard, msg)
		}
	})
}
