// C20 — iteration and tail recursion run in bounded interpreter space.
//
// Oracle: the sizes of the interpreter state of a live iterator
// (gojq.VerifFootprint, build tag verif: fork stack, value stack, scope stack,
// path stack, register file, frame offset) observed after n and after 8n
// outputs / loop turns.  Every component at 8n must be <= the component at n
// plus a small constant (slack).  Loop turns are counted independently of the
// program's values: by the outputs the harness consumes, or by a native
// function `tick` (identity), a native generator `nat` and a scripted input
// iterator which the harness supplies and which take the snapshot from inside
// the run at their n-th and 8n-th call.  A weaker second oracle compares the
// retained heap (runtime.ReadMemStats after GC, iterator alive).
//
// What "tail position" means here is decided by the generator's grammar (see
// gen_test.go), never by looking at what the compiler emitted.
package c20

import (
	"context"
	"encoding/json"
	"fmt"
	"runtime"
	"runtime/debug"
	"strconv"
	"strings"
	"testing"

	"github.com/itchyny/gojq"
	"pgregory.net/rapid"

	"verif/internal/evid"
	"verif/internal/run"
)

var rec *evid.Rec

var sumTurns, sumSteps int64 // evidence extras
var stepsBySub = map[string]int64{}

const (
	slack     = 32      // the constant c of the verdict (identical footprints are the rule on the unchanged tree)
	heapSlack = 1 << 20 // retained-heap tolerance of the weak oracle, bytes
	factor    = 8
	window    = 16 // output-based snapshots: component-wise minimum over this many consecutive outputs (all phases of a multi-output turn)
)

var fpKeys = []string{"forks", "stack.data", "stack.index", "stack.limit", "scopes.data", "scopes.index", "scopes.limit", "paths.data", "paths.index", "values", "offset"}

// progCase is the replay format of every sub-check.
//
//	mode "out":     one iterator; snapshots after the n-th and the 8n-th output
//	                (component-wise minimum over the next 16 outputs, so that
//	                every phase of a multi-output turn is covered on both sides).
//	mode "tick":    one iterator; snapshots taken from inside the run at the
//	                n-th and 8n-th call of tick / nat / the input iterator
//	                (and after the n-th / 8n-th output when that many appear).
//	mode "post":    two fresh iterators run to completion with %M% = n and
//	                %M% = 8n; the final footprints (the stacks never shrink, so
//	                their lengths are high-water marks) are compared.
//	mode "control": like tick, but the program is inherently linear in space
//	                (non-tail recursion): the instrument must report growth.
type progCase struct {
	Prog  string `json:"prog"`            // %M% = size of the run (8n+8 in out/tick mode)
	N     int    `json:"n"`               //
	Mode  string `json:"mode"`            //
	Input string `json:"input,omitempty"` // "" = null, "flat" = array of %M% integers
	Want  string `json:"want,omitempty"`  // post: formula of the expected last output (non-triviality witness)
	Heap  bool   `json:"heap,omitempty"`  // also compare the retained heap
}

// ---------------------------------------------------------------------------
// instrumented execution

type probe struct {
	it       gojq.Iter
	size     int
	ticks    int
	cps      [2]int
	heap     bool
	snaps    [2]map[string]int
	heaps    [2]uint64
	inPos    int
	natLimit int
}

func heapNow() uint64 {
	runtime.GC()
	runtime.GC()
	var ms runtime.MemStats
	runtime.ReadMemStats(&ms)
	return ms.HeapAlloc
}

func (p *probe) tick() {
	p.ticks++
	for i, cp := range p.cps {
		if p.ticks == cp && p.it != nil {
			p.snaps[i] = gojq.VerifFootprint(p.it)
			if p.heap {
				p.heaps[i] = heapNow()
			}
		}
	}
}

type natIter struct {
	p *probe
	i int
}

func (n *natIter) Next() (any, bool) {
	if n.i >= n.p.size {
		return nil, false
	}
	n.p.tick()
	v := n.i
	n.i++
	return v, true
}

type inIter struct{ p *probe }

func (n *inIter) Next() (any, bool) {
	if n.p.inPos >= n.p.size {
		return nil, false
	}
	n.p.tick()
	v := n.p.inPos
	n.p.inPos++
	return v, true
}

type result struct {
	Outputs  int
	Ticks    int
	Last     any
	Err      error
	Budget   bool
	Ended    bool
	Panic    string
	Polls    int
	TickSnap [2]map[string]int
	TickHeap [2]uint64
	OutSnap  [2]map[string]int // component-wise minimum over outputs cp .. cp+window-1
	OutCnt   [2]int            // how many outputs of the window were seen
	OutHeap  [2]uint64
	Final    map[string]int
	FinHeap  uint64
	Callrec  bool
	JumpBack bool
}

func flatInput(size int) any {
	xs := make([]any, size)
	for i := range xs {
		xs[i] = i
	}
	return xs
}

// execute runs prog (with %M% := size) on one fresh iterator.  stopOut > 0:
// stop after that many outputs; stopTick > 0: stop once that many ticks were
// seen; otherwise run to completion.  Outputs are counted, not retained.
func execute(prog, input string, size int, cps [2]int, stopOut, stopTick int, heap bool, maxSteps int) (res result, cerr error) {
	text := strings.ReplaceAll(prog, "%M%", strconv.Itoa(size))
	p := &probe{size: size, cps: cps, heap: heap}
	code, err := run.Compile(text,
		gojq.WithFunction("tick", 0, 0, func(v any, _ []any) any { p.tick(); return v }),
		gojq.WithIterFunction("nat", 0, 0, func(any, []any) gojq.Iter { return &natIter{p: p} }),
		gojq.WithInputIter(&inIter{p: p}),
	)
	if err != nil {
		return res, err
	}
	for _, in := range gojq.VerifCodes(code) {
		if in.Op == "callrec" {
			res.Callrec = true
		}
	}
	var in any
	if input == "flat" {
		in = flatInput(size)
	}
	ctx := run.NewCountCtx(maxSteps)
	defer func() {
		if r := recover(); r != nil {
			st := string(debug.Stack())
			if len(st) > 1500 {
				st = st[:1500]
			}
			res.Panic = fmt.Sprintf("panic: %v\n%s", r, st)
		}
		res.Polls = ctx.Polls
		res.Ticks = p.ticks
		res.TickSnap, res.TickHeap = p.snaps, p.heaps
	}()
	it := code.RunWithContext(ctx, in)
	p.it = it
	for {
		v, ok := it.Next()
		if !ok {
			res.Ended = true
			break
		}
		if e, isErr := v.(error); isErr {
			if ctx.Fired() && e == context.Canceled {
				res.Budget = true
			} else {
				res.Err = e
			}
			break
		}
		res.Outputs++
		res.Last = v
		for i, cp := range cps {
			if cp > 0 && res.Outputs >= cp && res.Outputs < cp+window {
				fp := gojq.VerifFootprint(it)
				if res.OutSnap[i] == nil {
					res.OutSnap[i] = fp
				} else {
					for k, v := range fp {
						if v < res.OutSnap[i][k] {
							res.OutSnap[i][k] = v
						}
					}
				}
				res.OutCnt[i]++
				if heap && res.Outputs == cp {
					res.OutHeap[i] = heapNow()
				}
			}
		}
		if stopOut > 0 && res.Outputs >= stopOut {
			break
		}
		if stopTick > 0 && p.ticks >= stopTick {
			break
		}
	}
	res.Final = gojq.VerifFootprint(it)
	if heap {
		res.FinHeap = heapNow()
	}
	runtime.KeepAlive(it)
	return res, nil
}

func fpText(m map[string]int) string {
	var sb strings.Builder
	for _, k := range fpKeys {
		fmt.Fprintf(&sb, "%s=%d ", k, m[k])
	}
	return strings.TrimSpace(sb.String())
}

func sameFP(a, b map[string]int) bool {
	same := true
	for _, k := range fpKeys {
		if a[k] != b[k] {
			same = false
			if d := b[k] - a[k]; d > maxDelta {
				maxDelta = d
			}
		}
	}
	return same
}

// maxDelta is the largest increase of a component seen in the case being
// judged (bookkeeping only: histogram of how much of the slack is used).
var maxDelta int

// bounded is the verdict on one pair of footprints.
func bounded(what string, n int, a, b map[string]int) string {
	if a == nil || b == nil {
		return ""
	}
	for _, k := range fpKeys {
		if b[k] > a[k]+slack {
			return fmt.Sprintf("%s: %s grew from %d after %d to %d after %d (slack %d)\n  at %d: %s\n  at %d: %s",
				what, k, a[k], n, b[k], factor*n, slack, n, fpText(a), factor*n, fpText(b))
		}
	}
	return ""
}

func boundedHeap(what string, n int, a, b uint64) string {
	if a == 0 || b == 0 {
		return ""
	}
	if b > a+heapSlack {
		return fmt.Sprintf("%s: retained heap grew from %d bytes after %d to %d bytes after %d (tolerance %d)", what, a, n, b, factor*n, heapSlack)
	}
	return ""
}

// info is what a judged case tells the bookkeeping.
type info struct {
	NT        bool // the loop really performed >= 8n turns
	Identical bool // every compared pair of footprints was identical
	Discard   string
	Callrec   bool
	Turns     int
	Polls     int
}

func stepBudget(n int) int { return factor*n*3000 + 2000000 }

func wantValue(formula string, m int) (any, bool) {
	switch formula {
	case "M":
		return m, true
	case "M-1":
		return m - 1, true
	case "2M":
		return 2 * m, true
	case "1":
		return 1, true
	case "true":
		return true, true
	case "false":
		return false, true
	case "ceil3":
		return (m + 2) / 3 * 3, true
	case "ceil5":
		return (m + 4) / 5 * 5, true
	}
	return nil, false
}

func check(c progCase) (string, info) {
	var inf info
	if c.N < 1 || c.N > 1000000 {
		return "bad case: n", inf
	}
	n, big := c.N, factor*c.N
	switch c.Mode {
	case "out", "tick", "control":
		size := big + window + 8
		stopOut, stopTick := 0, 0
		if c.Mode == "out" {
			stopOut = big + window
			if c.Input != "flat" {
				size = 4 * big // filtered streams over the scripted sources need more of them
			}
		} else {
			stopTick = big + window + 4
		}
		res, err := execute(c.Prog, c.Input, size, [2]int{n, big}, stopOut, stopTick, c.Heap, stepBudget(n))
		if err != nil {
			return "bad case: " + err.Error(), inf
		}
		inf.Callrec, inf.Polls = res.Callrec, res.Polls
		if res.Panic != "" {
			return "gojq panicked: " + res.Panic, inf
		}
		if res.Budget {
			inf.Discard = "budget"
			return "", inf
		}
		if c.Mode == "control" {
			a, b := res.TickSnap[0], res.TickSnap[1]
			if a == nil || b == nil {
				return fmt.Sprintf("control program made only %d turns (err=%v)", res.Ticks, res.Err), inf
			}
			inf.NT, inf.Turns = true, res.Ticks
			for _, k := range fpKeys {
				if b[k]-a[k] >= (factor-2)*n {
					return "", inf
				}
			}
			return fmt.Sprintf("instrument check: a recursion of depth %d and of depth %d show the same footprint\n  at %d: %s\n  at %d: %s", n, big, n, fpText(a), big, fpText(b)), inf
		}
		inf.Identical = true
		if res.OutCnt[0] < window || res.OutCnt[1] < window {
			res.OutSnap = [2]map[string]int{} // incomplete window: the phases would not match
		}
		if c.Mode == "out" {
			inf.Turns = res.Outputs
			inf.NT = res.OutSnap[1] != nil
		} else {
			inf.Turns = res.Ticks
			inf.NT = res.TickSnap[1] != nil
			if msg := bounded("turns (snapshot inside the run)", n, res.TickSnap[0], res.TickSnap[1]); msg != "" {
				return msg, inf
			}
			if res.TickSnap[1] != nil && !sameFP(res.TickSnap[0], res.TickSnap[1]) {
				inf.Identical = false
			}
			if msg := boundedHeap("turns", n, res.TickHeap[0], res.TickHeap[1]); msg != "" {
				return msg, inf
			}
		}
		if msg := bounded("outputs consumed", n, res.OutSnap[0], res.OutSnap[1]); msg != "" {
			return msg, inf
		}
		if res.OutSnap[1] != nil && !sameFP(res.OutSnap[0], res.OutSnap[1]) {
			inf.Identical = false
		}
		if msg := boundedHeap("outputs consumed", n, res.OutHeap[0], res.OutHeap[1]); msg != "" {
			return msg, inf
		}
		return "", inf
	case "post":
		var rs [2]result
		for i, m := range []int{n, big} {
			res, err := execute(c.Prog, c.Input, m, [2]int{-1, -1}, 0, 0, c.Heap, stepBudget(n))
			if err != nil {
				return "bad case: " + err.Error(), inf
			}
			inf.Callrec = res.Callrec
			inf.Polls += res.Polls
			if res.Panic != "" {
				return "gojq panicked: " + res.Panic, inf
			}
			if res.Budget {
				inf.Discard = "budget"
				return "", inf
			}
			rs[i] = res
		}
		inf.Turns = 0 // not counted by the harness in this mode
		// non-triviality: the final value shows that M turns were made (fixed
		// forms), or at least M instructions were executed by a constant-size
		// program (generated forms)
		inf.NT = rs[0].Polls >= n && rs[1].Polls >= big
		if c.Want != "" {
			for i, m := range []int{n, big} {
				w, ok := wantValue(c.Want, m)
				if !ok {
					return "bad case: want", inf
				}
				if rs[i].Err != nil || rs[i].Outputs < 1 || rs[i].Last != w {
					inf.NT = false
				}
			}
		}
		inf.Identical = sameFP(rs[0].Final, rs[1].Final)
		if msg := bounded("after the run (high-water marks), %M%", n, rs[0].Final, rs[1].Final); msg != "" {
			return msg, inf
		}
		if msg := boundedHeap("after the run, %M%", n, rs[0].FinHeap, rs[1].FinHeap); msg != "" {
			return msg, inf
		}
		return "", inf
	}
	return "bad case: mode", inf
}

func replayCase(sub string, raw json.RawMessage) string {
	var c progCase
	if err := json.Unmarshal(raw, &c); err != nil {
		return "bad replay: " + err.Error()
	}
	msg, _ := check(c)
	return msg
}

// judge runs one case with the bookkeeping; returns the violation message.
func judge(sub string, c progCase, classes ...string) string {
	rec.Journal(sub, c)
	rec.Eval()
	maxDelta = 0
	msg, inf := check(c)
	if inf.Discard != "" {
		rec.Discard(inf.Discard)
		return ""
	}
	sumTurns += int64(inf.Turns)
	sumSteps += int64(inf.Polls)
	stepsBySub[sub] += int64(inf.Polls)
	pre := sub + "/"
	rec.Class(pre + "mode/" + c.Mode)
	rec.Class(pre + "n/" + strconv.Itoa(c.N))
	for _, cl := range classes {
		rec.Class(pre + cl)
	}
	if inf.NT {
		rec.NT(c.Mode + "|" + c.Prog)
		rec.Class(pre + "nontrivial")
		if inf.Identical {
			rec.Class(pre + "footprints/identical")
		} else {
			rec.Class(pre + "footprints/within-slack")
			switch {
			case c.Mode == "control":
			case maxDelta <= 0:
				rec.Class("increase/none (a component is smaller at 8n)")
			case maxDelta <= 4:
				rec.Class("increase/1-4")
			case maxDelta <= 16:
				rec.Class("increase/5-16")
			default:
				p := c.Prog
				if len(p) > 240 {
					p = p[:240] + "..."
				}
				rec.Class("increase/17-32: " + c.Mode + " " + p) // rare: name the program
			}
		}
	} else {
		rec.Class(pre + "short-run")
	}
	if inf.Callrec {
		rec.Class(pre + "code/callrec")
	} else {
		rec.Class(pre + "code/no-callrec")
	}
	if sub != "forms" {
		rec.Sample(c) // the fixed forms are listed in the source; the samples show generated programs
	}
	return msg
}

// ---------------------------------------------------------------------------
// the fixed forms

type form struct {
	prog  string
	mode  string
	input string
	want  string
}

// %T% is replaced by "| tick" (mode tick) or by nothing (mode post).
var streamForms = []form{
	// range
	{prog: "range(infinite)"},
	{prog: "range(1000000000)"},
	{prog: "range(0; infinite)"},
	{prog: "range(5; infinite; 3)"},
	{prog: "range(0; -infinite; -1)"},
	{prog: "range(0.5; 1000000000; 0.25)"},
	{prog: "range(1000000000; 0; -1)"},
	{prog: "range(infinite) | select(. % 2 == 0)"},
	{prog: "range(range(1000000000))"},
	// while
	{prog: "0 | while(true; . + 1)"},
	{prog: "0 | while(. < 1000000000; . + 1)"},
	{prog: "[0, 0] | while(.[0] >= 0; [.[0] + 1, .[1]]) | .[0]"},
	{prog: "{i: 0} | while(true; .i += 1) | .i"},
	// repeat (this tree: repeat(f) emits the outputs of f on the same input for ever)
	{prog: "repeat(1)"},
	{prog: "repeat(1, 2, 3)"},
	{prog: "0 | repeat(. + 1)"},
	{prog: "\"a\" | repeat(. + \"b\")"},
	{prog: "repeat(first(range(10)))"},
	{prog: "repeat(last(range(10)))"},
	{prog: "repeat(nth(5; range(10)))"},
	{prog: "repeat(reduce range(10) as $x (0; . + $x))"},
	{prog: "repeat(isempty(range(3)))"},
	{prog: "repeat(any(range(10); . > 5))"},
	{prog: "repeat(all(range(10); . < 5))"},
	{prog: "repeat([limit(3; range(10))])"},
	{prog: "0 | repeat(until(. > 5; . + 1))"},
	{prog: "repeat(try error(\"x\") catch .)"},
	{prog: "repeat(label $l | 1, break $l)"},
	// recurse
	{prog: "0 | recurse(. + 1)"},
	{prog: "0 | recurse(. + 1; true)"},
	{prog: "0 | recurse(. + 1; . < 1000000000)"},
	{prog: "0 | recurse(if . < 1000000000 then . + 1 else empty end)"},
	{prog: "[0] | recurse([.[0] + 1]) | .[0]"},
	{prog: "{a: 0} | recurse({a: (.a + 1)}) | .a"},
	{prog: "..", input: "flat"},
	{prog: ".. | numbers", input: "flat"},
	{prog: "recurse", input: "flat"},
	{prog: "path(..)", input: "flat"},
	{prog: "paths", input: "flat"},
	{prog: ".[]", input: "flat"},
	// limit, first, nth, isempty, any, all in a stream
	{prog: "limit(1000000000; repeat(1))"},
	{prog: "limit(1000000000; range(infinite))"},
	{prog: "limit(1000000000; 0 | recurse(. + 1))"},
	{prog: "limit(1000; repeat(1)), limit(1000000000; repeat(2))"},
	{prog: "range(infinite) | first(., 1)"},
	{prog: "range(infinite) | first(range(.; infinite))"},
	{prog: "range(infinite) | limit(1; ., 1)"},
	{prog: "range(infinite) | nth(1; ., ., .)"},
	{prog: "range(infinite) | isempty(empty)"},
	{prog: "range(infinite) | any(., 1; . == 1)"},
	{prog: "range(infinite) | all(., 1; . >= 0)"},
	{prog: "range(infinite) | last(range(3))"},
	{prog: "range(infinite) | reduce range(3) as $i (.; . + 0)"},
	{prog: "range(infinite) | until(true; .)"},
	{prog: "range(infinite) | [foreach range(3) as $i (0; . + $i)] | length"},
	// foreach
	{prog: "foreach range(infinite) as $x (0; . + 1)"},
	{prog: "foreach range(infinite) as $x (0; . + $x; [$x, .]) | .[0]"},
	{prog: "foreach repeat(1) as $x (0; . + $x)"},
	{prog: "foreach (0 | recurse(. + 1) | [.]) as [$a] (0; . + 1; $a)"},
	// bindings, alternatives, try, label around a stream
	{prog: "range(infinite) as $x | $x"},
	{prog: "range(infinite) | . as [$a] ?// $a | $a"},
	{prog: "range(infinite) | (null // .)"},
	{prog: "range(infinite) | (. // 0)"},
	{prog: "range(infinite) | try error catch ."},
	{prog: "range(infinite) | try . catch 0"},
	{prog: "range(infinite) | .a?, 1"},
	{prog: "label $out | range(infinite)"},
	{prog: "label $out | range(infinite) | if . > 1000000000 then break $out else . end"},
	{prog: "try range(infinite) catch ."},
	{prog: "range(infinite) // 0"},
	{prog: "range(infinite) | tostring | length"},
	{prog: "range(infinite) | [.] | .[0]"},
	{prog: "range(infinite) | {a: .} | .a"},
	{prog: "range(infinite) | tojson | fromjson"},
	{prog: "range(infinite) | [range(3)] | length"},
	{prog: "range(infinite) | [., 1] | .[0] += 1 | .[0]"},
	{prog: "range(infinite) | {a: .} | .a |= . + 1 | .a"},
	// loops in path mode, stream (de)construction built on foreach / reduce / recursion
	{prog: "path(repeat(.))"},
	{prog: "path(repeat(.a))"},
	{prog: "path(while(true; .))"},
	{prog: "path(recurse(.; true))"},
	{prog: "path(limit(1000000000; repeat(.a)))"},
	{prog: "path(first(repeat(.a)), repeat(.b))"},
	{prog: "{a: 0} | repeat(.a |= . + 1) | .a"},
	{prog: "{a: 0} | recurse(.a += 1) | .a"},
	{prog: "fromstream(inputs | [[], .])"},
	{prog: "fromstream(range(infinite) | ([[0], .], [[0]]))"},
	{prog: "1 | truncate_stream(range(infinite) | [[0, .], .])"},
	{prog: "tostream", input: "flat"},
	{prog: "limit(1000000000; tostream) | .[0]", input: "flat"},
	{prog: "range(infinite) | [.] | . as [$a] ?// $a | $a"},
	{prog: "range(infinite) | \"\\(.)\" | tonumber"},
	{prog: "range(infinite) | {a: .} | .[]"},
	// inputs and native generators
	{prog: "inputs"},
	{prog: "inputs | . + 1"},
	{prog: "input as $first | inputs"},
	{prog: "repeat(input)"},
	{prog: "limit(1000000000; inputs)"},
	{prog: "foreach inputs as $x (0; . + 1)"},
	{prog: "first(inputs), (inputs | select(. % 2 == 0)), inputs"},
	{prog: "inputs | select(. % 3 != 0)"},
	{prog: "range(infinite) | input"},
	{prog: "nat"},
	{prog: "nat | select(. % 3 == 0), nat"},
	{prog: "limit(1000000000; nat)"},
	// hand-written tail-recursive definitions
	{prog: "def f: ., (. + 1 | f); 0 | f"},
	{prog: "def f: . as $x | $x, ($x + 1 | f); 0 | f"},
	{prog: "def f: if . < 1000000000 then ., (. + 1 | f) else empty end; 0 | f"},
	{prog: "def f: if . >= 1000000000 then empty elif . % 2 == 0 then ., (. + 1 | f) else ., (. + 1 | f) end; 0 | f"},
	{prog: "def f: ., (null // (. + 1 | f)); 0 | f"},
	{prog: "def f: ., (empty // (. + 1 | f)); 0 | f"},
	{prog: "def f: ., ([., 1] as [$a, $b] | $a + $b | f); 0 | f"},
	{prog: "def f: def g: . + 1; ., (g | f); 0 | f"},
	{prog: "def f: def g: if . % 5 != 0 then . + 1 | g else . end; ., (. + 1 | g | f); 0 | f"},
	{prog: "def s: . + 1; def c: . < 1000000000; def f: if c then ., (s | f) else empty end; 0 | f"},
	{prog: "def f: def s: . + 1; def c: . < 1000000000; if c then ., (s | f) else empty end; 0 | f"},
	{prog: "def f: ., (. + 1 | . as [$a] ?// $a | f); 0 | f"},
	{prog: "def f: ., (. + 1 | reduce (1, 2) as $x (.; .) | f); 0 | f"},
	{prog: "def f: ., (. + 1 | foreach 1 as $x (.; .) | f); 0 | f"},
	{prog: "def f: ., (. + 1 | [first(.)][0] | f); 0 | f"},
	{prog: "def f: ., (. + 1 | (f)); 0 | f"},
	{prog: "def f: (., .), (. + 1 | f); 0 | f"},
	{prog: "def f: first(., 1), (. + 1 | f); 0 | f"},
	{prog: "def f: (try error(\"x\") catch .), (. + 1 | f); 0 | f"},
	{prog: "def f: try error catch (., (. + 1 | f)); 0 | f"},
	{prog: "def w(c; u): def _w: if c then ., (u | _w) else empty end; _w; 0 | w(true; . + 1)"},
	{prog: "def w($n): def _w: if . < $n then ., (. + 1 | _w) else empty end; _w; 0 | w(1000000000)"},
	{prog: "def w($n): def _w: . as $x | if $x < $n then $x, ($x + 1 | _w) else empty end; _w; 0 | w(1000000000)"},
	{prog: "def rp(f): def _r: f, _r; _r; rp(1, 2)"},
	{prog: "def rc(f): def r: ., (f | r); r; 0 | rc(. + 1)"},
	// constant pipes (literal | literal / $var / constant array / constant object) in loop bodies
	{prog: "0 | while(true; . as $s | 1 | $s + 1)"},
	{prog: "0 | while(. as $s | null | $s | . < 1000000000; . as $s | \"a\" | 2 | $s + 1)"},
	{prog: "0 | recurse(. as $s | null | [1, 2] | $s + 1)"},
	{prog: "0 | recurse(. as $s | \"a\" | {a: 1} | $s + 1; true)"},
	{prog: "repeat(1 | 2)"},
	{prog: "repeat(null | [1, 2])"},
	{prog: "1 as $x | repeat(0 | $x)"},
	{prog: "0 | repeat(. as $s | 1 | $s)"},
	{prog: "def f: ., (. as $s | 1 | 2 | $s + 1 | f); 0 | f"},
	{prog: "1 as $one | def f: ., (. as $s | null | $one | $s + $one | f); 0 | f"},
	{prog: "def f: . as $s | $s, (\"a\" | {a: 1} | $s + 1 | f); 0 | f"},
	{prog: "def o($k): def f: ., (. as $s | 0 | $k | $s + $k | f); 0 | f; o(1)"},
	{prog: "range(infinite) | until(. % 5 == 0; . as $s | 1 | $s + 1)"},
	// the same loops with a backtracking point or a caller frame below them
	{prog: "1, (def f: ., (. + 1 | f); 0 | f)"},
	{prog: "(def f: ., (. + 1 | f); 0 | f), 1"},
	{prog: "[limit(3; repeat(1))], (def f: . as $x | $x, ($x + 1 | f); 0 | f)"},
	{prog: "first(range(2)) as $q | def f: ., (. + 1 | f); 0 | f"},
	{prog: "(1, 2) as $q | def f: . as $x | $x, ($x + 1 | f); 0 | f"},
	{prog: "def o: def p: 1, (def f: . as $x | $x, ($x + 1 | f); 0 | f); p; o"},
	{prog: "def o: def p: 1, (0 | while(true; . + 1)); p; o"},
	{prog: "range(infinite) | [def f: . as $x | if $x < 3 then $x + 1 | f else $x end; 0 | f] | .[0]"},
	{prog: "try (def f: ., (. + 1 | f); 0 | f) catch ."},
	{prog: "label $l | def f: . as $x | $x, ($x + 1 | f); 0 | f"},
	{prog: "def f: input, f; f"},
	{prog: "def f: input as $x | $x, f; f"},
	{prog: "def f: {i: .i, a: .a}, (.i += 1 | f); {i: 0, a: 0} | f | .i"},
}

var turnForms = []form{
	{prog: "last(range(%M%) %T%)", want: "M-1"},
	{prog: "reduce (range(%M%) %T%) as $x (0; . + 1)", want: "M"},
	{prog: "reduce (range(%M%) %T%) as $x (0; . + $x) | . >= 0", want: "true"},
	{prog: "reduce (range(%M%) %T% | {a: .}) as {$a} (0; . + 1)", want: "M"},
	{prog: "foreach (range(%M%) %T%) as $x (0; . + 1; select(. == %M%))", want: "M"},
	{prog: "foreach (range(%M%) %T%) as $x (0; . + 1) | select(. == %M%)", want: "M"},
	{prog: "first(range(%M%; 0; -1) %T% | select(. == 1))", want: "1"},
	{prog: "first(range(%M%) %T% | select(. >= %M% - 1))", want: "M-1"},
	{prog: "nth(%M% - 1; range(%M%) %T%)", want: "M-1"},
	{prog: "nth(%M% - 1; repeat(1 %T%))", want: "1"},
	{prog: "isempty(range(%M%) %T% | select(. < 0))", want: "true"},
	{prog: "any(range(%M%) %T%; . < 0)", want: "false"},
	{prog: "all(range(%M%) %T%; . >= 0)", want: "true"},
	{prog: "0 | until(. >= %M%; . + 1 %T%)", want: "M"},
	{prog: "[0, 0] | until(.[0] >= %M%; [.[0] + 1, .[1] + 2] %T%) | .[1]", want: "2M"},
	{prog: "{i: 0} | until(.i >= %M%; .i += 1 %T%) | .i", want: "M"},
	{prog: "last(0 | while(. < %M%; . + 1 %T%))", want: "M-1"},
	{prog: "last(limit(%M%; repeat(1 %T%)))", want: "1"},
	{prog: "last(limit(%M%; 0 | recurse(. + 1 %T%)))", want: "M-1"},
	{prog: "last(0 | recurse(. + 1 %T%; . < %M%))", want: "M-1"},
	{prog: "last(0 | recurse(if . < %M% - 1 then . + 1 %T% else empty end))", want: "M-1"},
	{prog: "reduce limit(%M%; repeat(1 %T%)) as $x (0; . + $x)", want: "M"},
	{prog: "reduce (0 | while(. < %M%; . + 1 %T%)) as $x (0; . + 1)", want: "M"},
	{prog: "reduce (.[] %T%) as $x (0; . + 1)", want: "M", input: "flat"},
	{prog: "last(.[] %T%)", want: "M-1", input: "flat"},
	{prog: "last(.. %T%)", want: "M-1", input: "flat"},
	{prog: "reduce (path(..) %T%) as $p (0; . + 1) - 1", want: "M", input: "flat"},
	{prog: "first(.[] %T% | select(. >= %M% - 1))", want: "M-1", input: "flat"},
	{prog: "label $done | foreach (range(infinite) %T%) as $x (0; . + 1; if . >= %M% then ., break $done else empty end)", want: "M"},
	{prog: "[limit(3; range(%M%) %T% | select(. >= %M% - 3))] | length + %M% - 3", want: "M"},
	{prog: "def f: if . < %M% then . + 1 %T% | f else . end; 0 | f", want: "M"},
	{prog: "def f: if . >= %M% then . else . + 1 %T% | f end; 0 | f", want: "M"},
	{prog: "def f: . as $x | if $x < %M% then $x + 1 %T% | f else $x end; 0 | f", want: "M"},
	{prog: "def f: if . < %M% then (. + 1 %T%) as $y | $y | f else . end; 0 | f", want: "M"},
	{prog: "def f: (if . < %M% then empty else . end) // (. + 1 %T% | f); 0 | f", want: "M"},
	{prog: "def f: if . < %M% then null // (. + 1 %T% | f) else . end; 0 | f", want: "M"},
	{prog: "def f: if . % 3 == 0 then (if . < %M% then . + 1 %T% | f else . end) elif . % 3 == 1 then . + 1 %T% | f else . + 1 %T% | f end; 0 | f", want: "ceil3"},
	{prog: "def s: . + 1 %T%; def c: . < %M%; def f: if c then s | f else . end; 0 | f", want: "M"},
	{prog: "def f: def c: . < %M%; def s: . + 1 %T%; if c then s | f else . end; 0 | f", want: "M"},
	{prog: "def f: def g: if .[1] < 3 then [.[0], .[1] + 1] | g else .[0] end; if . < %M% then . + 1 %T% | [., 0] | g | f else . end; 0 | f", want: "M"},
	{prog: "last(def f: if . < %M% then ., (. + 1 %T% | f) else empty end; 0 | f)", want: "M-1"},
	{prog: "def f: if .i < %M% then .i += 1 %T% | f else .i end; {i: 0} | f", want: "M"},
	{prog: "def f: try error catch (if . < %M% then . + 1 %T% | f else . end); 0 | f", want: "M"},
	{prog: "def f: try (if . < %M% then error else . end) catch (. + 1 %T% | f); 0 | f", want: "M"},
	{prog: "def u(c; n): def _u: if c then . else n | _u end; _u; 0 | u(. >= %M%; . + 1 %T%)", want: "M"},
	{prog: "def o(cc; $kk): def f: if cc then . + $kk %T% | f else . end; 0 | f; o(. < %M%; 1)", want: "M"},
	{prog: "def o(cc; $kk): def h: . + $kk; def f: if cc then h %T% | f else . end; 0 | f; o(. < %M%; 1)", want: "M"},
	{prog: "def f: foreach 1 as $x (.; . + 1 %T%; if . < %M% then f else . end); 0 | f", want: "M"},
	{prog: "def f: if .[0] < %M% then [.[0] + 1, .[1]] %T% | f else .[0] end; [0, null] | f", want: "M"},
	{prog: "def f: if . < %M% then . + 1 %T% | [.] | .[0] | f else . end; 0 | f", want: "M"},
	{prog: "def f: if . < %M% then . + 1 %T% | reduce range(2) as $i (.; .) | f else . end; 0 | f", want: "M"},
	{prog: "def f: . as [$a] ?// $a | if $a < %M% then $a + 1 %T% | f else $a end; 0 | f", want: "M"},
	{prog: "reduce (range(%M%) %T%) as $i ({a: 0}; .a += 1) | .a", want: "M"},
	{prog: "{a: 0} | until(.a >= %M%; .a |= . + 1 %T%) | .a", want: "M"},
	{prog: "reduce (range(%M%) %T%) as $i (null; .a.b = $i) | .a.b", want: "M-1"},
	{prog: "last(path(limit(%M%; repeat(.a %T%)))) | length", want: "1"},
	{prog: "reduce (tostream %T%) as $e (0; . + 1) - 1", want: "M", input: "flat"},
	{prog: "[def f: if . < %M% then . + 1 %T% | f else . end; 0 | f] | .[0]", want: "M"},
	{prog: "first((def f: if . < %M% then . + 1 %T% | f else . end; 0 | f), 1)", want: "M"},
	{prog: "def o: [def f: . as $x | if $x < %M% then $x + 1 %T% | f else $x end; 0 | f] | .[0]; o", want: "M"},
	{prog: "def o: def p: (def f: . as $x | if $x < %M% then $x + 1 %T% | f else $x end; 0 | f), 0; first(p); o", want: "M"},
	{prog: "[0 | until(. >= %M%; . + 1 %T%)] | .[0]", want: "M"},
	{prog: "[last(range(%M%) %T%)] | .[0]", want: "M-1"},
	{prog: "(1, 2) as $q | [reduce (range(%M%) %T%) as $x (0; . + 1)] | select($q == 2) | .[0]", want: "M"},
	// constant pipes in loops that run without backtracking
	{prog: "0 | until(. >= %M%; . as $s | 1 | $s + 1 %T%)", want: "M"},
	{prog: "0 | until(. >= %M%; . as $s | null | 2 | $s + 1 %T%)", want: "M"},
	{prog: "0 | until(. as $s | 0 | $s | . >= %M%; . + 1 %T%)", want: "M"},
	{prog: "{i: 0} | until(.i >= %M%; . as $s | 1 | $s | .i += 1 %T%) | .i", want: "M"},
	{prog: "def f: if . < %M% then (. as $s | null | $s + 1 %T%) | f else . end; 0 | f", want: "M"},
	{prog: "def f: if . < %M% then (. as $s | \"a\" | [1, 2] | $s + 1 %T%) | f else . end; 0 | f", want: "M"},
	{prog: "def f: if . < %M% then (. as $s | 0 | {a: 1} | $s + 1 %T%) | f else . end; 0 | f", want: "M"},
	{prog: "def f: if (. as $s | null | $s | . < %M%) then . + 1 %T% | f else . end; 0 | f", want: "M"},
	{prog: "1 as $one | def f: if . < %M% then (. as $s | null | $one | $s + $one %T%) | f else . end; 0 | f", want: "M"},
	{prog: "def o($k): def f: if . < %M% then (. as $s | \"x\" | $k | $s + $k %T%) | f else . end; 0 | f; o(1)", want: "M"},
	{prog: "def c: 1 | 2; def f: if . < %M% then . as $s | c | $s + 1 %T% | f else . end; 0 | f", want: "M"},
	{prog: "last(0 | while(. < %M%; . as $s | 0 | {a: 1} | $s + 1 %T%))", want: "M-1"},
	{prog: "last(0 | recurse(if . < %M% - 1 then (. as $s | \"a\" | [1, 2] | $s + 1 %T%) else empty end))", want: "M-1"},
	{prog: "last(0 | recurse(. as $s | null | $s + 1 %T%; . < %M%))", want: "M-1"},
	{prog: "nth(%M% - 1; repeat(null | 1 %T%))", want: "1"},
	// self-ticking sources (the scripted input iterator and the native generator hold %M% values)
	{prog: "reduce inputs as $x (0; . + 1)", want: "M", mode: "self"},
	{prog: "last(inputs)", want: "M-1", mode: "self"},
	{prog: "first(inputs | select(. >= %M% - 1))", want: "M-1", mode: "self"},
	{prog: "reduce nat as $x (0; . + 1)", want: "M", mode: "self"},
	{prog: "last(nat)", want: "M-1", mode: "self"},
	{prog: "isempty(inputs | select(. < 0))", want: "true", mode: "self"},
	{prog: "def f: (input | select(. >= %M% - 1)) // f; f", want: "M-1", mode: "self"},
	{prog: "def f: input as $x | if $x >= %M% - 1 then $x else f end; f", want: "M-1", mode: "self"},
	{prog: "0 | until(input >= %M% - 1; . + 1) + 1", want: "M", mode: "self"},
}

// recursion that is not in tail position needs space proportional to its
// depth in any implementation: the instrument must see it grow.
var controlForms = []string{
	"def f: if . < %M% then (. + 1 | tick | f) | . + 0 else . end; 0 | f",
	"def f: if . < %M% then [. + 1 | tick | f] | .[0] else . end; 0 | f",
	"def f: if . < %M% then try (. + 1 | tick | f) catch . else . end; 0 | f",
	"def f: if . < %M% then (. + 1 | tick | f), 0 else . end; last(0 | f)",
}

func sizes() []int {
	if rec.Thorough() {
		return []int{2000, 20000, 100000}
	}
	return []int{2000, 20000}
}

func TestC20(t *testing.T) {
	rec = evid.Open("C20")
	defer rec.Close()
	defer func() {
		rec.Extra("sum_turns_counted_by_the_harness", sumTurns)
		rec.Extra("sum_vm_steps", sumSteps)
		rec.Extra("slack", slack)
		for _, sub := range []string{"forms", "control", "tailrec", "compose"} {
			rec.Extra("sum_vm_steps_"+sub, stepsBySub[sub])
		}
	}()
	rec.Replays(replayCase)
	if rec.ReplayPath() != "" {
		return
	}

	// (E) the fixed forms at every magnitude
	var fixed []progCase
	for _, n := range sizes() {
		for _, f := range streamForms {
			fixed = append(fixed, progCase{Prog: f.prog, N: n, Mode: "out", Input: f.input, Heap: n == 20000 && f.input == ""})
		}
		for _, f := range turnForms {
			if f.mode == "self" {
				fixed = append(fixed, progCase{Prog: f.prog, N: n, Mode: "tick", Input: f.input, Heap: n == 20000 && f.input == ""})
				fixed = append(fixed, progCase{Prog: f.prog, N: n, Mode: "post", Input: f.input, Want: f.want, Heap: n == 20000 && f.input == ""})
				continue
			}
			fixed = append(fixed, progCase{Prog: strings.ReplaceAll(f.prog, "%T%", "| tick"), N: n, Mode: "tick", Input: f.input, Heap: n == 20000 && f.input == ""})
			fixed = append(fixed, progCase{Prog: strings.ReplaceAll(f.prog, " %T%", ""), N: n, Mode: "post", Input: f.input, Want: f.want, Heap: n == 20000 && f.input == ""})
		}
	}
	for _, p := range controlForms {
		fixed = append(fixed, progCase{Prog: p, N: 2000, Mode: "control"})
	}
	complete := true
	for i, c := range fixed {
		if !rec.Mine(i) {
			continue
		}
		sub := "forms"
		if c.Mode == "control" {
			sub = "control"
		}
		if msg := judge(sub, c); msg != "" {
			rec.Direct(sub, c, "%s", msg)
			complete = false
		}
	}
	rec.Exhaustive(fmt.Sprintf("fixed-forms(%d stream + %d turn forms x %d magnitudes, %d controls)", len(streamForms), len(turnForms), len(sizes()), len(controlForms)), complete)

	// (R1) generated tail-recursive definitions
	r1 := func() {
		rec.Rapid(t, "tailrec", rec.Scale(2000, 7000), func(t *rapid.T) {
			c, classes := genTailRec(t)
			if msg := judge("tailrec", c, classes...); msg != "" {
				t.Fatalf("%s", rec.Fail("tailrec", c, "%s", msg))
			}
		})
	}
	// (R2) generated compositions of the built-in iteration forms
	r2 := func() {
		rec.Rapid(t, "compose", rec.Scale(2000, 7000), func(t *rapid.T) {
			c, classes := genCompose(t)
			if msg := judge("compose", c, classes...); msg != "" {
				t.Fatalf("%s", rec.Fail("compose", c, "%s", msg))
			}
		})
	}
	if rec.Shard%2 == 0 { // only the order differs (the sample reservoir keeps the first cases of a shard)
		r1()
		r2()
	} else {
		r2()
		r1()
	}
}
