package c05

import (
	"encoding/json"
	"regexp"
	"strings"
	"testing"
	"unicode/utf8"

	"verif/internal/corpus"
	"verif/internal/evid"
	"verif/internal/refjq"
	"verif/internal/univ"
)

// midBand: number literals that turn into huge allocations (see C08).
var midBand = regexp.MustCompile(`[0-9]{5,18}|[0-9]+[eE]\+?(0*[4-9]|0*1[0-8])\b`)

var fuzzHistories = [][]string{
	{"same"}, {"partial:1", "same"}, {"other", "same"}, {"fresh", "partial:2", "other", "same"}, {"partial:0", "partial:1", "fresh"},
	{"same", "same"}, {"other", "partial:2", "fresh"}, {"partial:1", "other", "partial:1", "same"},
}

// FuzzIsolation is the native coverage-guided tier (thorough only; it cannot
// be pinned by a seed, the saved failing input is the reproducible unit).  The
// fuzzer mutates the text of the repository's own test queries; each program
// runs on an aliased input with hidden capacity under one of eight histories
// and is judged by the same isolation oracle as the generated programs.
func FuzzIsolation(f *testing.F) {
	var err error
	if model, err = refjq.New(); err != nil {
		f.Fatal(err)
	}
	if rec == nil {
		rec = evid.Open("C05")
	}
	cs, _ := corpus.Load()
	for i, c := range cs {
		if c.Query == "" || len(c.Query) > 200 || i%3 != 2 {
			continue
		}
		in := "[1,[2,3],{\"a\":[4]},\"s\"]"
		if docs, err := corpus.Docs(c.Input); err == nil && len(docs) > 0 && !c.NullInput {
			if b, err := json.Marshal(docs[0]); err == nil && len(b) < 200 {
				in = string(b)
			}
		}
		f.Add(c.Query, in, byte(i), byte(i/7))
	}
	for i, q := range mutating {
		if i%4 == 0 {
			f.Add(q, "[[1,2],[3],{\"a\":[1,2],\"b\":{\"a\":1}}]", byte(i), byte(i))
		}
	}
	f.Fuzz(func(t *testing.T, src string, input string, shape byte, hist byte) {
		if len(src) > 240 || len(input) > 240 || !utf8.ValidString(src) || strings.ContainsRune(src, 0) {
			t.Skip()
		}
		src = midBand.ReplaceAllString(src, "7")
		var in any
		d := json.NewDecoder(strings.NewReader(input))
		if err := d.Decode(&in); err != nil {
			t.Skip()
		}
		arr, ok := in.([]any)
		if !ok {
			arr = []any{in}
		}
		spec := inputSpec{Spare: 1 + int(shape>>6), Shape: shapes[int(shape)%len(shapes)], Shared: univ.V{X: map[string]any{"a": 1.0, "b": []any{2.0}}}}
		for _, e := range arr {
			spec.Elems = append(spec.Elems, univ.V{X: e})
		}
		spec.Cut = int(shape>>3) % (len(arr) + 1)
		c := isoCase{Query: src, Spec: spec, Var: univ.V{X: []any{1.0, []any{2.0}, map[string]any{"a": 3.0}}}, History: fuzzHistories[int(hist)%len(fuzzHistories)]}
		msg, _ := check(c)
		if msg != "" {
			b, _ := json.Marshal(map[string]any{"sub": "fuzz", "case": c})
			t.Fatalf("VERIF-CASE %s VERIF-END %s", b, msg)
		}
	})
}
