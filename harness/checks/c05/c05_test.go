// C05 — runs are isolated: inputs, variable values, constants and already
// emitted values are never modified; re-running gives identical output.
//
// Oracles: (i) deep snapshots — including the hidden capacity of every slice's
// backing array — of the input and of the variable values before a run vs
// after it; (ii) every emitted value is frozen (deep copy) at emission and
// compared again after each further step and at the end; (iii) histories of
// runs of one *Code: run k must equal run 1 as a value sequence and as
// serialised bytes.
package c05

import (
	"encoding/json"
	"fmt"
	"math/big"
	"reflect"
	"regexp"
	"strings"
	"testing"

	"github.com/itchyny/gojq"
	"pgregory.net/rapid"

	"verif/internal/corpus"
	"verif/internal/custom"
	"verif/internal/evid"
	"verif/internal/gen"
	"verif/internal/modfix"
	"verif/internal/refjq"
	"verif/internal/run"
	"verif/internal/univ"
)

var (
	rec   *evid.Rec
	model *refjq.Interp
)

const (
	steps   = 30000
	fuel    = 60000
	maxOuts = 200
)

// ---------------------------------------------------------------------------
// aliased inputs

// inputSpec describes an input built around one shared backing array with
// spare capacity and one shared map.
type inputSpec struct {
	Elems  []univ.V `json:"elems"`  // contents of the shared backing array (length n)
	Spare  int      `json:"spare"`  // hidden slots beyond n, filled with sentinels
	Shape  string   `json:"shape"`  // how the slices/maps are placed
	Shared univ.V   `json:"shared"` // the map reachable twice
	Cut    int      `json:"cut"`
}

const sentinel = "HIDDEN-SLOT"

// build constructs the aliased input and returns it together with the full
// backing array (for the hidden-capacity comparison).
func (s inputSpec) build() (input any, backing []any) {
	n := len(s.Elems)
	backing = make([]any, n, n+s.Spare)
	for i, e := range s.Elems {
		backing[i] = univ.Copy(e.X)
	}
	full := backing[:cap(backing)]
	for i := n; i < len(full); i++ {
		full[i] = sentinel
	}
	cut := s.Cut
	if cut < 0 {
		cut = 0
	}
	if cut > n {
		cut = n
	}
	shared, _ := univ.Copy(s.Shared.X).(map[string]any)
	if shared == nil {
		shared = map[string]any{"a": 1}
	}
	switch s.Shape {
	case "array":
		return backing, backing
	case "prefix":
		return backing[:cut], backing
	case "suffix":
		return backing[cut:], backing
	case "two-slices":
		return map[string]any{"a": backing[:cut], "b": backing[cut:], "c": backing}, backing
	case "nested":
		return []any{backing[:cut], backing, shared, shared}, backing
	case "object":
		return map[string]any{"a": backing, "b": shared, "c": shared, "d": backing[:cut]}, backing
	case "map-twice":
		return map[string]any{"a": shared, "b": []any{shared, backing[cut:]}}, backing
	default:
		return map[string]any{"a": backing[:cut:cut], "b": shared}, backing
	}
}

var shapes = []string{"array", "prefix", "suffix", "two-slices", "nested", "object", "map-twice", "capped"}

// deepSnap copies v including, for every slice, the slots up to its capacity.
type snap struct {
	kind  string
	val   any
	elems []snap          // slices: all cap(v) slots
	n     int             // slices: length
	m     map[string]snap // maps
}

func takeSnap(v any, depth int) snap {
	if depth > 60 {
		return snap{kind: "deep"}
	}
	switch c := v.(type) {
	case []any:
		full := c[:cap(c)]
		s := snap{kind: "array", n: len(c), elems: make([]snap, len(full))}
		for i, x := range full {
			s.elems[i] = takeSnap(x, depth+1)
		}
		return s
	case map[string]any:
		s := snap{kind: "object", m: make(map[string]snap, len(c))}
		for k, x := range c {
			s.m[k] = takeSnap(x, depth+1)
		}
		return s
	default:
		return snap{kind: "scalar", val: univ.Copy(v)}
	}
}

func (s snap) diff(v any, path string) string {
	switch s.kind {
	case "deep":
		return ""
	case "array":
		c, ok := v.([]any)
		if !ok {
			return path + ": was an array, now " + univ.Show(v)
		}
		if len(c) != s.n {
			return fmt.Sprintf("%s: length %d became %d", path, s.n, len(c))
		}
		full := c[:cap(c)]
		if len(full) != len(s.elems) {
			return fmt.Sprintf("%s: capacity %d became %d", path, len(s.elems), len(full))
		}
		for i, x := range full {
			where := fmt.Sprintf("%s[%d]", path, i)
			if i >= s.n {
				where += "(hidden capacity)"
			}
			if d := s.elems[i].diff(x, where); d != "" {
				return d
			}
		}
	case "object":
		c, ok := v.(map[string]any)
		if !ok {
			return path + ": was an object, now " + univ.Show(v)
		}
		if len(c) != len(s.m) {
			return fmt.Sprintf("%s: %d keys became %d", path, len(s.m), len(c))
		}
		for k, x := range s.m {
			y, ok := c[k]
			if !ok {
				return fmt.Sprintf("%s: key %q disappeared", path, k)
			}
			if d := x.diff(y, path+"."+k); d != "" {
				return d
			}
		}
	default:
		if !univ.Same(s.val, v) {
			return fmt.Sprintf("%s: %s became %s", path, univ.Show(s.val), univ.Show(v))
		}
	}
	return ""
}

// ---------------------------------------------------------------------------

type isoCase struct {
	Query   string    `json:"query"`
	Spec    inputSpec `json:"spec"`
	Var     univ.V    `json:"var"`     // value of $v
	History []string  `json:"history"` // same | fresh | compact | other | partial:<k>
}

type frozen struct {
	live any
	copy any
	step int
}

func marshalAll(vs []any) string {
	var sb strings.Builder
	for _, v := range vs {
		b, err := gojq.Marshal(v)
		if err != nil {
			sb.WriteString("<marshal error>")
		}
		sb.Write(b)
		sb.WriteByte('\n')
	}
	return sb.String()
}

// runOnce runs code on input with $v, checking the frozen outputs at every
// step; it returns the outputs, the terminal error text and a violation.
func runOnce(code *gojq.Code, input, v any, limit int) (vals []any, errText string, budget bool, msg string) {
	vals, errText, budget, msg, _ = runKeep(code, input, v, limit)
	return
}

// handle is an iterator kept after runOnce returned: finished ones are polled
// again while later runs are under way (they must stay exhausted), partially
// consumed ones are resumed at the end (later runs must not have disturbed
// them).
type handle struct {
	it       gojq.Iter
	ctx      *run.CountCtx
	finished bool // Next returned false
	partial  bool // stopped by the limit, still alive
	emitted  int
}

// poll: an exhausted iterator stays exhausted.
func (h *handle) poll(when string) string {
	if !h.finished {
		return ""
	}
	if x, ok := h.it.Next(); ok {
		return fmt.Sprintf("an iterator that had returned false yields %s %s", univ.Show(x), when)
	}
	return ""
}

// resume runs a partially consumed iterator to its end.
func (h *handle) resume() (vals []any, errText string, budget bool) {
	for {
		x, ok := h.it.Next()
		if !ok {
			h.finished, h.partial = true, false
			return
		}
		if e, isErr := x.(error); isErr {
			if h.ctx.Fired() {
				return vals, "", true
			}
			h.partial = false
			return vals, e.Error(), false
		}
		if refjq.TreeSize(x, 20000) > 20000 || len(vals)+h.emitted >= maxOuts {
			return vals, "", true
		}
		vals = append(vals, x)
	}
}

func runKeep(code *gojq.Code, input, v any, limit int) (vals []any, errText string, budget bool, msg string, h *handle) {
	ctx := run.NewCountCtx(steps)
	// the caller's own argument slice: values are bound when the run starts,
	// what the caller does with its slice afterwards is its own business
	callerArgs := []any{v}
	it := code.RunWithContext(ctx, input, callerArgs...)
	callerArgs[0] = "CLOBBERED-BY-THE-CALLER-AFTER-RUN"
	h = &handle{it: it, ctx: ctx}
	defer func() { h.emitted = len(vals) }()
	var fz []frozen
	check := func(when string) string {
		for _, f := range fz {
			if !univ.Same(f.live, f.copy) {
				return fmt.Sprintf("output %d changed %s: emitted %s, now %s", f.step, when, univ.Show(f.copy), univ.Show(f.live))
			}
		}
		return ""
	}
	for i := 0; ; i++ {
		if limit >= 0 && i >= limit {
			h.partial = true
			break // partially consumed iterator left alive
		}
		x, ok := it.Next()
		if !ok {
			h.finished = true
			break
		}
		if e, isErr := x.(error); isErr {
			if ctx.Fired() {
				return vals, "", true, "", h
			}
			errText = e.Error()
			// errors are emitted values too: kept by the caller, they must read
			// the same after the iterator has been advanced further (it can be:
			// an error does not end it)
			type frozenErr struct {
				e    error
				text string
			}
			kept := []frozenErr{{e, errText}}
			if knownErrRef && !replaying && updateLike.MatchString(queryText) {
				// known finding C05.F1 (structural class: the program contains an
				// update form): the error refers to the working copy of the update
				rec.Excluded("C05/error-references-updated-container")
				break
			}
			if !replaying && loopLike.MatchString(queryText) {
				// what runs after the first error is not covered by the model's
				// resource guards: only loop-free, non-amplifying programs are
				// advanced further
				rec.Class("after-error/not-advanced")
				break
			}
			rec.Class("after-error/advanced")
			for k := 0; k < 6; k++ {
				y, ok := it.Next()
				if !ok {
					h.finished = true
					break
				}
				if ctx.Fired() {
					break
				}
				for n, f := range kept {
					if t := f.e.Error(); t != f.text {
						return vals, errText, false, fmt.Sprintf("error %d emitted as %q reads %q after the iterator advanced %d more step(s)", n, f.text, t, k+1), h
					}
				}
				if e2, isErr := y.(error); isErr {
					kept = append(kept, frozenErr{e2, e2.Error()})
				}
			}
			for n, f := range kept {
				if t := f.e.Error(); t != f.text {
					return vals, errText, false, fmt.Sprintf("error %d emitted as %q reads %q after the iterator was advanced further", n, f.text, t), h
				}
			}
			break
		}
		if m := check(fmt.Sprintf("while the iterator advanced to output %d", i)); m != "" {
			return vals, errText, false, m, h
		}
		if refjq.TreeSize(x, 20000) > 20000 {
			return vals, "", true, "", h
		}
		fz = append(fz, frozen{live: x, copy: univ.Copy(x), step: i})
		vals = append(vals, x)
		if len(vals) >= maxOuts {
			return vals, "", true, "", h
		}
	}
	if m := check("after the iterator finished"); m != "" {
		return vals, errText, false, m, h
	}
	return vals, errText, false, "", h
}

var (
	knownErrRef, replaying bool
	queryText              string // the program of the case being judged (for structural classes)
	loopLike               = regexp.MustCompile(`recurse|repeat|while|until|range|def |reduce|foreach|limit\(|tojson|tostring|@|\*|implode|join|add|ascii|splits|sub\(|walk|combinations|input|getpath|paths|env|builtins|\.\.`)
	updateLike             = regexp.MustCompile(`\|=|[-+*/%]=|//=|map_values|walk\(|_modify|with_entries|to_entries`)
)

func check(c isoCase) (msg, discard string) {
	queryText = c.Query
	q, err := gojq.Parse(c.Query)
	if err != nil {
		return "", "parse-error"
	}
	opts := []gojq.CompilerOption{gojq.WithVariables([]string{"$v"})}
	if strings.Contains(c.Query, "cf_") {
		opts = append(opts, custom.Funcs...) // only where they are called: `builtins` lists them
	}
	code, err := gojq.Compile(q, opts...)
	if err != nil {
		return "", "compile-error"
	}
	// resource guard: the model runs first on a private copy (the custom
	// functions are jq definitions for it)
	probeIn, _ := c.Spec.build()
	mq := q
	if strings.Contains(c.Query, "cf_") {
		if mq, err = gojq.Parse(custom.Defs + c.Query); err != nil {
			return "", "parse-error"
		}
	}
	want := model.Run(mq, univ.Copy(probeIn), map[string]any{"$v": univ.Copy(c.Var.X)}, fuel, maxOuts)
	if d := want.Discard(); d != "" {
		return "", d
	}

	input, backing := c.Spec.build()
	vval := univ.Copy(c.Var.X)
	inSnap, backSnap, varSnap := takeSnap(input, 0), takeSnap(backing, 0), takeSnap(vval, 0)
	pristine := func(when string) string {
		if d := inSnap.diff(input, "input"); d != "" {
			return "the input was modified " + when + ": " + d
		}
		if d := backSnap.diff(backing, "backing"); d != "" {
			return "the backing array of the input was modified " + when + ": " + d
		}
		if d := varSnap.diff(vval, "$v"); d != "" {
			return "the variable value was modified " + when + ": " + d
		}
		return ""
	}

	first, firstErr, budget, m, h0 := runKeep(code, input, vval, -1)
	if m != "" {
		return m, ""
	}
	handles := []*handle{h0}
	type part struct {
		h      *handle
		prefix []any
	}
	var parts []part
	pollAll := func(when string) string {
		for _, h := range handles {
			if m := h.poll(when); m != "" {
				return m
			}
		}
		return ""
	}
	if budget {
		return "", "budget"
	}
	if m := pristine("by the first run"); m != "" {
		return m, ""
	}
	firstText := marshalAll(first)
	firstCopy := univ.Copy(first)
	other := []any{map[string]any{"a": []any{1, 2}, "b": "x"}, []any{3, 1, 2}}
	for i, h := range c.History {
		var vals []any
		var errText string
		var hd *handle
		if m := pollAll(fmt.Sprintf("before history step %d (%s)", i, h)); m != "" {
			return m, ""
		}
		switch {
		case h == "same":
			vals, errText, budget, m, hd = runKeep(code, input, vval, -1)
			handles = append(handles, hd)
		case h == "fresh":
			in2, _ := c.Spec.build()
			vals, errText, budget, m, hd = runKeep(code, in2, univ.Copy(c.Var.X), -1)
			handles = append(handles, hd)
		case h == "compact":
			// an equal input whose arrays have no hidden capacity (or, when the
			// first input had none, three hidden slots each)
			in2, _ := c.Spec.build()
			if c.Spec.Spare == 0 {
				in2 = relayout(in2, 3, map[[2]uintptr]any{})
			} else {
				in2 = relayout(in2, 0, map[[2]uintptr]any{})
			}
			vals, errText, budget, m, hd = runKeep(code, in2, univ.Copy(c.Var.X), -1)
			handles = append(handles, hd)
		case h == "other":
			_, _, _, m, hd = runKeep(code, other[i%2], univ.Copy(c.Var.X), -1)
			handles = append(handles, hd)
			if m != "" {
				return m, ""
			}
			if m := pollAll(fmt.Sprintf("after history step %d (%s)", i, h)); m != "" {
				return m, ""
			}
			continue
		case strings.HasPrefix(h, "partial:"):
			k := int(h[len("partial:")] - '0')
			var pre []any
			pre, _, _, m, hd = runKeep(code, input, vval, k)
			if m != "" {
				return m, ""
			}
			if hd.partial {
				parts = append(parts, part{hd, pre})
			} else {
				handles = append(handles, hd)
			}
			if m := pristine(fmt.Sprintf("by a partially consumed run (history step %d)", i)); m != "" {
				return m, ""
			}
			if m := pollAll(fmt.Sprintf("after history step %d (%s)", i, h)); m != "" {
				return m, ""
			}
			continue
		default:
			return "bad history", ""
		}
		if m != "" {
			return m, ""
		}
		if budget {
			return "", "budget"
		}
		if m := pristine(fmt.Sprintf("by history step %d (%s)", i, h)); m != "" {
			return m, ""
		}
		if errText != firstErr || !univ.EqualStreams(vals, first) {
			return fmt.Sprintf("history step %d (%s) gives %s err=%q, the first run gave %s err=%q", i, h, univ.ShowAll(vals), errText, univ.ShowAll(first), firstErr), ""
		}
		if t := marshalAll(vals); t != firstText {
			return fmt.Sprintf("history step %d (%s) serialises differently:\n%s\nvs first run:\n%s", i, h, t, firstText), ""
		}
		// the outputs of the first run are still what they were
		if !univ.Same(first, firstCopy) {
			return fmt.Sprintf("outputs of the first run changed after history step %d (%s): %s -> %s", i, h, univ.Show(firstCopy), univ.Show(first)), ""
		}
		if m := pollAll(fmt.Sprintf("after history step %d (%s)", i, h)); m != "" {
			return m, ""
		}
	}
	// iterators left alive half-way are resumed, the oldest first: the runs
	// started in between must not have disturbed them
	for n, p := range parts {
		rest, errText, budget := p.h.resume()
		if budget {
			return "", "budget"
		}
		all := append(append([]any{}, p.prefix...), rest...)
		if errText != firstErr || !univ.EqualStreams(all, first) {
			return fmt.Sprintf("partially consumed iterator %d, resumed after the later runs, gives %s err=%q in all, the first run gave %s err=%q", n, univ.ShowAll(all), errText, univ.ShowAll(first), firstErr), ""
		}
		if p.h.finished {
			handles = append(handles, p.h)
		}
		if m := pollAll(fmt.Sprintf("after resuming partially consumed iterator %d", n)); m != "" {
			return m, ""
		}
	}
	if m := pristine("by resuming the partially consumed runs"); m != "" {
		return m, ""
	}
	return "", ""
}

// ---------------------------------------------------------------------------

var mutating = append(append([]string{}, gen.MutatingPrograms...), custom.Programs...)

func specGen() *rapid.Generator[inputSpec] {
	elem := gen.Value(gen.Opt{Reps: true, MaxDepth: 2, MaxWidth: 3, SmallInts: true})
	return rapid.Custom(func(t *rapid.T) inputSpec {
		n := rapid.IntRange(0, 5).Draw(t, "n")
		s := inputSpec{Spare: rapid.IntRange(0, 3).Draw(t, "spare"), Shape: rapid.SampledFrom(shapes).Draw(t, "shape"), Cut: rapid.IntRange(0, 5).Draw(t, "cut")}
		if rapid.IntRange(0, 5).Draw(t, "long") == 0 {
			// a long unsorted array of scalars with duplicates: size-dependent
			// paths of the natives (sorting, searching, hashing, chunked copies)
			m := rapid.SampledFrom([]int{32, 33, 40, 64, 65, 100}).Draw(t, "longn")
			for i := 0; i < m; i++ {
				switch k := (i*7 + m) % 11; {
				case k < 6:
					s.Elems = append(s.Elems, univ.V{X: (i * 37) % 23})
				case k < 9:
					s.Elems = append(s.Elems, univ.V{X: string(rune('a' + (i*5)%17))})
				default:
					s.Elems = append(s.Elems, univ.V{X: nil})
				}
			}
			s.Cut = rapid.IntRange(0, m).Draw(t, "longcut")
			n = 0
		}
		for i := 0; i < n; i++ {
			switch rapid.IntRange(0, 4).Draw(t, "ekind") {
			case 4:
				b, _ := new(big.Int).SetString(rapid.SampledFrom([]string{"100000000000000000000", "-100000000000000000000", "9223372036854775808", "18446744073709551616", "5"}).Draw(t, "big"), 10)
				s.Elems = append(s.Elems, univ.V{X: b})
			case 0:
				s.Elems = append(s.Elems, univ.V{X: rapid.IntRange(0, 9).Draw(t, "num")})
			case 1:
				s.Elems = append(s.Elems, univ.V{X: []any{rapid.IntRange(0, 9).Draw(t, "num"), i}})
			case 2:
				s.Elems = append(s.Elems, univ.V{X: map[string]any{"a": rapid.IntRange(0, 3).Draw(t, "num"), "b": i}})
			default:
				s.Elems = append(s.Elems, univ.V{X: elem.Draw(t, "elem")})
			}
		}
		s.Shared = univ.V{X: map[string]any{"a": rapid.IntRange(0, 3).Draw(t, "sa"), "q": []any{1, 2}}}
		if rapid.IntRange(0, 3).Draw(t, "wide") == 0 {
			// a wide object: whatever is derived from it (previews in error
			// messages, key lists, entries) must not depend on map iteration order
			m := map[string]any{"a": rapid.IntRange(0, 3).Draw(t, "sa2"), "q": []any{1, 2}}
			for i := 0; i < 14; i++ {
				m[fmt.Sprintf("k%c", 'a'+i)] = i
			}
			s.Shared = univ.V{X: m}
		}
		return s
	})
}

// relayout rebuilds v with every array given `spare` hidden slots beyond its
// length (0: none, empty arrays become plain []any{}), keeping the identity
// structure: a map reachable twice stays one map, two slices with the same
// start and length stay one slice.
func relayout(v any, spare int, memo map[[2]uintptr]any) any {
	switch x := v.(type) {
	case []any:
		if x == nil {
			return x
		}
		key := [2]uintptr{reflect.ValueOf(x).Pointer(), uintptr(len(x)) + 1}
		if len(x) > 0 {
			if w, ok := memo[key]; ok {
				return w
			}
		}
		w := make([]any, len(x), len(x)+spare)
		if len(x) > 0 {
			memo[key] = w
		}
		for i, e := range x {
			w[i] = relayout(e, spare, memo)
		}
		return w
	case map[string]any:
		if x == nil {
			return x
		}
		key := [2]uintptr{reflect.ValueOf(x).Pointer(), 0}
		if w, ok := memo[key]; ok {
			return w
		}
		w := make(map[string]any, len(x))
		memo[key] = w
		for k, e := range x {
			w[k] = relayout(e, spare, memo)
		}
		return w
	case *big.Int:
		return new(big.Int).Set(x)
	}
	return v
}

func historyGen() *rapid.Generator[[]string] {
	return rapid.SliceOfN(rapid.SampledFrom([]string{"same", "same", "fresh", "compact", "other", "partial:0", "partial:1", "partial:2"}), 1, 5)
}

func replayCase(sub string, raw json.RawMessage) string {
	if sub == "sequence" {
		var c seqCase
		if err := json.Unmarshal(raw, &c); err != nil {
			return "bad replay: " + err.Error()
		}
		m, _ := checkSeq(c)
		return m
	}
	if sub == "embedded" {
		return replayEmb(raw)
	}
	var c isoCase
	if err := json.Unmarshal(raw, &c); err != nil {
		return "bad replay: " + err.Error()
	}
	replaying = true // class exclusions do not apply to replayed cases
	defer func() { replaying = false }()
	m, _ := check(c)
	return m
}

func judge(t *rapid.T, sub string, c isoCase, nontrivial bool) {
	rec.Eval()
	rec.Journal(sub, c)
	rec.Sample(map[string]any{"query": c.Query, "shape": c.Spec.Shape, "history": c.History})
	m, d := check(c)
	if d != "" {
		rec.Discard(d)
		return
	}
	rec.Class("shape/" + c.Spec.Shape)
	for _, h := range c.History {
		rec.Class("history/" + strings.SplitN(h, ":", 2)[0])
	}
	if nontrivial {
		rec.NT(c.Query + "\x00" + fmt.Sprint(c.Spec) + fmt.Sprint(c.History))
	}
	if m != "" {
		t.Fatalf("%s", rec.Fail(sub, c, "%s", m))
	}
}

// seqCase: one compiled query run over a sequence of inputs; every result
// must equal the result a freshly compiled query gives for that input alone
// (no state leaks from one run to the next through the compiled code, e.g.
// through the regular-expression cache).
type seqCase struct {
	Query  string   `json:"query"`
	Inputs []univ.V `json:"inputs"`
}

func renderRun(code *gojq.Code, in any) (string, bool) {
	res := run.Exec(code, univ.Copy(in), steps, maxOuts)
	if res.Budget {
		return "", false
	}
	if res.Panic != "" {
		return "PANIC " + res.Panic, true
	}
	s := marshalAll(res.Vals)
	if res.Err != nil {
		s += "error: " + res.Err.Error()
	}
	return s, true
}

func checkSeq(c seqCase) (msg, discard string) {
	q, err := gojq.Parse(c.Query)
	if err != nil {
		return "", "parse-error"
	}
	shared, err := gojq.Compile(q)
	if err != nil {
		return "", "compile-error"
	}
	for i, in := range c.Inputs {
		fresh, err := gojq.Compile(q)
		if err != nil {
			return "", "compile-error"
		}
		want, ok := renderRun(fresh, in.X)
		if !ok {
			return "", "budget"
		}
		got, ok := renderRun(shared, in.X)
		if !ok {
			return "", "budget"
		}
		if got != want {
			return fmt.Sprintf("run %d of one compiled query on %s gives\n%s\na freshly compiled query gives\n%s", i+1, univ.Show(in.X), got, want), ""
		}
	}
	return "", ""
}

var seqQueries = []string{
	// two calls in one program whose pattern + flags strings coincide
	". as $i | .s | [[scan($i.re)], test($i.re + \"g\"), [match($i.re + \"g\"; \"g\") | .string]]", ". as $i | .s | [test($i.re; \"i\"), test($i.re + \"i\"), test($i.re; \"x\"), test($i.re + \"x\")]?",
	". as $i | .s | (gsub($i.re; \"\") as $x | [$x, sub($i.re + \"g\"; \"\")])?", ". as $i | .s | [[splits($i.re)], test($i.re + \"g\"), [splits($i.re + \"g\")]]?", ". as $i | .s | [test($i.re + ($i.flags // \"\")), test($i.re; $i.flags)]?",
	"test(.re; .flags)", "[match(.re; .flags)] | length", "sub(.re; \"x\"; .flags)", ".s | test(\"a.b\"; .flags)", ".s | [match(.re; .flags) | .string]", ".s | gsub(.re; \"-\"; .flags)?",
	". as $i | .s | test($i.re; $i.flags)", ". as $i | .s | [splits($i.re; $i.flags)]", ". as $i | .s | capture($i.re; $i.flags)?", ". as $i | .s | [scan($i.re; $i.flags)]", ". as $i | try (.s | test($i.re; $i.flags)) catch \"error\"",
	". as $i | .s | [test($i.re), test($i.re; $i.flags)]", ". as $i | .s | [test($i.re; $i.flags), test($i.re; null), test($i.re; \"g\")]", ". as $i | .s | sub($i.re; \"<\\(.)>\"; $i.flags)?",
	".s | ascii_downcase", ".s | tojson | fromjson", ".s | ltrimstr(\"a\")", "[.s, .re] | join(\",\")", ".s | @base64 | @base64d", ".s | explode | implode", ".flags // \"none\"", ". as $i | [limit(2; .s | match($i.re; \"g\"))] | length",
}

func TestC05(t *testing.T) {
	rec = evid.Open("C05")
	defer rec.Close()
	defer modfix.Remove()
	var err error
	if model, err = refjq.New(); err != nil {
		t.Fatal(err)
	}
	knownErrRef = rec.KnownClass("C05/error-references-updated-container")
	rec.Replays(replayCase)
	if rec.ReplayPath() != "" {
		return
	}
	specs := specGen()
	longVar := make([]any, 45)
	for i := range longVar {
		longVar[i] = (i * 29) % 31
	}
	vars := rapid.OneOf(rapid.Just[any](longVar), rapid.Just[any]([]any{3, 1, 2}), rapid.Just[any]([]any{[]any{1}, []any{2, 3}}), rapid.Just[any](map[string]any{"a": []any{1, 2}, "b": map[string]any{"c": 1}}),
		// slice paths with bounds that are not Go ints
		rapid.Just[any](map[string]any{"start": 0.5, "end": 1.5}), rapid.Just[any](map[string]any{"start": json.Number("0.5"), "end": json.Number("2")}), rapid.Just[any](map[string]any{"start": big.NewInt(1), "end": nil}), rapid.Just[any](map[string]any{"start": nil, "end": 1.7}),
		gen.Value(gen.Opt{MaxDepth: 2, MaxWidth: 3, SmallInts: true}))

	// embedded values other than literals (data imports, environment, module metadata)
	embInputs := rapid.OneOf(vars, rapid.SampledFrom([]any{nil, 1, "a", []any{[]any{2, 1}, []any{1}}, map[string]any{"a": []any{1, 2}, "b": map[string]any{"c": nil, "d": []any{map[string]any{"e": 1}}}}}))
	rec.Rapid(t, "embedded", rec.Scale(8000, 400000), func(t *rapid.T) {
		runEmbedded(t, embInputs)
	})

	// one compiled query over a sequence of related inputs vs fresh compiles
	rec.Rapid(t, "sequence", rec.Scale(20000, 800000), func(t *rapid.T) {
		c := seqCase{Query: rapid.SampledFrom(seqQueries).Draw(t, "query")}
		subj := rapid.SampledFrom([]string{"a\nb", "a.b", "aXb", "A\nB", "abab", "", "a b", "a\r\nb"}).Draw(t, "s")
		re := rapid.SampledFrom([]string{"a.b", "A.B", "^b", "a$", ".", "(a)(.)?", "a b", "a.b|B", "(", "[", "a+", "(?<x>a).(?<y>b)"}).Draw(t, "re")
		n := rapid.IntRange(2, 5).Draw(t, "n")
		for i := 0; i < n; i++ {
			var flags any = rapid.SampledFrom([]any{nil, "", "g", "i", "x", "s", "m", "n", "gi", "ig", "xs", "q", "gq", "l", "p", "sx", "is"}).Draw(t, "flags")
			in := map[string]any{"s": subj, "re": re, "flags": flags}
			if rapid.IntRange(0, 4).Draw(t, "other") == 0 {
				in["re"] = rapid.SampledFrom([]string{"a.b", "b", "("}).Draw(t, "re2")
			}
			if i > 0 && rapid.IntRange(0, 3).Draw(t, "collide") == 0 {
				// pattern and flags whose concatenation equals that of the input
				// before (a.b + "i"  vs  a.bi + ""; x + "g" vs xg + null)
				prev := c.Inputs[i-1].X.(map[string]any)
				pf, _ := prev["flags"].(string)
				switch rapid.IntRange(0, 2).Draw(t, "collidekind") {
				case 0:
					in["re"], in["flags"] = prev["re"].(string)+pf, ""
				case 1:
					in["re"], in["flags"] = prev["re"].(string)+pf+"g", nil
				default:
					if r := prev["re"].(string); len(r) > 1 {
						in["re"], in["flags"] = r[:len(r)-1], r[len(r)-1:]+pf
					}
				}
				if rapid.Bool().Draw(t, "subj") {
					in["s"] = subj + in["re"].(string) + "I" + strings.ToUpper(subj)
				}
			}
			c.Inputs = append(c.Inputs, univ.V{X: in})
		}
		rec.Eval()
		rec.Journal("sequence", c)
		rec.Class("tier/sequence")
		rec.Sample(c)
		m, d := checkSeq(c)
		if d != "" {
			rec.Discard(d)
			return
		}
		rec.NT("sequence\x00" + fmt.Sprint(c))
		if m != "" {
			t.Fatalf("%s", rec.Fail("sequence", c, "%s", m))
		}
	})

	// mutation-heavy templates, alone and composed
	rec.Rapid(t, "templates", rec.Scale(60000, 3000000), func(t *rapid.T) {
		q := rapid.SampledFrom(mutating).Draw(t, "q1")
		switch rapid.IntRange(0, 4).Draw(t, "compose") {
		case 0:
			q = "(" + q + ") | (" + rapid.SampledFrom(mutating).Draw(t, "q2") + ")"
		case 1:
			q = "(" + q + "), (" + rapid.SampledFrom(mutating).Draw(t, "q2") + ")"
		case 2:
			q = "[(" + q + ")?, (" + rapid.SampledFrom(mutating).Draw(t, "q2") + ")?]"
		case 3:
			q = ".[]? | (" + q + ")?"
		}
		c := isoCase{Query: q, Spec: specs.Draw(t, "spec"), Var: univ.V{X: vars.Draw(t, "var")}, History: historyGen().Draw(t, "history")}
		rec.Class("tier/templates")
		judge(t, "templates", c, true)
	})

	// general programs of the update-heavy grammar
	progs := gen.Program(gen.Conf{AltPat: true, AltPatFree: true, Paths: true, Builtins: true, Update: true, MaxNodes: 30})
	rec.Rapid(t, "general", rec.Scale(40000, 2000000), func(t *rapid.T) {
		p := progs.Draw(t, "prog")
		c := isoCase{Query: p.Src, Spec: specs.Draw(t, "spec"), Var: univ.V{X: vars.Draw(t, "var")}, History: historyGen().Draw(t, "history")}
		rec.Class("tier/general")
		nt := false
		for _, f := range p.Features {
			if f == "update" || f == "builtin" || f == "path" {
				nt = true
			}
		}
		judge(t, "general", c, nt)
	})

	// corpus queries on aliased inputs
	qs, err := corpus.Queries()
	if err != nil {
		t.Fatal(err)
	}
	var usable []string
	for _, q := range qs {
		lq := strings.ToLower(q)
		if strings.Contains(lq, "input") || strings.Contains(lq, "now") || strings.Contains(lq, "localtime") || strings.Contains(lq, "debug") || strings.Contains(lq, "stderr") || strings.Contains(lq, "env") || strings.Contains(lq, "$__") || strings.Contains(lq, "import") || strings.Contains(lq, "include") || strings.Contains(lq, "mktime") || strings.Contains(lq, "strflocaltime") || strings.Contains(lq, "halt") {
			continue
		}
		usable = append(usable, q)
	}
	rec.Rapid(t, "corpus", rec.Scale(15000, 400000), func(t *rapid.T) {
		c := isoCase{Query: rapid.SampledFrom(usable).Draw(t, "q"), Spec: specs.Draw(t, "spec"), Var: univ.V{X: vars.Draw(t, "var")}, History: historyGen().Draw(t, "history")}
		rec.Class("tier/corpus")
		judge(t, "corpus", c, true)
	})
}
