package c05

// Sub-check "embedded": the constants a compiled query carries are not only
// its literals.  With the usual compile options the Code also embeds the
// values of imported data files ($d, $d::d), the environment object, module
// definitions folded into constants and $__loc__; `modulemeta` manufactures
// its result from the parsed module on every call.  A mutating or
// structure-sharing program is pointed at each of these sources and one Code
// is run over a history of inputs (with abandoned partial runs in between):
// every run must serialise exactly as a run of a freshly compiled Code with a
// fresh loader does, every emitted value must read the same after the iterator
// has finished, and serialising a source before and after the mutating
// program inside one run must give the same text.

import (
	"encoding/json"
	"fmt"
	"strings"

	"github.com/itchyny/gojq"
	"pgregory.net/rapid"

	"verif/internal/gen"
	"verif/internal/modfix"
	"verif/internal/run"
	"verif/internal/univ"
)

type embCase struct {
	Query   string   `json:"query"`
	Inputs  []univ.V `json:"inputs"`
	Var     univ.V   `json:"var"`
	Partial []int    `json:"partial"` // before run i: take Partial[i] values of a run and abandon it (0 = none)
}

const embPrefix = `import "m1" as m; import "m2" as n; import "d" as $d; import "e" as $e; `

// sources of embedded values
var embSources = []string{
	"$d", "$d[0]", "$d[1]", "$d::d", "$d[0].b", "$d[0].a", "$e", "$e[0]", "$e::e[0][1]", "[$d[], $e[]]", "{d: $d, e: $e[0]}",
	"(\"m1\" | modulemeta)", "(\"m1\" | modulemeta | .v)", "(\"m2\" | modulemeta | .deps)", "(\"m2\" | modulemeta | .defs)", "(\"m3\" | modulemeta | .deps[0])",
	"$ENV", "env", "[$ENV]", "{e: env}", "$__loc__", "[$__loc__, $__loc__]", "m::k", "m::c", "[m::c, m::k]", "n::h", "n::w", "n::g(1)", "$v", "[$v, $d[0]]",
	"{\"a\":[3,1,2],\"b\":{\"c\":[1]}}", "[[3,1],[2],{\"a\":[1]}]", "[{\"a\":2},{\"a\":1},{\"a\":2}]",
}

// mutators written for the shapes of the sources (the general ones come from gen.MutatingPrograms)
var embMutators = []string{
	".[0].a[0] = 9", ".[0].a |= map(. + 1)", ".[0].b.d[0].e = 5", ".[0].b.c = [1]", "del(.[0].a[0])", "del(.b.c)", "del(.a[0])", ".[1] += [5]", ".[1][1] |= . + [5]", ".a += [3]", ".b.d += [1]", ".b.d[0] |= . + {f: 1}",
	"map(del(.a.q)?)", "sort_by(.a.q?)", "sort_by(-(.a.q? // 0))", "group_by(.a?)", "unique_by(.a?)", "unique", "sort", "reverse", "add?", "flatten", "to_entries", "with_entries(.)?", "with_entries(.value |= .)?", "walk(.)", "map_values(.)", "map_values(empty)",
	".v[1].a += 1", "del(.v[0])", ".defs |= reverse", ".defs | sort | reverse", ".deps[0].as = \"x\"", ".deps |= map(del(.relpath))", ".name = 1", "del(.deps, .defs)", ".[0].relpath |= ascii_upcase", ".[0] = null", ".[0] |= . + \"x\"",
	".VERIF_A = 1", "del(.VERIF_A)", ".VERIF_A |= . + \"x\"", "to_entries | map(.value) | sort", ".[0].VERIF_B = null", ".e.VERIF_C += \"c\"", "with_entries(.value |= ascii_upcase)", "keys | reverse", "[.[]] | sort | reverse",
	".line = 2", ".file |= . + \"x\"", "del(.line)", ".[0].line += 1", "to_entries | .[0].value = 0",
	".a[0] = 7", ".a |= sort", ".a |= reverse", ".[0] |= sort", ".[2].a += [2]", ".[0] = 0", ".[1:] = [7]", ".[:1] |= map(. + [0]?)", ".. |= .", "[.. | arrays | .[:1]]", "[paths]", "[tostream] | fromstream(.[])", "tojson | fromjson", "setpath([\"x\"]; 1)?", "setpath([0]; 1)?",
	"delpaths([[0], [1]])?", "delpaths([[\"a\"], [\"b\", \"c\"]])?", "getpath([0, \"a\"])? |= 5", "(.[0], .[1])? |= .", ".[0] as $x | ($x | .a? = 1)?, $x", "[., .] | .[0][0]? = 1", "{x: .} | .x.a? = 1", "(.a, .b)? |= (.zz? = 1)?", "[.[]?, .[]?] | unique",
	"[{}, .[]?] | add?", "[[], .[]?] | add?", "[{}, ., {z: 1}] | add?", "({} + .)? | .zz = 1", "([] + .)? | .[0] = 1", "({} * .)?", ". * {a: {q: 9}}?", ". + {a: 1}?", ". + [1]?", "(. - [.[0]?])?", "transpose?", "min_by(.a?)?, max_by(.a?)?", "(.[0]?, .[-1]?)",
	"[limit(2; .[]?)]", "first(.[]?)", "[.[]?] | .[0] = 1", "[foreach .[]? as $x ([]; . + [$x]; .[0] = 0)]", "reduce .[]? as $x ([]; . + [$x]) | .[0] = 1", "[.[]? | .[0]? = 1]", ".[]? |= .", "[.[]? | tojson]", "join(\",\")?", "implode?", "@json", "@csv?", "tostring",
}

var embForms = []string{
	"%S | %M",
	"%S | %M",
	"%S | (%M), .",
	"[%S | %M] | length",
	"(%S | tojson) as $before | [(%S | %M)?] | [(%S | tojson) == $before, length]",
	"%S as $x | [($x | %M)?] | $x",
	"[%S, (%S | [(%M)?] | length), %S] | [.[0] == .[2], .[1]]",
	". as $in | %S | %M | [., $in]",
	"first(%S | %M), [%S | %M2]",
	"(%S | %M) as $y | %S | %M2",
	"[limit(2; %S | %M, %M2)]",
	"try (%S | %M | error) catch .",
	"label $out | (%S | %M), break $out",
}

func embProgram(t *rapid.T) string {
	src := rapid.SampledFrom(embSources).Draw(t, "source")
	pickM := func(label string) string {
		if rapid.IntRange(0, 2).Draw(t, label+"kind") == 0 {
			if m := rapid.SampledFrom(gen.MutatingPrograms).Draw(t, label+"g"); !strings.Contains(m, "|") || strings.HasPrefix(m, "(") {
				return "(" + m + ")"
			}
		}
		return "(" + rapid.SampledFrom(embMutators).Draw(t, label) + ")"
	}
	f := rapid.SampledFrom(embForms).Draw(t, "form")
	f = strings.ReplaceAll(f, "%M2", pickM("m2"))
	f = strings.ReplaceAll(f, "%M", pickM("m"))
	return embPrefix + strings.ReplaceAll(f, "%S", src)
}

// keepRun runs code to the end (or takes at most limit values when limit > 0),
// keeping a deep copy of every emitted value taken at the moment it was emitted.
func keepRun(code *gojq.Code, in, v any, limit int) (text string, live, copies []any, budget bool, panicked string) {
	defer func() {
		if r := recover(); r != nil {
			panicked = fmt.Sprint(r)
		}
	}()
	ctx := run.NewCountCtx(steps)
	it := code.RunWithContext(ctx, in, v)
	var sb strings.Builder
	for n := 0; ; n++ {
		if limit > 0 && n >= limit {
			return sb.String(), live, copies, false, ""
		}
		x, ok := it.Next()
		if !ok {
			break
		}
		if e, isErr := x.(error); isErr {
			if ctx.Fired() {
				return "", nil, nil, true, ""
			}
			sb.WriteString("error: " + e.Error())
			break
		}
		if n >= maxOuts {
			return "", nil, nil, true, ""
		}
		b, err := gojq.Marshal(x)
		if err != nil {
			sb.WriteString("marshal error: " + err.Error())
		}
		sb.Write(b)
		sb.WriteByte('\n')
		live = append(live, x)
		copies = append(copies, univ.Copy(x))
	}
	return sb.String(), live, copies, false, ""
}

func checkEmb(c embCase) (msg, discard string) {
	q, err := gojq.Parse(c.Query)
	if err != nil {
		return "", "parse-error"
	}
	shared, err := gojq.Compile(q, modfix.Options()...)
	if err != nil {
		return "", "compile-error"
	}
	for i, in := range c.Inputs {
		fresh, err := gojq.Compile(q, modfix.Options()...)
		if err != nil {
			return "", "compile-error"
		}
		want, _, _, budget, p := keepRun(fresh, univ.Copy(in.X), univ.Copy(c.Var.X), 0)
		if budget {
			return "", "budget"
		}
		if p != "" {
			return "gojq panicked: " + p, ""
		}
		if i < len(c.Partial) && c.Partial[i] > 0 {
			// an abandoned run in between
			if _, _, _, budget, p := keepRun(shared, univ.Copy(in.X), univ.Copy(c.Var.X), c.Partial[i]); budget {
				return "", "budget"
			} else if p != "" {
				return "gojq panicked in a partial run: " + p, ""
			}
		}
		input, v := univ.Copy(in.X), univ.Copy(c.Var.X)
		got, live, copies, budget, p := keepRun(shared, input, v, 0)
		if budget {
			return "", "budget"
		}
		if p != "" {
			return "gojq panicked: " + p, ""
		}
		if got != want {
			return fmt.Sprintf("run %d of one compiled query on %s gives\n%s\na freshly compiled query (fresh module loader) gives\n%s", i+1, univ.Show(in.X), got, want), ""
		}
		for k := range live {
			if !univ.Same(live[k], copies[k]) {
				return fmt.Sprintf("run %d: output %d was %s when it was emitted and reads %s after the iterator finished", i+1, k, univ.Show(copies[k]), univ.Show(live[k])), ""
			}
		}
		if !univ.Same(input, in.X) {
			return fmt.Sprintf("run %d modified its input: %s -> %s", i+1, univ.Show(in.X), univ.Show(input)), ""
		}
		if !univ.Same(v, c.Var.X) {
			return fmt.Sprintf("run %d modified the value of $v: %s -> %s", i+1, univ.Show(c.Var.X), univ.Show(v)), ""
		}
		// the in-run invariants of the forms that carry one
		if strings.Contains(c.Query, "== $before") || strings.Contains(c.Query, ".[0] == .[2]") {
			if strings.HasPrefix(got, "[false") {
				return fmt.Sprintf("run %d: the source serialises differently after the mutating program ran on it: %s", i+1, got), ""
			}
		}
	}
	return "", ""
}

func replayEmb(raw json.RawMessage) string {
	var c embCase
	if err := json.Unmarshal(raw, &c); err != nil {
		return "bad replay: " + err.Error()
	}
	m, _ := checkEmb(c)
	return m
}

func runEmbedded(t *rapid.T, inputs *rapid.Generator[any]) {
	c := embCase{Query: embProgram(t), Var: univ.V{X: inputs.Draw(t, "var")}}
	n := rapid.IntRange(2, 4).Draw(t, "runs")
	first := inputs.Draw(t, "input")
	for i := 0; i < n; i++ {
		in := first
		if rapid.IntRange(0, 2).Draw(t, "other") == 0 {
			in = inputs.Draw(t, "input")
		}
		c.Inputs = append(c.Inputs, univ.V{X: in})
		c.Partial = append(c.Partial, rapid.SampledFrom([]int{0, 0, 1, 2}).Draw(t, "partial"))
	}
	rec.Eval()
	rec.Journal("embedded", c)
	rec.Sample(c)
	m, d := checkEmb(c)
	if d != "" {
		rec.Discard(d)
		return
	}
	rec.Class("tier/embedded")
	switch {
	case strings.Contains(c.Query[len(embPrefix):], "modulemeta"):
		rec.Class("embedded/modulemeta")
	case strings.Contains(c.Query[len(embPrefix):], "$d") || strings.Contains(c.Query[len(embPrefix):], "$e"):
		rec.Class("embedded/data-import")
	case strings.Contains(c.Query[len(embPrefix):], "ENV") || strings.Contains(c.Query[len(embPrefix):], "env"):
		rec.Class("embedded/environment")
	case strings.Contains(c.Query[len(embPrefix):], "m::") || strings.Contains(c.Query[len(embPrefix):], "n::"):
		rec.Class("embedded/module-constant")
	default:
		rec.Class("embedded/other")
	}
	rec.NT("embedded" + c.Query + fmt.Sprint(c.Partial) + univ.Show(c.Inputs[0].X))
	if m != "" {
		t.Fatalf("%s", rec.Fail("embedded", c, "%s", m))
	}
}
