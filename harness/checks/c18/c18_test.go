// C18 — modules behave as textual inclusion with namespacing.
//
// Oracles (none consults gojq's module machinery for the expected value):
//   - tree / resolve / cli: an INLINER (model_test.go) builds the single-file
//     program the property prescribes for a generated module tree – every
//     definition instance gets a unique name, every reference is resolved by
//     the model's own lexical rules, data files become literals – and that
//     program is run WITHOUT a module loader; the real run over the files on
//     disk must give the same outputs.  Which file a directive loads is
//     decided by the model's own candidate order; every body returns a tag
//     naming file, function, arity, so a wrong resolution is observable.
//   - probe: names the model says are NOT visible in a context must make the
//     program fail to compile.
//   - meta: modulemeta == header + direct dependencies + sorted name/arity list
//     computed from the generated tree.
//   - data: $d and $d::d == the values decoded from the file by encoding/json.
package c18

import (
	"bytes"
	"context"
	"encoding/json"
	"errors"
	"fmt"
	"io"
	"os"
	"os/exec"
	"path/filepath"
	"runtime/debug"
	"sort"
	"strings"
	"testing"
	"time"

	"github.com/itchyny/gojq"
	"pgregory.net/rapid"

	"verif/internal/cmdline"
	"verif/internal/evid"
	"verif/internal/gen"
	"verif/internal/run"
	"verif/internal/univ"
)

var rec *evid.Rec

const (
	classF14 = "C18/importer-scope-leak"              // F14
	classF1  = "C18/include-data-var"                 // C18.F1
	classF2  = "C18/main-file-relative-search"        // C18.F2
	classF3  = "C18/data-alias-rebound-after-include" // C18.F3

	stepBudget = 3000000
	outBudget  = 200000
)

// ---------------------------------------------------------------------------
// files on disk

func safeRel(p string) bool {
	q := filepath.Clean(p)
	return p != "" && !filepath.IsAbs(q) && q != ".." && !strings.HasPrefix(q, "../")
}

var procRoot string // everything this process writes lives under it

func procDir() (string, error) {
	if procRoot != "" {
		return procRoot, nil
	}
	var d string
	var err error
	if fi, e := os.Stat("/dev/shm"); e == nil && fi.IsDir() {
		d, err = os.MkdirTemp("/dev/shm", "c18-")
	}
	if d == "" || err != nil {
		d, err = os.MkdirTemp("", "c18-")
	}
	if err != nil {
		return "", err
	}
	// no symlinked components ($ORIGIN is resolved through EvalSymlinks)
	if r, e := filepath.EvalSymlinks(d); e == nil {
		d = r
	}
	procRoot = d
	return d, nil
}

// newRoot makes the per-case directory.
func newRoot() (string, error) {
	p, err := procDir()
	if err != nil {
		return "", err
	}
	return os.MkdirTemp(p, "case-")
}

func writeFile(root, rel, content string) error {
	if !safeRel(rel) {
		return fmt.Errorf("unsafe path %q", rel)
	}
	p := filepath.Join(root, rel)
	if err := os.MkdirAll(filepath.Dir(p), 0o755); err != nil {
		return err
	}
	return os.WriteFile(p, []byte(strings.ReplaceAll(content, rootMark, root)), 0o644)
}

// materialise writes the tree; probeFile (>= 0) gets extra appended.
func materialise(root string, c *treeCase, probeFile int, extra string) error {
	for i := range c.Files {
		f := &c.Files[i]
		x := ""
		if i == probeFile {
			x = extra
		}
		if err := writeFile(root, f.Path, srcFile(f, x)); err != nil {
			return err
		}
	}
	if c.Mode == "cli" {
		for _, d := range []string{c.Cwd, c.Home} {
			if d != "" {
				if !safeRel(d) {
					return fmt.Errorf("unsafe path %q", d)
				}
				if err := os.MkdirAll(filepath.Join(root, d), 0o755); err != nil {
					return err
				}
			}
		}
	}
	return nil
}

// ---------------------------------------------------------------------------
// running

type outcome struct {
	vals    []any
	cerr    error // the program did not compile (parse errors of module files included)
	rerr    error
	budget  bool
	panic   string
	harness string
}

func runLib(root string, c *treeCase, mainText string, compileOnly bool) (o outcome) {
	defer func() {
		if r := recover(); r != nil {
			st := string(debug.Stack())
			if len(st) > 1500 {
				st = st[:1500]
			}
			o.panic = fmt.Sprintf("panic: %v\n%s", r, st)
		}
	}()
	q, err := gojq.Parse(strings.ReplaceAll(mainText, rootMark, root))
	if err != nil {
		o.cerr = fmt.Errorf("main program does not parse: %w", err)
		return
	}
	var abs []string
	for _, p := range c.Paths {
		abs = append(abs, filepath.Join(root, p))
	}
	code, err := gojq.Compile(q, gojq.WithModuleLoader(gojq.NewModuleLoader(abs)))
	if err != nil {
		o.cerr = err
		return
	}
	if compileOnly {
		return
	}
	res := run.Exec(code, nil, stepBudget, outBudget)
	o.vals, o.rerr, o.budget, o.panic = res.Vals, res.Err, res.Budget, res.Panic
	return
}

func runInlined(text string) (o outcome) {
	code, err := run.Compile(text)
	if err != nil {
		o.cerr = err
		return
	}
	res := run.Exec(code, nil, stepBudget, outBudget)
	o.vals, o.rerr, o.budget, o.panic = res.Vals, res.Err, res.Budget, res.Panic
	return
}

var procBin string // a private copy of the command, so that $ORIGIN can be moved around by hard links

func procBinary() (string, error) {
	if procBin != "" {
		return procBin, nil
	}
	d, err := procDir()
	if err != nil {
		return "", err
	}
	src, err := os.Open(cmdline.Path())
	if err != nil {
		return "", err
	}
	defer src.Close()
	dst, err := os.OpenFile(filepath.Join(d, "gojq"), os.O_CREATE|os.O_WRONLY, 0o755)
	if err != nil {
		return "", err
	}
	if _, err := io.Copy(dst, src); err != nil {
		dst.Close()
		return "", err
	}
	if err := dst.Close(); err != nil {
		return "", err
	}
	procBin = filepath.Join(d, "gojq")
	return procBin, nil
}

func cleanupProc() {
	if procRoot != "" {
		os.RemoveAll(procRoot)
		procRoot, procBin = "", ""
	}
}

func execCmd(bin, dir string, env []string, args ...string) cmdline.Result {
	ctx, cancel := context.WithTimeout(context.Background(), 120*time.Second)
	defer cancel()
	cmd := exec.CommandContext(ctx, bin, args...)
	cmd.Env = append([]string{"PATH=/usr/bin:/bin", "HOME=/nonexistent", "LANG=C", "TZ=UTC", "GOTRACEBACK=single"}, env...)
	cmd.Dir = dir
	var so, se bytes.Buffer
	cmd.Stdout, cmd.Stderr = &so, &se
	err := cmd.Run()
	r := cmdline.Result{Stdout: so.String(), Stderr: se.String()}
	if ctx.Err() != nil {
		r.TimedOut, r.Exit = true, -1
		return r
	}
	var ee *exec.ExitError
	if errors.As(err, &ee) {
		r.Exit = ee.ExitCode()
	} else if err != nil {
		r.Exit = -2
		r.Stderr += "\nexec error: " + err.Error()
	}
	return r
}

var defaultPaths = []string{"~/.jq", "lib/gojq", "lib"}

func runCLI(root string, c *treeCase, mainText string) (o outcome) {
	bin := cmdline.Path()
	if c.Defaults {
		if fmt.Sprint(c.Paths) != fmt.Sprint(defaultPaths) || c.Home == "" {
			o.harness = "bad case: defaults mode needs paths " + fmt.Sprint(defaultPaths)
			return
		}
		pb, err := procBinary()
		if err != nil {
			o.harness = err.Error()
			return
		}
		if err := os.MkdirAll(filepath.Join(root, "bin"), 0o755); err != nil {
			o.harness = err.Error()
			return
		}
		bin = filepath.Join(root, "bin", "gojq")
		if err := os.Link(pb, bin); err != nil {
			b, err2 := os.ReadFile(pb)
			if err2 != nil {
				o.harness = err.Error()
				return
			}
			if err2 := os.WriteFile(bin, b, 0o755); err2 != nil {
				o.harness = err2.Error()
				return
			}
		}
	}
	cwd := filepath.Join(root, c.Cwd)
	args := []string{"-n", "-c"}
	if !c.Defaults {
		for _, p := range c.Paths {
			switch {
			case strings.HasPrefix(p, "~/"):
			case c.RelL:
				rel, err := filepath.Rel(cwd, filepath.Join(root, p))
				if err != nil {
					o.harness = err.Error()
					return
				}
				p = rel
			default:
				p = filepath.Join(root, p)
			}
			args = append(args, "-L", p)
		}
	}
	if c.MainFile != "" {
		if err := writeFile(root, c.MainFile, mainText); err != nil {
			o.harness = err.Error()
			return
		}
		args = append(args, "-f", filepath.Join(root, c.MainFile))
	} else {
		args = append(args, strings.ReplaceAll(mainText, rootMark, root))
	}
	var env []string
	if c.Home != "" {
		env = append(env, "HOME="+filepath.Join(root, c.Home))
	}
	r := execCmd(bin, cwd, env, args...)
	switch {
	case r.TimedOut:
		o.budget = true
	case r.Crashed():
		o.panic = fmt.Sprintf("gojq %v crashed (exit %d): %s", args, r.Exit, r.Stderr)
	case r.Exit == 3:
		o.cerr = errors.New(strings.TrimSpace(r.Stderr))
	case r.Exit != 0:
		o.rerr = fmt.Errorf("exit %d: %s", r.Exit, strings.TrimSpace(r.Stderr))
	}
	dec := json.NewDecoder(strings.NewReader(r.Stdout))
	dec.UseNumber()
	for {
		var v any
		if err := dec.Decode(&v); err != nil {
			if err != io.EOF && o.rerr == nil && o.cerr == nil && o.panic == "" {
				o.rerr = fmt.Errorf("output is not JSON: %v: %q", err, r.Stdout)
			}
			break
		}
		o.vals = append(o.vals, v)
	}
	return
}

// ---------------------------------------------------------------------------
// tree: module run == inlined run

func trunc(s string, n int) string {
	if len(s) > n {
		return s[:n] + "...(truncated)"
	}
	return s
}

func describe(c *treeCase) string {
	var sb strings.Builder
	fmt.Fprintf(&sb, "paths %v", c.Paths)
	for i := range c.Files {
		fmt.Fprintf(&sb, "\n--- %s\n%s", c.Files[i].Path, srcFile(&c.Files[i], ""))
	}
	fmt.Fprintf(&sb, "\n--- main\n%s", srcMain(c, ""))
	return trunc(sb.String(), 6000)
}

func knownClassOfTree(c *treeCase, m *model) string {
	switch {
	case m.leakHit:
		return classF14
	case m.inclVar:
		return classF1
	case m.rebindHit:
		return classF3
	case c.Mode == "cli" && c.MainFile != "":
		// the command never rewrites the search entries of the program file:
		// they are taken relative to the working directory, and "" is dropped
		sameDir := filepath.Clean("./"+c.Cwd) == filepath.Dir(filepath.Clean(c.MainFile))
		for _, d := range c.Main.Dirs {
			if s, ok := searchOf(d.Meta); ok && isRelSearch(s) && (!sameDir || s == "") {
				return classF2
			}
		}
	}
	return ""
}

func checkTree(c treeCase) string {
	m := newModel(&c)
	m.run()
	if len(m.errs) > 0 {
		return "bad case: " + m.errs[0]
	}
	root, err := newRoot()
	if err != nil {
		return "harness: " + err.Error()
	}
	defer os.RemoveAll(root)
	if err := materialise(root, &c, -2, ""); err != nil {
		return "harness: " + err.Error()
	}
	var real outcome
	switch c.Mode {
	case "cli":
		real = runCLI(root, &c, srcMain(&c, ""))
	case "lib":
		real = runLib(root, &c, srcMain(&c, ""), false)
	default:
		return "bad case: mode " + c.Mode
	}
	if real.harness != "" {
		return "harness: " + real.harness
	}
	if real.panic != "" {
		return "gojq panicked: " + real.panic + "\n" + describe(&c)
	}
	if m.notFound != "" {
		if real.cerr == nil {
			return fmt.Sprintf("no candidate file exists for module %q, yet the program compiled and gave %s\n%s", m.notFound, trunc(univ.ShowAll(real.vals), 500), describe(&c))
		}
		return ""
	}
	if real.cerr != nil {
		return fmt.Sprintf("the module program does not compile: %v\n%s\n--- equivalent single file\n%s", real.cerr, describe(&c), trunc(m.program(), 3000))
	}
	exp := runInlined(m.program())
	if exp.cerr != nil {
		return fmt.Sprintf("bad case: the inlined program does not compile: %v\n%s", exp.cerr, trunc(m.program(), 3000))
	}
	if exp.budget || real.budget {
		rec.Discard("budget")
		return ""
	}
	if exp.rerr != nil || exp.panic != "" {
		return fmt.Sprintf("bad case: the inlined program fails: %v %s", exp.rerr, exp.panic)
	}
	if real.rerr != nil {
		return fmt.Sprintf("the module program fails at run time: %v\n%s", real.rerr, describe(&c))
	}
	if !univ.EqualStreams(real.vals, exp.vals) {
		i := 0
		for i < len(real.vals) && i < len(exp.vals) && univ.Equal(real.vals[i], exp.vals[i]) {
			i++
		}
		g, w := "(nothing)", "(nothing)"
		if i < len(real.vals) {
			g = univ.Show(real.vals[i])
		}
		if i < len(exp.vals) {
			w = univ.Show(exp.vals[i])
		}
		return fmt.Sprintf("output %d differs: modules give %s, textual inclusion with namespacing gives %s (%d vs %d outputs)\n%s\n--- equivalent single file\n%s",
			i, trunc(g, 600), trunc(w, 600), len(real.vals), len(exp.vals), describe(&c), trunc(m.program(), 3000))
	}
	return ""
}

// classes and the non-trivial rule of one tree
func noteTree(sub string, c *treeCase, m *model) {
	rec.Eval()
	cl := func(b bool, name string) {
		if b {
			rec.Class(sub + "/" + name)
		}
	}
	cl(m.nInclude > 0, "include")
	cl(m.nImport > 0, "import")
	cl(m.nData > 0, "data")
	cl(m.diamond, "diamond(file instantiated twice)")
	cl(m.clash, "clash(definition shadows a visible one)")
	cl(m.multi, "two-or-more-candidate-files")
	cl(m.relSearch, "relative-search")
	cl(m.nested, "found-as-name/basename")
	cl(m.maxDepth >= 3, "depth3")
	cl(m.nInit > 0, "init-file")
	cl(m.ctxRef, "included-text-uses-includer-names")
	cl(m.override, "builtin-overridden-and-called")
	cl(m.aliasClash, "same-alias-twice-in-a-file")
	cl(m.notFound != "", "module-not-found")
	cl(c.MainFile != "", "main-from-file")
	cl(c.Defaults, "default-search-paths")
	names := map[string]map[int]bool{}
	files := map[string]map[int]bool{}
	all := append([]fileSpec{c.Main}, c.Files...)
	for fi := range all {
		idx := fi - 1
		if idx < 0 {
			idx = len(c.Files)
		}
		if m.instances[idx] == 0 {
			continue
		}
		for _, d := range all[fi].Defs {
			if names[d.Name] == nil {
				names[d.Name], files[d.Name] = map[int]bool{}, map[int]bool{}
			}
			names[d.Name][len(d.Params)] = true
			files[d.Name][fi] = true
		}
	}
	multiArity, multiFile := false, false
	for n := range names {
		if len(names[n]) > 1 {
			multiArity = true
		}
		if len(files[n]) > 1 {
			multiFile = true
		}
	}
	cl(multiArity, "same-name-several-arities")
	cl(multiFile, "same-name-in-several-files")
	if m.diamond || m.clash || m.multi || multiFile || multiArity {
		b, _ := json.Marshal(c)
		rec.NT(sub + "/" + string(b))
	}
}

// ---------------------------------------------------------------------------
// probe: invisible names do not compile

type probeCase struct {
	Tree treeCase `json:"tree"`
	File int      `json:"file"` // index into Tree.Files; -1: the main program
	Ref  expr     `json:"ref"`
}

func judgeProbe(pc *probeCase) (string, *model) {
	m := newModel(&pc.Tree)
	m.probeFile, m.probeRef = pc.File, pc.Ref
	m.run()
	if len(m.errs) > 0 {
		return "bad", m
	}
	if m.notFound != "" {
		return "unreached", m
	}
	return verdictOf(m.probes), m
}

func checkProbe(pc probeCase) string {
	if pc.Tree.Mode != "lib" {
		return "bad case: probes run through the library"
	}
	if pc.File < -1 || pc.File >= len(pc.Tree.Files) || (pc.File >= 0 && pc.Tree.Files[pc.File].IsData) {
		return "bad case: probe file"
	}
	for _, a := range pc.Ref.A {
		if a.K != "lit" {
			return "bad case: probe arguments must be literals"
		}
	}
	v, m := judgeProbe(&pc)
	switch v {
	case "bad":
		return "bad case: " + m.errs[0]
	case "visible", "unreached":
		return "" // not a negative probe
	}
	root, err := newRoot()
	if err != nil {
		return "harness: " + err.Error()
	}
	defer os.RemoveAll(root)
	query, where := "", "the main program"
	if pc.File >= 0 {
		where = pc.Tree.Files[pc.File].Path
		if err := materialise(root, &pc.Tree, pc.File, "def zz_probe: "+srcExpr(pc.Ref)+";\n"); err != nil {
			return "harness: " + err.Error()
		}
	} else {
		query = srcExpr(pc.Ref)
		if err := materialise(root, &pc.Tree, -2, ""); err != nil {
			return "harness: " + err.Error()
		}
	}
	o := runLib(root, &pc.Tree, srcMain(&pc.Tree, query), true)
	if o.panic != "" {
		return "gojq panicked: " + o.panic
	}
	if o.cerr == nil {
		why := "nothing the file defines, imports or includes binds it"
		if v == "leak" {
			why += " (an importer up the chain bound it before the import)"
		}
		return fmt.Sprintf("%s must not be visible in %s – %s – yet the program compiles\n%s", srcExpr(pc.Ref), where, why, describe(&pc.Tree))
	}
	msg := o.cerr.Error()
	switch {
	case strings.Contains(msg, "function not defined"):
		rec.Class("probe/rejected:function-not-defined")
	case strings.Contains(msg, "variable not defined"):
		rec.Class("probe/rejected:variable-not-defined")
	case strings.Contains(msg, "unexpected token"), strings.Contains(msg, "parse"):
		rec.Class("probe/rejected:syntax")
	default:
		rec.Class("probe/rejected:other")
		rec.Sample(map[string]any{"probe-rejected-with": trunc(msg, 300), "ref": srcExpr(pc.Ref)})
	}
	return ""
}

// ---------------------------------------------------------------------------
// meta: modulemeta

type metaCase struct {
	Tree treeCase `json:"tree"`
	Name string   `json:"name"`
}

var modulemetaQuery *gojq.Query

// builtins outside the model's table: a call that compiles in a program
// which defines nothing is visible everywhere and is no negative probe.
var standaloneCache = map[string]bool{}

func init() {
	standaloneVisible = func(name string, arity int) bool {
		src := name
		if arity > 0 {
			src += "(" + strings.Repeat("0; ", arity-1) + "0)"
		}
		if v, ok := standaloneCache[src]; ok {
			return v
		}
		_, err := run.Compile(src)
		standaloneCache[src] = err == nil
		return err == nil
	}
}

func init() {
	q, err := gojq.Parse("modulemeta")
	if err != nil {
		panic(err)
	}
	modulemetaQuery = q
}

func dedupe(xs []any) []any {
	var out []any
	for i, x := range xs {
		if i > 0 && univ.Equal(x, xs[i-1]) {
			continue
		}
		out = append(out, x)
	}
	return out
}

func checkMeta(mc metaCase) string {
	c := &mc.Tree
	if c.Mode != "lib" {
		return "bad case: modulemeta runs through the library"
	}
	m := newModel(c)
	fi, _, _ := m.resolve("", false, directive{Name: mc.Name}, ".jq")
	if len(m.errs) > 0 {
		return "bad case: " + m.errs[0]
	}
	root, err := newRoot()
	if err != nil {
		return "harness: " + err.Error()
	}
	defer os.RemoveAll(root)
	if err := materialise(root, c, -2, ""); err != nil {
		return "harness: " + err.Error()
	}
	var abs []string
	for _, p := range c.Paths {
		abs = append(abs, filepath.Join(root, p))
	}
	code, err := gojq.Compile(modulemetaQuery, gojq.WithModuleLoader(gojq.NewModuleLoader(abs)))
	if err != nil {
		return "modulemeta does not compile: " + err.Error()
	}
	res := run.Exec(code, mc.Name, stepBudget, 10)
	if res.Panic != "" {
		return "gojq panicked: " + res.Panic
	}
	if fi < 0 {
		if res.Err == nil {
			return fmt.Sprintf("%q | modulemeta: no candidate file exists, yet it gave %s", mc.Name, univ.ShowAll(res.Vals))
		}
		return ""
	}
	f := &c.Files[fi]
	if f.IsData {
		return "bad case: data file"
	}
	if res.Err != nil || len(res.Vals) != 1 {
		return fmt.Sprintf("%q | modulemeta (file %s): err=%v outputs=%s", mc.Name, f.Path, res.Err, univ.ShowAll(res.Vals))
	}
	want, dup, err := expectedMeta(f, root)
	if err != nil {
		return "bad case: " + err.Error()
	}
	got, ok := univ.Copy(res.Vals[0]).(map[string]any)
	if !ok {
		return fmt.Sprintf("%q | modulemeta gave %s", mc.Name, univ.Show(res.Vals[0]))
	}
	// not claimed: whether names starting with _ are listed, whether a
	// signature defined twice is listed twice, and whether a relative search
	// entry of a dependency is reported as written or resolved
	if gd, ok := got["defs"].([]any); ok {
		var keep []any
		for _, x := range gd {
			if s, ok := x.(string); ok && strings.HasPrefix(s, "_") {
				continue
			}
			keep = append(keep, x)
		}
		if keep == nil {
			keep = []any{}
		}
		if dup {
			keep = dedupe(keep)
			want["defs"] = dedupe(want["defs"].([]any))
		}
		got["defs"] = keep
	}
	if gdeps, ok := got["deps"].([]any); ok {
		wdeps := want["deps"].([]any)
		for i := range gdeps {
			if i >= len(wdeps) {
				break
			}
			gm, ok1 := gdeps[i].(map[string]any)
			wm := wdeps[i].(map[string]any)
			if !ok1 {
				continue
			}
			gs, ok1 := gm["search"].(string)
			ws, ok2 := wm["search"].(string)
			if ok1 && ok2 && gs != ws && !filepath.IsAbs(ws) && gs == filepath.Join(root, filepath.Dir(f.Path), ws) {
				gm["search"] = ws
			}
		}
	}
	if !univ.Equal(got, want) {
		return fmt.Sprintf("%q | modulemeta (file %s) gave\n  %s\nthe file says\n  %s\n--- file\n%s", mc.Name, f.Path, univ.Show(got), univ.Show(want), srcFile(f, ""))
	}
	return ""
}

// ---------------------------------------------------------------------------
// data: $d and $d::d are the array of the values in the file

type dataCase struct {
	Text   string `json:"text"`
	Nested bool   `json:"nested,omitempty"` // d/d.json instead of d.json
	Via    string `json:"via"`              // main | module | include
	Search bool   `json:"search,omitempty"` // the file lives in X/, reached through a search entry (relative from a module)
	CLI    bool   `json:"cli,omitempty"`    // through the command (-L) instead of the library
}

// checkData: a data file is accepted iff it is a white-space separated
// sequence of complete JSON values (the harness's own recogniser decides);
// accepted: $d == $d::d == the array of those values; rejected: the program
// does not compile and produces nothing.
func checkData(dc dataCase) string {
	texts, accepted, adjacent := scanDataFile(dc.Text)
	if adjacent {
		rec.Discard("data: two values with no white space between them (not claimed)")
		return ""
	}
	want := []any{}
	for _, tx := range texts {
		var v any
		dec := json.NewDecoder(strings.NewReader(tx))
		dec.UseNumber()
		if err := dec.Decode(&v); err != nil || !json.Valid([]byte(tx)) {
			return fmt.Sprintf("bad case: the harness recogniser accepted %q, encoding/json does not: %v", trunc(tx, 200), err)
		}
		want = append(want, v)
	}
	root, err := newRoot()
	if err != nil {
		return "harness: " + err.Error()
	}
	defer os.RemoveAll(root)
	dir := "L0"
	if dc.Search {
		dir = "X"
	}
	p := dir + "/d.json"
	if dc.Nested {
		p = dir + "/d/d.json"
	}
	if err := writeFile(root, p, dc.Text); err != nil {
		return "harness: " + err.Error()
	}
	meta := ""
	if dc.Search {
		meta = ` {search: "` + rootMark + `/X"}`
		if dc.Via != "main" {
			meta = ` {search: "../X"}`
		}
	}
	main := `import "d" as $d` + meta + `; $d, $d::d`
	switch dc.Via {
	case "main":
	case "module":
		main = `import "m" as m; m::a, m::b`
	case "include":
		main = `include "m"; a, b`
	default:
		return "bad case: via " + dc.Via
	}
	if dc.Via != "main" {
		if err := writeFile(root, "L0/m.jq", `import "d" as $d`+meta+`; def a: $d; def b: $d::d;`); err != nil {
			return "harness: " + err.Error()
		}
	}
	c := treeCase{Mode: "lib", Paths: []string{"L0"}}
	var o outcome
	if dc.CLI {
		c.Mode = "cli"
		o = runCLI(root, &c, main)
	} else {
		o = runLib(root, &c, main, false)
	}
	if o.harness != "" {
		return "harness: " + o.harness
	}
	if o.budget {
		rec.Discard("budget")
		return ""
	}
	if o.panic != "" {
		return "gojq panicked: " + o.panic
	}
	how := "library"
	if dc.CLI {
		how = "command"
	}
	if !accepted {
		if o.cerr == nil || len(o.vals) > 0 {
			return fmt.Sprintf("data file %q is not a white-space separated sequence of JSON values, yet (%s) compile error = %v, run error = %v, outputs %s",
				trunc(dc.Text, 300), how, o.cerr, o.rerr, trunc(univ.ShowAll(o.vals), 400))
		}
		return ""
	}
	if o.cerr != nil || o.rerr != nil {
		return fmt.Sprintf("data file %q (%s): %v %v", trunc(dc.Text, 300), how, o.cerr, o.rerr)
	}
	if len(o.vals) != 2 {
		return fmt.Sprintf("data file %q (%s): expected two outputs, got %s", trunc(dc.Text, 300), how, univ.ShowAll(o.vals))
	}
	for i, name := range []string{"$d", "$d::d"} {
		if !univ.Equal(o.vals[i], want) {
			return fmt.Sprintf("data file %q (%s): %s is %s, the file holds %s", trunc(dc.Text, 300), how, name, trunc(univ.Show(o.vals[i]), 500), trunc(univ.Show(want), 500))
		}
	}
	return ""
}

// malformed pieces a data file may be interrupted by
var badPieces = []struct{ name, text string }{
	{"stray-]", "]"},
	{"stray-}", "}"},
	{"stray-comma", ","},
	{"colon", ":"},
	{"unterminated-string", `"abc`},
	{"truncated-literal", "tru"},
	{"unclosed-array", "[1,"},
	{"NUL", "\x00"},
	{"comment-#", "# c\n"},
	{"comment-//", "// c\n"},
	{"garbage-x", "x"},
	{"unclosed-object", `{"a":`},
}

// ---------------------------------------------------------------------------
// resolve: bounded-exhaustive candidate subsets

func resolveCases() []treeCase {
	var out []treeCase
	marker := func(p string) fileSpec {
		if strings.HasSuffix(p, ".json") {
			return fileSpec{Path: p, IsData: true, Text: jstr(p) + "\n", Vals: []string{jstr(p)}}
		}
		return fileSpec{Path: p, Defs: []defSpec{{Name: "mk"}}}
	}
	type importer struct {
		path   string // "" = the main program
		search string // how the directory S is written from there
	}
	importers := []importer{{"", rootMark + "/S"}, {"L0/top.jq", "../S"}, {"L1/top/top.jq", "./../../S/"},
		// the importing file lives in S itself: every spelling of "my own directory"
		{"S/top.jq", ""}, {"S/top.jq", "."}, {"S/top.jq", "./"}, {"S/top.jq", "./."}, {"S/top.jq", "sub/.."}}
	for _, imp := range importers {
		for _, name := range []string{"b", "a/b"} {
			for _, kind := range []string{"import", "include", "data"} {
				for _, withSearch := range []bool{false, true} {
					if !withSearch && strings.HasPrefix(imp.path, "S/") {
						continue
					}
					ext := ".jq"
					if kind == "data" {
						ext = ".json"
					}
					base := filepath.Base(name)
					var cands []string
					if withSearch {
						cands = append(cands, "S/"+name+ext, "S/"+name+"/"+base+ext)
					}
					cands = append(cands, "L0/"+name+ext, "L0/"+name+"/"+base+ext, "L1/"+name+ext, "L1/"+name+"/"+base+ext)
					for mask := 0; mask < 1<<len(cands); mask++ {
						c := treeCase{Mode: "lib", Paths: []string{"L0", "L1"}}
						for i, p := range cands {
							if mask&(1<<i) != 0 {
								c.Files = append(c.Files, marker(p))
							}
						}
						d := directive{Kind: kind, Name: name, Alias: "x"}
						if withSearch {
							d.Meta = []metaKV{searchKV(imp.search)}
						}
						var use expr
						switch kind {
						case "import":
							use = expr{K: "call", S: "x::mk"}
						case "include":
							use = expr{K: "call", S: "mk"}
						default:
							use = expr{K: "var", S: "$x"}
						}
						if imp.path == "" {
							c.Main.Dirs = []directive{d}
							c.Query = []expr{use}
						} else {
							c.Files = append(c.Files, fileSpec{Path: imp.path, Dirs: []directive{d}, Defs: []defSpec{{Name: "get", Body: []expr{use}}}})
							c.Main.Dirs = []directive{{Kind: "import", Name: "top", Alias: "t"}}
							if strings.HasPrefix(imp.path, "S/") {
								c.Main.Dirs[0].Meta = []metaKV{searchKV(rootMark + "/S")}
							}
							c.Query = []expr{{K: "call", S: "t::get"}}
						}
						out = append(out, c)
					}
				}
			}
		}
	}
	return out
}

// ---------------------------------------------------------------------------

func replayCase(sub string, raw json.RawMessage) string {
	switch sub {
	case "tree", "resolve", "cli", "resolve-cli":
		var c treeCase
		if err := json.Unmarshal(raw, &c); err != nil {
			return "bad replay: " + err.Error()
		}
		return checkTree(c)
	case "probe":
		var c probeCase
		if err := json.Unmarshal(raw, &c); err != nil {
			return "bad replay: " + err.Error()
		}
		return checkProbe(c)
	case "meta":
		var c metaCase
		if err := json.Unmarshal(raw, &c); err != nil {
			return "bad replay: " + err.Error()
		}
		return checkMeta(c)
	case "data":
		var c dataCase
		if err := json.Unmarshal(raw, &c); err != nil {
			return "bad replay: " + err.Error()
		}
		return checkData(c)
	}
	return "unknown sub " + sub
}

var sampleCount int64

// sampleTick thins the samples before the (costly) rendering of a tree.
func sampleTick() bool {
	sampleCount++
	n := sampleCount
	return n <= 4 || n&(n-1) == 0
}

func flags() genFlags {
	return genFlags{f14known: rec.KnownClass(classF14), f1known: rec.KnownClass(classF1), f3known: rec.KnownClass(classF3)}
}

// excludedTree applies the known-finding classes to a generated tree (the
// generators avoid them by construction; this is the safety net).
func excludedTree(c *treeCase, m *model) bool {
	if cls := knownClassOfTree(c, m); cls != "" && rec.KnownClass(cls) {
		rec.Excluded(cls)
		return true
	}
	return false
}

func TestC18(t *testing.T) {
	rec = evid.Open("C18")
	defer rec.Close()
	defer cleanupProc()
	rec.Replays(replayCase)
	if rec.ReplayPath() != "" {
		return
	}

	// (E) every subset of the candidate files of one directive
	rcs := resolveCases()
	complete := true
	for i := range rcs {
		if !rec.Mine(i) {
			continue
		}
		c := rcs[i]
		m := newModel(&c)
		m.run()
		noteTree("resolve", &c, m)
		b, _ := json.Marshal(c)
		rec.NT("resolve/" + string(b))
		if msg := checkTree(c); msg != "" {
			rec.Direct("resolve", c, "%s", msg)
			complete = false
			if rec.Violations() > 20 {
				t.Fatalf("too many violations")
			}
		}
		// the same through the command, every 8th case (every case in thorough)
		if rec.Thorough() || i%8 == 3 {
			c.Mode = "cli"
			c.RelL = i%16 == 3
			rec.Eval()
			rec.Class("resolve/through-the-command")
			if msg := checkTree(c); msg != "" {
				rec.Direct("resolve-cli", c, "%s", msg)
				complete = false
			}
		}
	}
	rec.Exhaustive(fmt.Sprintf("candidate-subsets(%d cases: 3 importers x 2 names x 3 kinds x with/without search, plus 5 spellings of the importing file's own directory x 2 names x 3 kinds, x all subsets of 6/4 candidates)", len(rcs)), complete)

	// (R1) random trees through the library
	rec.Rapid(t, "tree", rec.Scale(40000, 600000), func(t *rapid.T) {
		c := genTree(t, genLayoutLib(t), flags())
		m := newModel(&c)
		m.run()
		if excludedTree(&c, m) {
			return
		}
		noteTree("tree", &c, m)
		if sampleTick() {
			rec.Sample(map[string]any{"tree": describe(&c)})
		}
		if msg := checkTree(c); msg != "" {
			t.Fatalf("%s", rec.Fail("tree", c, "%s", msg))
		}
	})

	// (R2) negative probes
	rec.Rapid(t, "probe", rec.Scale(12000, 160000), func(t *rapid.T) {
		c := genTree(t, genLayoutLib(t), flags())
		m := newModel(&c)
		m.run()
		if len(m.errs) > 0 || m.notFound != "" {
			t.Fatalf("%s", rec.Fail("tree", c, "bad case from the generator: %v %s", m.errs, m.notFound))
		}
		refs := probeUniverse(&c)
		var ctxs []int
		for fi := range c.Files {
			if !c.Files[fi].IsData && m.instances[fi] > 0 {
				ctxs = append(ctxs, fi)
			}
		}
		ctxs = append(ctxs, len(c.Files))
		n := rapid.IntRange(1, 8).Draw(t, "nprobes")
		for k := 0; k < n; k++ {
			ctx := ctxs[rapid.IntRange(0, len(ctxs)-1).Draw(t, "ctx")]
			var neg []int
			var verdicts []string
			for ri, r := range refs {
				var seen []probeSeen
				for _, sc := range m.ends[ctx] {
					seen = append(seen, m.see(r, sc))
				}
				if v := verdictOf(seen); v == "hard" || v == "leak" {
					neg = append(neg, ri)
					verdicts = append(verdicts, v)
				}
			}
			if len(neg) == 0 {
				continue
			}
			j := rapid.IntRange(0, len(neg)-1).Draw(t, "ref")
			pc := probeCase{Tree: c, File: ctx, Ref: refs[neg[j]]}
			if ctx == len(c.Files) {
				pc.File = -1
			}
			rec.Eval()
			if verdicts[j] == "leak" && rec.KnownClass(classF14) {
				rec.Excluded(classF14)
				continue
			}
			kind := "function"
			if pc.Ref.K == "var" {
				kind = "variable"
			}
			where := "module"
			if pc.File < 0 {
				where = "main"
			}
			rec.Class("probe/" + kind + "-invisible-in-" + where)
			if strings.Contains(pc.Ref.S, "::") {
				rec.Class("probe/qualified-name")
			}
			b, _ := json.Marshal(pc)
			rec.NT("probe/" + string(b))
			if msg := checkProbe(pc); msg != "" {
				t.Fatalf("%s", rec.Fail("probe", pc, "%s", msg))
			}
		}
	})

	// (E2) modulemeta on fixed overload sets: the list is ordered by name, then
	// by arity as a number (the expectation sorts (name, arity) pairs)
	for i, sigs := range [][]sig{
		{{"f", 0}, {"f", 2}, {"f", 10}, {"g", 1}},
		{{"f", 10}, {"g", 1}, {"f", 2}, {"f", 0}},
		{{"f", 12}, {"f", 11}, {"f", 9}, {"f", 1}, {"f", 10}, {"f", 3}},
		{{"fa", 0}, {"f_", 0}, {"f", 1}, {"f1", 2}, {"F", 3}, {"ff", 10}, {"ff", 9}, {"f", 10}, {"f", 2}},
		{{"g0", 2}, {"g", 12}, {"g", 2}, {"g", 0}, {"g0", 11}},
	} {
		if !rec.Mine(i) {
			continue
		}
		f := fileSpec{Path: "L0/m.jq"}
		for _, s := range sigs {
			f.Defs = append(f.Defs, overloadDef(s.Name, s.Arity))
		}
		mc := metaCase{Tree: treeCase{Mode: "lib", Paths: []string{"L0"}, Files: []fileSpec{f}, Query: []expr{{K: "lit", S: "x"}}}, Name: "m"}
		rec.Eval()
		rec.Class("meta/fixed-overload-sets")
		b, _ := json.Marshal(mc)
		rec.NT("meta/" + string(b))
		if msg := checkMeta(mc); msg != "" {
			rec.Direct("meta", mc, "%s", msg)
		}
	}

	// (R3) modulemeta
	rec.Rapid(t, "meta", rec.Scale(10000, 100000), func(t *rapid.T) {
		c := genTree(t, genLayoutLib(t), flags())
		addOverloads(t, &c)
		m := newModel(&c)
		// names reachable through the search paths alone, plus a missing one
		var names []string
		for fi := range c.Files {
			if c.Files[fi].IsData {
				continue
			}
			for _, o := range refOptions(m.paths, "", "", false, c.Files[fi].Path) {
				if !o.hasSearch {
					names = append(names, o.name)
				}
			}
		}
		sort.Strings(names)
		if len(names) == 0 || rapid.IntRange(0, 11).Draw(t, "missing") == 11 {
			names = []string{"nosuch"}
		}
		mc := metaCase{Tree: c, Name: names[rapid.IntRange(0, len(names)-1).Draw(t, "name")]}
		rec.Eval()
		fi, n, _ := m.resolve("", false, directive{Name: mc.Name}, ".jq")
		if fi >= 0 {
			f := &c.Files[fi]
			if len(f.Dirs) > 0 || f.HasHeader || n > 1 {
				b, _ := json.Marshal(mc)
				rec.NT("meta/" + string(b))
			}
			if len(f.Dirs) > 0 {
				rec.Class("meta/with-deps")
			}
			if f.HasHeader {
				rec.Class("meta/with-header")
			}
			if n > 1 {
				rec.Class("meta/two-or-more-candidate-files")
			}
			clash, prefix := digitClash(f)
			if clash {
				rec.Class("meta/one-name-at-arity-2..9-and->=10")
				b, _ := json.Marshal(mc)
				rec.NT("meta/" + string(b))
			}
			if prefix {
				rec.Class("meta/name-is-prefix-of-another")
			}
		} else {
			rec.Class("meta/no-such-module")
		}
		if msg := checkMeta(mc); msg != "" {
			t.Fatalf("%s", rec.Fail("meta", mc, "%s", msg))
		}
	})

	// (E3) every malformed piece at the start, between values and at the end,
	// with and without white space around it, through the library; each
	// piece once through the command
	{
		idx := 0
		completeData := true
		for pi, bp := range badPieces {
			for _, ws := range []string{"", " ", "\n"} {
				for pos, text := range []string{
					bp.text + ws + `{"a":1}` + "\n",
					`{"a":1}` + "\n" + bp.text + ws + `{"b":2}` + "\n",
					"1 " + bp.text + ws + "2",
					`[1] "s"` + ws + bp.text,
					`{"a":1}` + ws + bp.text + "\n",
					bp.text,
				} {
					idx++
					if !rec.Mine(idx) {
						continue
					}
					dc := dataCase{Text: text, Via: []string{"main", "module", "include"}[(pi+pos)%3], Nested: pos%2 == 1, Search: (pi+pos)%4 == 0}
					dc.CLI = ws == " " && pos == 1
					rec.Eval()
					rec.Class("data/malformed-enumerated:" + bp.name)
					rec.NT("data/" + dc.Text + "/" + dc.Via)
					if msg := checkData(dc); msg != "" {
						rec.Direct("data", dc, "%s", msg)
						completeData = false
					}
				}
			}
		}
		rec.Exhaustive(fmt.Sprintf("malformed-data-files(%d pieces x 3 spacings x 6 positions)", len(badPieces)), completeData)
	}

	// (R4) data files: 0-4 values with drawn white space, optionally one
	// malformed piece at the start, between values or at the end
	rec.Rapid(t, "data", rec.Scale(10000, 100000), func(t *rapid.T) {
		n := rapid.IntRange(0, 4).Draw(t, "nvals")
		wsGen := rapid.SampledFrom([]string{"\n", " ", "\r\n", "\t", "\n\n", "  "})
		optWS := rapid.SampledFrom([]string{"", "", " ", "\n", "\t"})
		bad, badAt := -1, 0
		if rapid.IntRange(0, 2).Draw(t, "malformed") == 0 {
			bad = rapid.IntRange(0, len(badPieces)-1).Draw(t, "piece")
			badAt = rapid.IntRange(0, n).Draw(t, "at") // before value badAt (n: at the end)
		}
		var sb strings.Builder
		sb.WriteString(optWS.Draw(t, "lead"))
		for i := 0; i <= n; i++ {
			if i == badAt && bad >= 0 {
				sb.WriteString(badPieces[bad].text)
				sb.WriteString(optWS.Draw(t, "afterbad"))
			}
			if i == n {
				break
			}
			v := gen.Value(gen.Opt{Reps: true, MaxDepth: 2, MaxWidth: 3}).Draw(t, "val")
			txt, ok := univ.JSONText(v)
			if !ok {
				txt = "null"
			}
			sb.WriteString(txt)
			switch {
			case i == n-1 && badAt != n:
				sb.WriteString(optWS.Draw(t, "trail"))
			case i+1 == badAt && bad >= 0:
				sb.WriteString(optWS.Draw(t, "beforebad"))
			default:
				sb.WriteString(wsGen.Draw(t, "sep"))
			}
		}
		dc := dataCase{Text: sb.String(), Nested: rapid.Bool().Draw(t, "nested"), Via: rapid.SampledFrom([]string{"main", "module", "include"}).Draw(t, "via"),
			Search: rapid.IntRange(0, 2).Draw(t, "search") == 0, CLI: rapid.IntRange(0, 7).Draw(t, "cli") == 0}
		rec.Eval()
		_, accepted, _ := scanDataFile(dc.Text)
		rec.Class(fmt.Sprintf("data/%d-values", n))
		rec.Class("data/via-" + dc.Via)
		if bad >= 0 {
			rec.Class("data/malformed:" + badPieces[bad].name)
			if accepted {
				rec.Class("data/malformed-piece-yet-well-formed-file")
			}
		}
		if !accepted {
			rec.Class("data/rejected-by-the-model")
		}
		if dc.CLI {
			rec.Class("data/through-the-command")
		}
		if dc.Search {
			rec.Class("data/through-a-search-entry")
		}
		if n != 1 || bad >= 0 {
			rec.NT("data/" + dc.Text + "/" + dc.Via)
		}
		if msg := checkData(dc); msg != "" {
			t.Fatalf("%s", rec.Fail("data", dc, "%s", msg))
		}
	})

	// (R5) random trees through the command: -L, default paths, ~/.jq, -f
	rec.Rapid(t, "cli", rec.Scale(3000, 40000), func(t *rapid.T) {
		c := genTree(t, genLayoutCLI(t, rec.KnownClass(classF2)), flags())
		m := newModel(&c)
		m.run()
		if excludedTree(&c, m) {
			return
		}
		noteTree("cli", &c, m)
		if msg := checkTree(c); msg != "" {
			t.Fatalf("%s", rec.Fail("cli", c, "%s", msg))
		}
	})
}
