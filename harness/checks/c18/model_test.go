// The reference model for C18: a file-system model of module resolution and an
// INLINER that builds, from a generated module tree, the single-file program
// prescribed by "textual inclusion with namespacing".  Nothing in this file
// calls gojq.
package c18

import (
	"encoding/json"
	"fmt"
	"path/filepath"
	"sort"
	"strings"
)

// ---------------------------------------------------------------------------
// case types (JSON-serialisable: these are the replay file format)

// expr is the tiny body language of generated functions.
//
//	lit   – the string literal S
//	call  – a call of the function written S (plain or alias::name) with
//	        arguments A; In, when not empty, is jq text piped into the call
//	var   – the variable written S ($d, $d::d, or a value parameter $v1)
//	pcall – a call of the closure parameter S
type expr struct {
	K  string `json:"k"`
	S  string `json:"s"`
	A  []expr `json:"a,omitempty"`
	In string `json:"in,omitempty"`
}

type defSpec struct {
	Name   string   `json:"name"`
	Params []string `json:"params,omitempty"` // "p1" (closure) or "$v1" (value)
	Rec    bool     `json:"rec,omitempty"`    // the body recurses once when its input is 1
	Body   []expr   `json:"body,omitempty"`
}

// metaKV is one entry of a constant object (module header or import
// metadata).  Val is JSON text (which is also valid jq constant syntax); the
// placeholder @ROOT@ inside it stands for the per-case directory.
type metaKV struct {
	Key    string          `json:"key"`
	Quoted bool            `json:"quoted,omitempty"`
	Val    json.RawMessage `json:"val"`
}

type directive struct {
	Kind    string   `json:"kind"` // include | import | data
	Name    string   `json:"name"`
	Alias   string   `json:"alias,omitempty"` // without the $
	HasMeta bool     `json:"has_meta,omitempty"`
	Meta    []metaKV `json:"meta,omitempty"`
}

type fileSpec struct {
	Path      string      `json:"path"` // relative to the case directory
	IsData    bool        `json:"is_data,omitempty"`
	Text      string      `json:"text,omitempty"` // data files: the raw content
	Vals      []string    `json:"vals,omitempty"` // data files: the JSON texts of the values in Text
	HasHeader bool        `json:"has_header,omitempty"`
	Header    []metaKV    `json:"header,omitempty"`
	Dirs      []directive `json:"dirs,omitempty"`
	Defs      []defSpec   `json:"defs,omitempty"`
}

type treeCase struct {
	Mode     string     `json:"mode"`                // lib | cli
	Paths    []string   `json:"paths"`               // loader search paths, relative to the case directory ("~/x": under Home)
	Defaults bool       `json:"defaults,omitempty"`  // cli: no -L, the command's default search paths (Paths lists them)
	RelL     bool       `json:"rel_l,omitempty"`     // cli: -L arguments relative to Cwd
	Home     string     `json:"home,omitempty"`      // cli: HOME, relative to the case directory
	Cwd      string     `json:"cwd,omitempty"`       // cli: working directory, relative to the case directory
	MainFile string     `json:"main_file,omitempty"` // cli: program passed with -f from this file
	Files    []fileSpec `json:"files"`
	Main     fileSpec   `json:"main"` // Dirs, Defs; Path is ignored
	Query    []expr     `json:"query"`
}

const rootMark = "@ROOT@"

// ---------------------------------------------------------------------------
// builtins the generated bodies may call (name/arity and a total input)

type builtinSpec struct {
	Name  string
	Arity int
	In    string
}

var builtinTable = []builtinSpec{
	{"length", 0, `["x","y"]`},
	{"add", 0, `["x","y"]`},
	{"not", 0, `null`},
	{"keys", 0, `{"k":0}`},
	{"tostring", 0, `"s"`},
	{"map", 1, `[0]`},
	{"first", 1, ``},
	{"select", 1, ``},
}

// standaloneVisible reports whether name/arity is callable in a program that
// defines nothing (a builtin outside the table above); set by the test file.
var standaloneVisible = func(name string, arity int) bool { return false }

func isBuiltin(name string, arity int) bool {
	for _, b := range builtinTable {
		if b.Name == name && b.Arity == arity {
			return true
		}
	}
	return false
}

// ---------------------------------------------------------------------------
// environments: persistent chains, newest binding first

type fbind struct {
	name  string
	arity int
	inst  int
	prev  *fbind
}

type vbind struct {
	name       string
	data       int // file index of the data file
	viaInclude bool
	rebound    bool // the same file binds the name again later (C18.F3 when used in between)
	used       bool
	prev       *vbind
}

func lookF(h *fbind, name string, arity int) *fbind {
	for ; h != nil; h = h.prev {
		if h.name == name && h.arity == arity {
			return h
		}
	}
	return nil
}

func lookV(h *vbind, name string) *vbind {
	for ; h != nil; h = h.prev {
		if h.name == name {
			return h
		}
	}
	return nil
}

// scope is what a point of a file can see: f/v are the names the property
// grants; lf/lv are the environments of the importers up the chain at their
// import points – the names that must NOT be visible (known finding F14 is
// that gojq nevertheless sees them).
type scope struct {
	f  *fbind
	v  *vbind
	lf []*fbind
	lv []*vbind
}

func (s scope) leakF(name string, arity int) bool {
	for _, h := range s.lf {
		if lookF(h, name, arity) != nil {
			return true
		}
	}
	return false
}

func (s scope) leakV(name string) bool {
	for _, h := range s.lv {
		if lookV(h, name) != nil {
			return true
		}
	}
	return false
}

type sig struct {
	Name  string
	Arity int
}

// visibleF lists the distinct function signatures of an environment, oldest first.
func visibleF(h *fbind) []sig {
	seen := map[sig]bool{}
	var out []sig
	for ; h != nil; h = h.prev {
		s := sig{h.name, h.arity}
		if !seen[s] {
			seen[s] = true
			out = append(out, s)
		}
	}
	for i, j := 0, len(out)-1; i < j; i, j = i+1, j-1 {
		out[i], out[j] = out[j], out[i]
	}
	return out
}

func visibleV(h *vbind) []string {
	seen := map[string]bool{}
	var out []string
	for ; h != nil; h = h.prev {
		if !seen[h.name] {
			seen[h.name] = true
			out = append(out, h.name)
		}
	}
	for i, j := 0, len(out)-1; i < j; i, j = i+1, j-1 {
		out[i], out[j] = out[j], out[i]
	}
	return out
}

// ---------------------------------------------------------------------------
// the model

type probeSeen struct {
	env, builtin, leak bool
}

type model struct {
	c       *treeCase
	fileIdx map[string]int
	paths   []string // resolved loader paths (relative to the case directory)

	defs      strings.Builder // inlined definitions
	dataBound map[int]bool
	dataOrder []int
	nInst     int
	unames    []string
	instances []int // per file: number of instances (index len(Files) = main)

	errs     []string // the case is malformed (the generator never produces these)
	notFound string   // first directive, in compile order, that names no file

	// structural classes
	leakHit    bool // a body calls a builtin whose name an importer up the chain has bound (F14)
	inclVar    bool // a reference resolves to a data variable bound by an included module (C18.F1)
	rebindHit  bool // included text uses a data variable that its includer binds again afterwards (C18.F3)
	diamond    bool
	clash      bool
	multi      bool // some directive had >= 2 existing candidate files
	ctxRef     bool // an included file uses a name of its includer
	override   bool // a user definition overrides a builtin and is called
	aliasClash bool
	maxDepth   int
	nInclude   int
	nImport    int
	nData      int
	nInit      int
	relSearch  bool
	nested     bool // a module was found through name/<basename>.jq

	// recorded for the generator: per (file, def) the body scope of every instance
	envs map[[2]int][]scope
	// end-of-file scopes per file (index len(Files) = main)
	ends map[int][]scope

	// probe support
	probeFile int // -2: none; -1: main
	probeRef  expr
	probes    []probeSeen

	mainScope scope
	queryText string
}

func newModel(c *treeCase) *model {
	m := &model{c: c, fileIdx: map[string]int{}, dataBound: map[int]bool{}, envs: map[[2]int][]scope{}, ends: map[int][]scope{}, probeFile: -2}
	for i, f := range c.Files {
		m.fileIdx[filepath.Clean(f.Path)] = i
	}
	m.instances = make([]int, len(c.Files)+1)
	for _, p := range c.Paths {
		if strings.HasPrefix(p, "~/") {
			if c.Home == "" {
				m.errs = append(m.errs, "~/ path without a home")
				continue
			}
			p = filepath.Join(c.Home, p[2:])
		}
		m.paths = append(m.paths, filepath.Clean(p))
	}
	return m
}

// searchOf returns the last string-valued "search" entry.
func searchOf(meta []metaKV) (string, bool) {
	s, ok := "", false
	for _, kv := range meta {
		if kv.Key == "search" {
			var v any
			if json.Unmarshal(kv.Val, &v) == nil {
				if str, isStr := v.(string); isStr {
					s, ok = str, true
				} else {
					s, ok = "", false
				}
			}
		}
	}
	return s, ok
}

func isRelSearch(s string) bool {
	return !strings.HasPrefix(s, rootMark) && !strings.HasPrefix(s, "~/") && !strings.HasPrefix(s, "/")
}

// resolveSearch maps a search string to a directory relative to the case directory.
func (m *model) resolveSearch(s, dir string, hasDir bool) (string, bool) {
	switch {
	case strings.HasPrefix(s, rootMark):
		return filepath.Clean("./" + strings.TrimPrefix(s, rootMark)), true
	case strings.HasPrefix(s, "~/"):
		if m.c.Home == "" {
			m.errs = append(m.errs, "~/ search without a home")
			return "", false
		}
		return filepath.Join(m.c.Home, s[2:]), true
	case strings.HasPrefix(s, "/"):
		m.errs = append(m.errs, "absolute search outside the case directory")
		return "", false
	default:
		if !hasDir {
			m.errs = append(m.errs, "relative search in a program that is not a file")
			return "", false
		}
		return filepath.Join(dir, s), true
	}
}

// candidates lists, in the documented order, the files tried for a module name.
func (m *model) candidates(dir string, hasDir bool, d directive, ext string) []string {
	var bases []string
	if s, ok := searchOf(d.Meta); ok {
		if p, ok := m.resolveSearch(s, dir, hasDir); ok {
			bases = append(bases, p)
		}
	}
	bases = append(bases, m.paths...)
	var out []string
	for _, b := range bases {
		out = append(out, filepath.Join(b, d.Name+ext), filepath.Join(b, d.Name, filepath.Base(d.Name)+ext))
	}
	return out
}

// resolve returns the index of the file a directive loads (-1: none), the
// number of distinct existing candidates and whether the winner was found
// through the name/<basename> rule.
func (m *model) resolve(dir string, hasDir bool, d directive, ext string) (int, int, bool) {
	first, n, nestedHit := -1, 0, false
	seen := map[int]bool{}
	for k, cand := range m.candidates(dir, hasDir, d, ext) {
		if i, ok := m.fileIdx[cand]; ok {
			if !seen[i] {
				seen[i] = true
				n++
			}
			if first < 0 {
				first = i
				nestedHit = k%2 == 1
			}
		}
	}
	return first, n, nestedHit
}

func (m *model) fileAt(fi int) (*fileSpec, string, bool) {
	if fi == len(m.c.Files) {
		if m.c.MainFile != "" {
			return &m.c.Main, filepath.Dir(filepath.Clean(m.c.MainFile)), true
		}
		return &m.c.Main, "", false
	}
	f := &m.c.Files[fi]
	return f, filepath.Dir(filepath.Clean(f.Path)), true
}

func tagOf(path string, d defSpec, di int) string {
	return fmt.Sprintf("%s:%s/%d#%d", path, d.Name, len(d.Params), di)
}

func jstr(s string) string {
	b, _ := json.Marshal(s)
	return string(b)
}

// proc walks one file instance; sc is what the file inherits.
func (m *model) proc(fi int, sc scope, depth int) scope {
	if depth > m.maxDepth {
		m.maxDepth = depth
	}
	if depth > 6 {
		m.errs = append(m.errs, "module nesting too deep (cycle?)")
		return sc
	}
	f, dir, hasDir := m.fileAt(fi)
	m.instances[fi]++
	if m.instances[fi] > 1 {
		m.diamond = true
	}
	inherited := sc.f
	if fi == len(m.c.Files) {
		inherited = nil
	}
	aliases := map[string]bool{}
	mine := map[string]*vbind{} // data variables bound by this file instance
	for _, d := range f.Dirs {
		if m.notFound != "" || len(m.errs) > 0 {
			return sc
		}
		ext := ".jq"
		if d.Kind == "data" {
			ext = ".json"
		}
		if s, ok := searchOf(d.Meta); ok && isRelSearch(s) {
			m.relSearch = true
		}
		ti, n, nestedHit := m.resolve(dir, hasDir, d, ext)
		if n >= 2 {
			m.multi = true
		}
		if ti < 0 {
			m.notFound = d.Name
			return sc
		}
		if nestedHit {
			m.nested = true
		}
		if m.c.Files[ti].IsData != (d.Kind == "data") {
			m.errs = append(m.errs, "directive kind does not match the file kind")
			return sc
		}
		switch d.Kind {
		case "data":
			m.nData++
			if aliases["$"+d.Alias] {
				m.aliasClash = true
			}
			aliases["$"+d.Alias] = true
			if !m.dataBound[ti] {
				m.dataBound[ti] = true
				m.dataOrder = append(m.dataOrder, ti)
			}
			for _, n := range []string{"$" + d.Alias, "$" + d.Alias + "::" + d.Alias} {
				if prev := mine[n]; prev != nil {
					prev.rebound = true
					if prev.used {
						m.rebindHit = true
					}
				}
				nb := &vbind{name: n, data: ti, prev: sc.v}
				mine[n] = nb
				sc.v = nb
			}
		case "include":
			m.nInclude++
			base := sc.v
			sub := m.proc(ti, sc, depth+1)
			sc.f = sub.f
			// the variables the included text binds stay bound (literal reading)
			var added []*vbind
			for h := sub.v; h != nil && h != base; h = h.prev {
				added = append(added, h)
			}
			for i := len(added) - 1; i >= 0; i-- {
				sc.v = &vbind{name: added[i].name, data: added[i].data, viaInclude: true, prev: sc.v}
			}
		case "import":
			m.nImport++
			if aliases[d.Alias] {
				m.aliasClash = true
			}
			aliases[d.Alias] = true
			inner := scope{
				lf: append(append([]*fbind{}, sc.lf...), sc.f),
				lv: append(append([]*vbind{}, sc.lv...), sc.v),
			}
			sub := m.proc(ti, inner, depth+1)
			var added []*fbind
			for h := sub.f; h != nil; h = h.prev {
				added = append(added, h)
			}
			for i := len(added) - 1; i >= 0; i-- {
				if !strings.Contains(added[i].name, "::") {
					sc.f = &fbind{d.Alias + "::" + added[i].name, added[i].arity, added[i].inst, sc.f}
				}
			}
		default:
			m.errs = append(m.errs, "unknown directive kind "+d.Kind)
			return sc
		}
	}
	if m.notFound != "" || len(m.errs) > 0 {
		return sc
	}
	path := f.Path
	if fi == len(m.c.Files) {
		path = "(main)"
	}
	for di, d := range f.Defs {
		id := m.nInst
		m.nInst++
		uname := fmt.Sprintf("u%d_%s", id, d.Name)
		m.unames = append(m.unames, uname)
		if lookF(sc.f, d.Name, len(d.Params)) != nil {
			m.clash = true
		}
		self := &fbind{d.Name, len(d.Params), id, sc.f}
		body := scope{f: self, v: sc.v, lf: sc.lf, lv: sc.lv}
		m.envs[[2]int{fi, di}] = append(m.envs[[2]int{fi, di}], body)
		params := map[string]bool{}
		for _, p := range d.Params {
			params[p] = true
		}
		var el []string
		el = append(el, jstr(tagOf(path, d, di)))
		for _, e := range d.Body {
			el = append(el, m.inl(e, body, params, inherited))
		}
		text := "[" + strings.Join(el, ", ") + "]"
		if d.Rec {
			self := uname
			if len(d.Params) > 0 {
				self += "(" + strings.Join(d.Params, "; ") + ")"
			}
			text = "if . == 1 then (0 | " + self + ") else " + text + " end"
		}
		m.defs.WriteString("def " + uname)
		if len(d.Params) > 0 {
			m.defs.WriteString("(" + strings.Join(d.Params, "; ") + ")")
		}
		m.defs.WriteString(": " + text + ";\n")
		sc.f = self
	}
	m.ends[fi] = append(m.ends[fi], sc)
	if m.probeFile == fi || (m.probeFile == -1 && fi == len(m.c.Files)) {
		m.probes = append(m.probes, m.see(m.probeRef, sc))
	}
	return sc
}

// see reports how a reference is (in)visible in a scope.
func (m *model) see(e expr, sc scope) probeSeen {
	if e.K == "var" {
		return probeSeen{env: lookV(sc.v, e.S) != nil, leak: sc.leakV(e.S)}
	}
	return probeSeen{env: lookF(sc.f, e.S, len(e.A)) != nil, builtin: isBuiltin(e.S, len(e.A)) || standaloneVisible(e.S, len(e.A)), leak: sc.leakF(e.S, len(e.A))}
}

// inl renders an expression of a body for the inlined program: every
// reference is replaced by the unique name of what it denotes.
func (m *model) inl(e expr, sc scope, params map[string]bool, inherited *fbind) string {
	switch e.K {
	case "lit":
		return jstr(e.S)
	case "pcall":
		if !params[e.S] {
			m.errs = append(m.errs, "unknown parameter "+e.S)
		}
		return e.S
	case "var":
		if params[e.S] {
			return e.S
		}
		b := lookV(sc.v, e.S)
		if b == nil {
			m.errs = append(m.errs, "unresolved variable "+e.S)
			return e.S
		}
		if b.viaInclude {
			m.inclVar = true
		}
		b.used = true
		return fmt.Sprintf("$uD%d", b.data)
	case "call":
		var name string
		if b := lookF(sc.f, e.S, len(e.A)); b != nil {
			name = m.unames[b.inst]
			if isBuiltin(e.S, len(e.A)) {
				m.override = true
			}
			if inherited != nil && lookF(inherited, e.S, len(e.A)) == b {
				m.ctxRef = true
			}
		} else if isBuiltin(e.S, len(e.A)) {
			name = e.S
			if sc.leakF(e.S, len(e.A)) {
				m.leakHit = true
			}
		} else {
			m.errs = append(m.errs, fmt.Sprintf("unresolved function %s/%d", e.S, len(e.A)))
			name = e.S
		}
		if len(e.A) > 0 {
			args := make([]string, len(e.A))
			for i, a := range e.A {
				args[i] = m.inl(a, sc, params, inherited)
			}
			name += "(" + strings.Join(args, "; ") + ")"
		}
		if e.In != "" {
			name = "(" + e.In + " | " + name + ")"
		}
		return name
	}
	m.errs = append(m.errs, "unknown expression kind "+e.K)
	return "null"
}

// run processes the init files, the main program and the query.
func (m *model) run() {
	var sc scope
	for _, p := range m.paths {
		if filepath.Base(p) != ".jq" {
			continue
		}
		if i, ok := m.fileIdx[p]; ok && !m.c.Files[i].IsData {
			m.nInit++
			base := sc.v
			sub := m.proc(i, sc, 1)
			sc.f = sub.f
			// like an include at the top of the main program
			var added []*vbind
			for h := sub.v; h != nil && h != base; h = h.prev {
				added = append(added, h)
			}
			for k := len(added) - 1; k >= 0; k-- {
				sc.v = &vbind{name: added[k].name, data: added[k].data, viaInclude: true, prev: sc.v}
			}
			if m.notFound != "" || len(m.errs) > 0 {
				return
			}
		}
	}
	sc = m.proc(len(m.c.Files), sc, 0)
	m.mainScope = sc
	if m.notFound != "" || len(m.errs) > 0 {
		return
	}
	var qs []string
	for _, e := range m.c.Query {
		qs = append(qs, "("+m.inl(e, sc, nil, nil)+")")
	}
	if len(qs) == 0 {
		qs = []string{"empty"}
	}
	m.queryText = strings.Join(qs, ", ")
}

// program is the single-file program equivalent to the tree.
func (m *model) program() string {
	var sb strings.Builder
	for _, di := range m.dataOrder {
		sb.WriteString("[" + strings.Join(m.c.Files[di].Vals, ", ") + "] as $uD" + fmt.Sprint(di) + " |\n")
	}
	sb.WriteString(m.defs.String())
	sb.WriteString(m.queryText)
	return sb.String()
}

// ---------------------------------------------------------------------------
// source rendering (what is written to disk)

func srcExpr(e expr) string {
	switch e.K {
	case "lit":
		return jstr(e.S)
	case "pcall", "var":
		return e.S
	case "call":
		s := e.S
		if len(e.A) > 0 {
			args := make([]string, len(e.A))
			for i, a := range e.A {
				args[i] = srcExpr(a)
			}
			s += "(" + strings.Join(args, "; ") + ")"
		}
		if e.In != "" {
			s = "(" + e.In + " | " + s + ")"
		}
		return s
	}
	return "null"
}

var identRe = func(s string) bool {
	if s == "" {
		return false
	}
	for i := 0; i < len(s); i++ {
		ch := s[i]
		if !(ch == '_' || 'a' <= ch && ch <= 'z' || 'A' <= ch && ch <= 'Z' || i > 0 && '0' <= ch && ch <= '9') {
			return false
		}
	}
	return true
}

func srcMeta(kvs []metaKV) string {
	if len(kvs) == 0 {
		return "{}"
	}
	parts := make([]string, len(kvs))
	for i, kv := range kvs {
		k := kv.Key
		if kv.Quoted || !identRe(k) {
			k = jstr(k)
		}
		parts[i] = k + ": " + string(kv.Val)
	}
	return "{" + strings.Join(parts, ", ") + "}"
}

func srcDirective(d directive) string {
	var s string
	switch d.Kind {
	case "include":
		s = "include " + jstr(d.Name)
	case "data":
		s = "import " + jstr(d.Name) + " as $" + d.Alias
	default:
		s = "import " + jstr(d.Name) + " as " + d.Alias
	}
	if d.HasMeta || len(d.Meta) > 0 {
		s += " " + srcMeta(d.Meta)
	}
	return s + ";\n"
}

func srcDef(path string, d defSpec, di int) string {
	el := []string{jstr(tagOf(path, d, di))}
	for _, e := range d.Body {
		el = append(el, srcExpr(e))
	}
	text := "[" + strings.Join(el, ", ") + "]"
	head := d.Name
	if len(d.Params) > 0 {
		head += "(" + strings.Join(d.Params, "; ") + ")"
	}
	if d.Rec {
		text = "if . == 1 then (0 | " + head + ") else " + text + " end"
	}
	return "def " + head + ": " + text + ";\n"
}

// srcFile is the text of a module file; extra is appended after the definitions.
func srcFile(f *fileSpec, extra string) string {
	if f.IsData {
		return f.Text
	}
	var sb strings.Builder
	if f.HasHeader {
		sb.WriteString("module " + srcMeta(f.Header) + ";\n")
	}
	for _, d := range f.Dirs {
		sb.WriteString(srcDirective(d))
	}
	for di, d := range f.Defs {
		sb.WriteString(srcDef(f.Path, d, di))
	}
	sb.WriteString(extra)
	return sb.String()
}

// srcMain is the text of the main program; when query is not empty it
// replaces the case's query.
func srcMain(c *treeCase, query string) string {
	var sb strings.Builder
	if c.Main.HasHeader {
		sb.WriteString("module " + srcMeta(c.Main.Header) + ";\n")
	}
	for _, d := range c.Main.Dirs {
		sb.WriteString(srcDirective(d))
	}
	for di, d := range c.Main.Defs {
		sb.WriteString(srcDef("(main)", d, di))
	}
	if query == "" {
		var qs []string
		for _, e := range c.Query {
			qs = append(qs, "("+srcExpr(e)+")")
		}
		if len(qs) == 0 {
			qs = []string{"empty"}
		}
		query = strings.Join(qs, ", ")
	}
	sb.WriteString(query)
	return sb.String()
}

// ---------------------------------------------------------------------------
// modulemeta model

// metaValue evaluates a constant object (later keys win); root replaces @ROOT@.
func metaValue(kvs []metaKV, root string) (map[string]any, error) {
	out := map[string]any{}
	for _, kv := range kvs {
		var v any
		dec := json.NewDecoder(strings.NewReader(strings.ReplaceAll(string(kv.Val), rootMark, root)))
		dec.UseNumber()
		if err := dec.Decode(&v); err != nil {
			return nil, err
		}
		out[kv.Key] = v
	}
	return out, nil
}

// expectedMeta is what modulemeta must report for a file: its header, the
// direct dependencies in order and the sorted name/arity list.  dupDefs
// reports whether a signature is defined twice.
func expectedMeta(f *fileSpec, root string) (map[string]any, bool, error) {
	out := map[string]any{}
	if f.HasHeader {
		h, err := metaValue(f.Header, root)
		if err != nil {
			return nil, false, err
		}
		out = h
	}
	type na struct {
		n string
		a int
	}
	var xs []na
	seen := map[na]bool{}
	dup := false
	for _, d := range f.Defs {
		if strings.HasPrefix(d.Name, "_") {
			continue
		}
		x := na{d.Name, len(d.Params)}
		if seen[x] {
			dup = true
		}
		seen[x] = true
		xs = append(xs, x)
	}
	sort.Slice(xs, func(i, j int) bool {
		if xs[i].n != xs[j].n {
			return xs[i].n < xs[j].n
		}
		return xs[i].a < xs[j].a
	})
	defs := make([]any, len(xs))
	for i, x := range xs {
		defs[i] = fmt.Sprintf("%s/%d", x.n, x.a)
	}
	out["defs"] = defs
	deps := make([]any, len(f.Dirs))
	for i, d := range f.Dirs {
		v, err := metaValue(d.Meta, root)
		if err != nil {
			return nil, false, err
		}
		v["relpath"] = d.Name
		if d.Kind != "include" {
			v["as"] = d.Alias
		}
		v["is_data"] = d.Kind == "data"
		deps[i] = v
	}
	out["deps"] = deps
	return out, dup, nil
}

// ---------------------------------------------------------------------------
// data files: the harness's own JSON recogniser (RFC 8259; nothing from gojq)

func isJSONSpace(b byte) bool { return b == ' ' || b == '\t' || b == '\n' || b == '\r' }

// jsonValueEnd returns the offset just past the complete JSON value starting
// at s[i], or -1 when no complete value starts there.
func jsonValueEnd(s string, i, depth int) int {
	if i >= len(s) || depth > 200 {
		return -1
	}
	skip := func(j int) int {
		for j < len(s) && isJSONSpace(s[j]) {
			j++
		}
		return j
	}
	switch c := s[i]; {
	case c == '{':
		j := skip(i + 1)
		if j < len(s) && s[j] == '}' {
			return j + 1
		}
		for {
			if j >= len(s) || s[j] != '"' {
				return -1
			}
			if j = jsonValueEnd(s, j, depth+1); j < 0 {
				return -1
			}
			if j = skip(j); j >= len(s) || s[j] != ':' {
				return -1
			}
			if j = jsonValueEnd(s, skip(j+1), depth+1); j < 0 {
				return -1
			}
			if j = skip(j); j >= len(s) {
				return -1
			}
			if s[j] == '}' {
				return j + 1
			}
			if s[j] != ',' {
				return -1
			}
			j = skip(j + 1)
		}
	case c == '[':
		j := skip(i + 1)
		if j < len(s) && s[j] == ']' {
			return j + 1
		}
		for {
			if j = jsonValueEnd(s, j, depth+1); j < 0 {
				return -1
			}
			if j = skip(j); j >= len(s) {
				return -1
			}
			if s[j] == ']' {
				return j + 1
			}
			if s[j] != ',' {
				return -1
			}
			j = skip(j + 1)
		}
	case c == '"':
		for j := i + 1; j < len(s); j++ {
			switch b := s[j]; {
			case b == '"':
				return j + 1
			case b < 0x20:
				return -1
			case b == '\\':
				j++
				if j >= len(s) {
					return -1
				}
				switch s[j] {
				case '"', '\\', '/', 'b', 'f', 'n', 'r', 't':
				case 'u':
					if j+4 >= len(s) {
						return -1
					}
					for k := 1; k <= 4; k++ {
						h := s[j+k]
						if !('0' <= h && h <= '9' || 'a' <= h && h <= 'f' || 'A' <= h && h <= 'F') {
							return -1
						}
					}
					j += 4
				default:
					return -1
				}
			}
		}
		return -1
	case c == 't' || c == 'f' || c == 'n':
		for _, lit := range []string{"true", "false", "null"} {
			if strings.HasPrefix(s[i:], lit) {
				return i + len(lit)
			}
		}
		return -1
	case c == '-' || '0' <= c && c <= '9':
		j := i
		if s[j] == '-' {
			j++
		}
		digits := func() bool {
			k := j
			for j < len(s) && '0' <= s[j] && s[j] <= '9' {
				j++
			}
			return j > k
		}
		if j < len(s) && s[j] == '0' {
			j++
		} else if !digits() {
			return -1
		}
		if j < len(s) && s[j] == '.' {
			j++
			if !digits() {
				return -1
			}
		}
		if j < len(s) && (s[j] == 'e' || s[j] == 'E') {
			j++
			if j < len(s) && (s[j] == '+' || s[j] == '-') {
				j++
			}
			if !digits() {
				return -1
			}
		}
		return j
	}
	return -1
}

// scanDataFile decides whether text is a white-space separated sequence of
// complete JSON values and returns the texts of the values.  adjacent reports
// two complete values with nothing between them (not judged).
func scanDataFile(text string) (vals []string, ok, adjacent bool) {
	i := 0
	for {
		start := i
		for i < len(text) && isJSONSpace(text[i]) {
			i++
		}
		if i == len(text) {
			return vals, true, adjacent
		}
		if len(vals) > 0 && i == start {
			adjacent = true
		}
		j := jsonValueEnd(text, i, 0)
		if j < 0 {
			return nil, false, false
		}
		vals = append(vals, text[i:j])
		i = j
	}
}
