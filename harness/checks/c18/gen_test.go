// Generators for C18: random module trees on a random search-path layout.
// Every random choice goes through rapid.
package c18

import (
	"fmt"
	"path/filepath"
	"sort"
	"strings"

	"pgregory.net/rapid"
)

// layout fixes where files may live and how the loader is configured.
type layout struct {
	mode              string
	paths             []string // loader search paths (case-relative, "~/x" under home)
	bases             []string // directories files are placed under (search dirs and private ones)
	home              string
	cwd               string
	defaults          bool
	relL              bool
	mainFile          string
	mainRel           bool   // the main program may use a relative search entry
	noEmptyMainSearch bool   // C18.F2 known: no "" search entry in a program file
	initPath          string // when not empty: a module file at this path is auto-included
}

func resolvedPaths(paths []string, home string) []string {
	var out []string
	for _, p := range paths {
		if strings.HasPrefix(p, "~/") {
			p = filepath.Join(home, p[2:])
		}
		out = append(out, filepath.Clean(p))
	}
	return out
}

// genLayoutLib: one or two search directories, sometimes a path whose base
// name is ".jq" (a file there is auto-included, a directory is searched).
func genLayoutLib(t *rapid.T) layout {
	lay := layout{mode: "lib"}
	lay.paths = []string{"L0"}
	if rapid.IntRange(0, 2).Draw(t, "twodirs") > 0 {
		lay.paths = append(lay.paths, "L1")
	}
	lay.bases = append([]string{}, lay.paths...)
	lay.bases = append(lay.bases, lay.paths[0], "X") // L0 twice: more weight
	switch rapid.IntRange(0, 7).Draw(t, "dotjq") {
	case 0: // an init file, first or last in the list
		if rapid.Bool().Draw(t, "initfirst") {
			lay.paths = append([]string{"H/.jq"}, lay.paths...)
		} else {
			lay.paths = append(lay.paths, "H/.jq")
		}
		lay.initPath = "H/.jq"
	case 1: // a directory called .jq is an ordinary search directory
		if rapid.Bool().Draw(t, "dirfirst") {
			lay.paths = append([]string{"H/.jq"}, lay.paths...)
		} else {
			lay.paths = append(lay.paths, "H/.jq")
		}
		lay.bases = append(lay.bases, "H/.jq")
	case 2: // listed but absent
		lay.paths = append([]string{"H/.jq"}, lay.paths...)
	}
	return lay
}

// genLayoutCLI: the command with -L (absolute, relative to the working
// directory, or ~/), or with its default search paths under a private HOME;
// the program as an argument or read with -f.
func genLayoutCLI(t *rapid.T, f2known bool) layout {
	lay := layout{mode: "cli", home: "home"}
	switch rapid.IntRange(0, 4).Draw(t, "clikind") {
	case 0, 1: // default search paths
		lay.defaults = true
		lay.paths = []string{"~/.jq", "lib/gojq", "lib"}
		lay.bases = []string{"lib/gojq", "lib", "lib", "X"}
		switch rapid.IntRange(0, 3).Draw(t, "homejq") {
		case 0, 1:
			lay.initPath = "home/.jq"
		case 2:
			lay.bases = append(lay.bases, "home/.jq", "home/.jq")
		}
	case 2: // -L with ~/
		lay.paths = []string{"~/lib0"}
		if rapid.Bool().Draw(t, "two") {
			lay.paths = append(lay.paths, "L1")
		}
		lay.bases = append(resolvedPaths(lay.paths, lay.home), "X")
		if rapid.IntRange(0, 2).Draw(t, "explicitinit") == 0 {
			lay.paths = append(lay.paths, "~/.jq")
			lay.initPath = "home/.jq"
		}
	default:
		lay.paths = []string{"L0"}
		if rapid.Bool().Draw(t, "two") {
			lay.paths = append(lay.paths, "L1")
		}
		lay.bases = append(append([]string{}, lay.paths...), "L0", "X")
		lay.relL = rapid.Bool().Draw(t, "rel-L")
	}
	lay.cwd = rapid.SampledFrom([]string{"", "", "cwd", "L0"}).Draw(t, "cwd")
	if rapid.IntRange(0, 2).Draw(t, "fromfile") == 0 {
		lay.mainFile = rapid.SampledFrom([]string{"prog/main.jq", "main.jq", "L0/prog.jq"}).Draw(t, "mainfile")
		lay.mainRel = true
		lay.noEmptyMainSearch = f2known
		if f2known && filepath.Clean(lay.cwd) != filepath.Dir(lay.mainFile) {
			// known finding C18.F2: excluded by construction – either run from the
			// program's directory or write no relative search entry in it
			if rapid.Bool().Draw(t, "samecwd") {
				lay.cwd = filepath.Dir(lay.mainFile)
				if lay.cwd == "." {
					lay.cwd = ""
				}
			} else {
				lay.mainRel = false
			}
		}
	}
	return lay
}

// ---------------------------------------------------------------------------

type refOpt struct {
	name      string
	search    string
	hasSearch bool
}

func isUnder(paths []string, dir string) bool {
	for _, p := range paths {
		if p == dir {
			return true
		}
	}
	return false
}

// refOptions lists the ways a file at target can be named from an importer.
func refOptions(paths []string, home, importerDir string, hasDir bool, target string) []refOpt {
	ext := filepath.Ext(target)
	if strings.HasSuffix(target, "/.jq") {
		return nil
	}
	comps := strings.Split(strings.TrimSuffix(target, ext), "/")
	var out []refOpt
	for s := 1; s < len(comps); s++ {
		base := filepath.Join(comps[:s]...)
		names := []string{strings.Join(comps[s:], "/")}
		if n := len(comps); n-s >= 2 && comps[n-1] == comps[n-2] {
			names = append(names, strings.Join(comps[s:n-1], "/"))
		}
		for _, name := range names {
			if isUnder(paths, base) {
				out = append(out, refOpt{name: name})
			}
			if hasDir {
				if rel, err := filepath.Rel(importerDir, base); err == nil {
					out = append(out, refOpt{name, rel, true})
				}
			}
			out = append(out, refOpt{name, rootMark + "/" + base, true})
			if home != "" && strings.HasPrefix(base+"/", home+"/") {
				if rel, err := filepath.Rel(home, base); err == nil {
					out = append(out, refOpt{name, "~/" + rel, true})
				}
			}
		}
	}
	return out
}

var metaPool = []metaKV{
	{Key: "note", Val: []byte(`"x"`)},
	{Key: "if", Val: []byte(`true`)},
	{Key: "a b", Quoted: true, Val: []byte(`[1, {"k": null}]`)},
	{Key: "version", Val: []byte(`12`)},
	{Key: "name", Quoted: true, Val: []byte(`"mod \"q\" é"`)},
	{Key: "then", Val: []byte(`{"deep": [false, "s", {}], "n": 0}`)},
	{Key: "homepage", Val: []byte(`null`)},
	{Key: "", Quoted: true, Val: []byte(`[]`)},
}

func genMeta(t *rapid.T, max int) []metaKV {
	n := rapid.IntRange(0, max).Draw(t, "nmeta")
	var out []metaKV
	seen := map[string]bool{}
	for i := 0; i < n; i++ {
		kv := rapid.SampledFrom(metaPool).Draw(t, "meta")
		if seen[kv.Key] {
			continue
		}
		seen[kv.Key] = true
		out = append(out, kv)
	}
	return out
}

func searchKV(s string) metaKV {
	return metaKV{Key: "search", Quoted: len(s)%2 == 1, Val: []byte(jstr(s))}
}

// styleRel draws one of the spellings of a relative directory; the importing
// file's own directory is "", ".", "./", "./." or "s/..".
func styleRel(t *rapid.T, rel string) string {
	if rel == "." {
		return rapid.SampledFrom([]string{"", ".", "", "./", "./.", "s/..", "s/../", "."}).Draw(t, "selfstyle")
	}
	switch rapid.IntRange(0, 5).Draw(t, "relstyle") {
	case 0:
		if !strings.HasPrefix(rel, "..") {
			return "./" + rel
		}
	case 1:
		return rel + "/"
	case 2:
		return rel + "/."
	case 3:
		return "s/../" + rel
	}
	return rel
}

func (o refOpt) meta() []metaKV {
	if !o.hasSearch {
		return nil
	}
	return []metaKV{searchKV(o.search)}
}

// genDirective writes a directive that the documented resolution order maps
// to file ti (decoys at other candidate positions included).
func genDirective(t *rapid.T, mdl *model, lay layout, importerDir string, hasDir bool, ti int, kind, alias string) directive {
	target := mdl.c.Files[ti].Path
	ext := ".jq"
	if kind == "data" {
		ext = ".json"
	}
	var valid []refOpt
	for _, o := range refOptions(mdl.paths, mdl.c.Home, importerDir, hasDir, target) {
		d := directive{Kind: kind, Name: o.name, Meta: o.meta()}
		if got, _, _ := mdl.resolve(importerDir, hasDir, d, ext); got == ti {
			valid = append(valid, o)
		}
	}
	d := directive{Kind: kind, Alias: alias}
	if len(valid) == 0 { // cannot happen: the file's own directory with the flat name comes first
		d.Name = strings.TrimSuffix(filepath.Base(target), ext)
		d.Meta = []metaKV{searchKV(rootMark + "/" + filepath.Dir(target))}
		return d
	}
	o := valid[rapid.IntRange(0, len(valid)-1).Draw(t, "refopt")]
	d.Name = o.name
	if o.hasSearch {
		s := o.search
		if isRelSearch(s) {
			s = styleRel(t, s)
		}
		d.Meta = []metaKV{searchKV(s)}
	} else if rapid.IntRange(0, 3).Draw(t, "sparesearch") == 0 {
		// a search entry that must not change the outcome (validated below)
		b := rapid.SampledFrom(lay.bases).Draw(t, "sparebase")
		s := rootMark + "/" + b
		if hasDir && rapid.Bool().Draw(t, "sparerel") {
			if rel, err := filepath.Rel(importerDir, b); err == nil {
				s = rel
			}
		}
		try := directive{Kind: kind, Name: d.Name, Meta: []metaKV{searchKV(s)}}
		if got, _, _ := mdl.resolve(importerDir, hasDir, try, ext); got == ti {
			d.Meta = try.Meta
		}
	}
	if rapid.IntRange(0, 3).Draw(t, "extrameta") == 0 {
		extra := genMeta(t, 2)
		if rapid.Bool().Draw(t, "metafirst") {
			d.Meta = append(extra, d.Meta...)
		} else {
			d.Meta = append(d.Meta, extra...)
		}
	}
	if len(d.Meta) == 0 && rapid.IntRange(0, 5).Draw(t, "emptymeta") == 0 {
		d.HasMeta = true
	}
	// final validation with the styled text
	if got, _, _ := mdl.resolve(importerDir, hasDir, d, ext); got != ti {
		d.Meta = []metaKV{searchKV(rootMark + "/" + filepath.Dir(target))}
		d.Name = strings.TrimSuffix(filepath.Base(target), ext)
	}
	return d
}

var userNames = []string{"f", "g", "h", "k"}

func genSig(t *rapid.T) defSpec {
	var d defSpec
	arity := 0
	r := rapid.IntRange(0, 11).Draw(t, "namekind")
	switch {
	case r < 8:
		d.Name = rapid.SampledFrom(userNames).Draw(t, "name")
		arity = rapid.SampledFrom([]int{0, 0, 0, 1, 1, 2}).Draw(t, "arity")
	case r == 8:
		d.Name = "_h"
		arity = rapid.SampledFrom([]int{0, 1}).Draw(t, "arity")
	default:
		b := rapid.SampledFrom(builtinTable).Draw(t, "builtin")
		d.Name, arity = b.Name, b.Arity
		if rapid.IntRange(0, 4).Draw(t, "otherarity") == 0 {
			arity = (arity + 1) % 3
		}
	}
	for i := 1; i <= arity; i++ {
		if rapid.IntRange(0, 2).Draw(t, "valparam") == 0 {
			d.Params = append(d.Params, fmt.Sprintf("$v%d", i))
		} else {
			d.Params = append(d.Params, fmt.Sprintf("p%d", i))
		}
	}
	d.Rec = rapid.IntRange(0, 7).Draw(t, "rec") == 7
	return d
}

// gctx is what a body may refer to.
type gctx struct {
	fc     []sig
	vc     []string
	bc     []builtinSpec
	params []string
}

func genExpr(t *rapid.T, g *gctx, depth int) expr {
	type choice struct {
		kind string
		w    int
	}
	var cs []choice
	cs = append(cs, choice{"lit", 2})
	var fc []sig
	for _, s := range g.fc {
		if depth > 0 || s.Arity == 0 {
			fc = append(fc, s)
		}
	}
	if len(fc) > 0 {
		cs = append(cs, choice{"call", 6})
	}
	if len(g.vc) > 0 {
		cs = append(cs, choice{"var", 2})
	}
	if len(g.params) > 0 {
		cs = append(cs, choice{"param", 3})
	}
	var bc []builtinSpec
	for _, b := range g.bc {
		if depth > 0 || b.Arity == 0 {
			bc = append(bc, b)
		}
	}
	if len(bc) > 0 {
		cs = append(cs, choice{"builtin", 1})
	}
	total := 0
	for _, c := range cs {
		total += c.w
	}
	r := rapid.IntRange(0, total-1).Draw(t, "exprkind")
	kind := "lit"
	for _, c := range cs {
		if r < c.w {
			kind = c.kind
			break
		}
		r -= c.w
	}
	switch kind {
	case "call":
		s := fc[rapid.IntRange(0, len(fc)-1).Draw(t, "callee")]
		e := expr{K: "call", S: s.Name}
		for i := 0; i < s.Arity; i++ {
			e.A = append(e.A, genExpr(t, g, depth-1))
		}
		if rapid.IntRange(0, 3).Draw(t, "in1") == 0 {
			e.In = "1"
		} else if b := builtinOf(s.Name, s.Arity); b != nil && rapid.Bool().Draw(t, "builtin-in") {
			e.In = b.In
		}
		return e
	case "builtin":
		b := bc[rapid.IntRange(0, len(bc)-1).Draw(t, "builtin")]
		e := expr{K: "call", S: b.Name, In: b.In}
		for i := 0; i < b.Arity; i++ {
			e.A = append(e.A, genExpr(t, g, depth-1))
		}
		return e
	case "var":
		return expr{K: "var", S: g.vc[rapid.IntRange(0, len(g.vc)-1).Draw(t, "var")]}
	case "param":
		p := g.params[rapid.IntRange(0, len(g.params)-1).Draw(t, "param")]
		if strings.HasPrefix(p, "$") {
			return expr{K: "var", S: p}
		}
		return expr{K: "pcall", S: p}
	}
	return expr{K: "lit", S: rapid.SampledFrom([]string{"A", "B", "C"}).Draw(t, "lit")}
}

func builtinOf(name string, arity int) *builtinSpec {
	for i := range builtinTable {
		if builtinTable[i].Name == name && builtinTable[i].Arity == arity {
			return &builtinTable[i]
		}
	}
	return nil
}

// common computes what is referable in every given scope.  self is excluded
// (an unguarded self call would not terminate).
func common(scopes []scope, self *sig, fl genFlags) *gctx {
	f14known, f1known := fl.f14known, fl.f1known
	g := &gctx{}
	if len(scopes) == 0 {
		return g
	}
	for _, s := range visibleF(scopes[0].f) {
		if self != nil && s == *self {
			continue
		}
		ok := true
		for _, sc := range scopes[1:] {
			if lookF(sc.f, s.Name, s.Arity) == nil {
				ok = false
				break
			}
		}
		if ok {
			g.fc = append(g.fc, s)
		}
	}
	for _, v := range visibleV(scopes[0].v) {
		ok := true
		for _, sc := range scopes {
			b := lookV(sc.v, v)
			if b == nil || (f1known && b.viaInclude) || (fl.f3known && b.rebound) {
				ok = false
				break
			}
		}
		if ok {
			g.vc = append(g.vc, v)
		}
	}
	for _, b := range builtinTable {
		if self != nil && self.Name == b.Name && self.Arity == b.Arity {
			continue
		}
		ok, everywhere := true, true
		for _, sc := range scopes {
			if lookF(sc.f, b.Name, b.Arity) != nil {
				continue
			}
			everywhere = false
			if f14known && sc.leakF(b.Name, b.Arity) {
				ok = false
				break
			}
		}
		if ok && !everywhere {
			g.bc = append(g.bc, b)
		}
	}
	return g
}

type genFlags struct {
	f14known, f1known, f3known bool
}

func drawPath(t *rapid.T, lay layout, used map[string]bool, prev []string, ext string, names []string) string {
	for attempt := 0; attempt < 8; attempt++ {
		var p string
		if len(prev) > 0 && rapid.IntRange(0, 2).Draw(t, "derive") == 0 {
			q := prev[rapid.IntRange(0, len(prev)-1).Draw(t, "from")]
			p = variantPath(t, lay, q, ext)
		} else {
			base := rapid.SampledFrom(lay.bases).Draw(t, "base")
			sub := rapid.SampledFrom([]string{"", "", "", "m", "s", "m/n"}).Draw(t, "sub")
			name := rapid.SampledFrom(names).Draw(t, "fname")
			if rapid.IntRange(0, 2).Draw(t, "nestedlayout") == 0 {
				p = filepath.Join(base, sub, name, name+ext)
			} else {
				p = filepath.Join(base, sub, name+ext)
			}
		}
		if p != "" && !used[p] {
			used[p] = true
			return p
		}
	}
	for k := 0; ; k++ {
		p := filepath.Join(lay.bases[0], fmt.Sprintf("z%d%s", k, ext))
		if !used[p] {
			used[p] = true
			return p
		}
	}
}

// variantPath gives another candidate position for the name of q: the same
// relative name under another base, or the other layout.
func variantPath(t *rapid.T, lay layout, q, ext string) string {
	if filepath.Ext(q) != ext {
		return ""
	}
	base := ""
	for _, b := range lay.bases {
		if strings.HasPrefix(q, b+"/") && len(b) > len(base) {
			base = b
		}
	}
	if base == "" {
		return ""
	}
	rest := strings.TrimPrefix(q, base+"/")
	if rapid.Bool().Draw(t, "otherbase") {
		return filepath.Join(rapid.SampledFrom(lay.bases).Draw(t, "vbase"), rest)
	}
	comps := strings.Split(strings.TrimSuffix(rest, ext), "/")
	n := len(comps)
	if n >= 2 && comps[n-1] == comps[n-2] {
		return filepath.Join(base, strings.Join(comps[:n-1], "/")+ext)
	}
	return filepath.Join(base, strings.Join(comps, "/"), comps[n-1]+ext)
}

// genTree draws a module tree.
func genTree(t *rapid.T, lay layout, fl genFlags) treeCase {
	c := treeCase{Mode: lay.mode, Paths: lay.paths, Defaults: lay.defaults, RelL: lay.relL, Home: lay.home, Cwd: lay.cwd, MainFile: lay.mainFile}
	used := map[string]bool{}
	var level []int // per file; data files 99
	var modPaths, dataPaths []string

	if lay.initPath != "" {
		c.Files = append(c.Files, fileSpec{Path: lay.initPath})
		level = append(level, 1)
		used[lay.initPath] = true
	}
	nMod := rapid.IntRange(1, 8).Draw(t, "nmod")
	lv := make([]int, nMod)
	for i := range lv {
		lv[i] = rapid.IntRange(1, 3).Draw(t, "level")
	}
	sort.Ints(lv)
	for i := 0; i < nMod; i++ {
		p := drawPath(t, lay, used, modPaths, ".jq", []string{"m", "n", "s", "k"})
		modPaths = append(modPaths, p)
		c.Files = append(c.Files, fileSpec{Path: p})
		level = append(level, lv[i])
	}
	nData := rapid.IntRange(0, 3).Draw(t, "ndata")
	for i := 0; i < nData; i++ {
		p := drawPath(t, lay, used, dataPaths, ".json", []string{"d", "e", "m"})
		dataPaths = append(dataPaths, p)
		nv := rapid.SampledFrom([]int{1, 0, 2, 2, 3}).Draw(t, "nvals")
		f := fileSpec{Path: p, IsData: true}
		var sb strings.Builder
		for k := 0; k < nv; k++ {
			var v string
			switch rapid.IntRange(0, 3).Draw(t, "valkind") {
			case 0:
				v = fmt.Sprint(rapid.IntRange(0, 99).Draw(t, "int"))
			case 1:
				v = fmt.Sprintf(`{"file": %s, "i": [%d, null]}`, jstr(p), k)
			default:
				v = jstr(fmt.Sprintf("%s#%d", p, k))
			}
			f.Vals = append(f.Vals, v)
			sb.WriteString(v)
			sb.WriteString(rapid.SampledFrom([]string{"\n", " ", "\n\n", "\t"}).Draw(t, "sep"))
		}
		f.Text = sb.String()
		c.Files = append(c.Files, f)
		level = append(level, 99)
	}

	mdl := newModel(&c) // resolution depends on the paths only
	nFiles := len(c.Files)

	// directives and signatures, file by file (the main program is index nFiles)
	for fi := 0; fi <= nFiles; fi++ {
		var f *fileSpec
		myLevel, dir, hasDir := 0, "", false
		if fi == nFiles {
			f = &c.Main
			if lay.mainFile != "" && lay.mainRel {
				dir, hasDir = filepath.Dir(lay.mainFile), true
			}
		} else {
			f = &c.Files[fi]
			if f.IsData {
				continue
			}
			myLevel, dir, hasDir = level[fi], filepath.Dir(f.Path), true
		}
		var mods, datas []int
		for j := 0; j < nFiles; j++ {
			if j == fi || c.Files[j].Path == lay.initPath {
				continue
			}
			if c.Files[j].IsData {
				datas = append(datas, j)
			} else if level[j] > myLevel {
				mods = append(mods, j)
			}
		}
		nDir := rapid.IntRange(0, 3).Draw(t, "ndir")
		if fi == nFiles {
			nDir = rapid.IntRange(1, 4).Draw(t, "ndirmain")
		}
		usedAlias := map[string]bool{}
		for k := 0; k < nDir; k++ {
			r := rapid.IntRange(0, 9).Draw(t, "dirkind")
			kind := "import"
			if r >= 8 {
				kind = "data"
			} else if r >= 5 {
				kind = "include"
			}
			if kind == "data" && len(datas) == 0 {
				kind = "import"
			}
			if kind != "data" && len(mods) == 0 {
				if len(datas) == 0 {
					break
				}
				kind = "data"
			}
			var ti int
			alias := ""
			if kind == "data" {
				ti = datas[rapid.IntRange(0, len(datas)-1).Draw(t, "datatarget")]
				alias = rapid.SampledFrom([]string{"d", "e", "a"}).Draw(t, "dalias")
				if usedAlias["$"+alias] && rapid.IntRange(0, 3).Draw(t, "keepclash") > 0 {
					for _, a := range []string{"d", "e", "a", "dd", "ee"} {
						if !usedAlias["$"+a] {
							alias = a
							break
						}
					}
				}
				usedAlias["$"+alias] = true
			} else {
				ti = mods[rapid.IntRange(0, len(mods)-1).Draw(t, "modtarget")]
				if kind == "import" {
					alias = rapid.SampledFrom([]string{"a", "b", "c", "m"}).Draw(t, "alias")
					if usedAlias[alias] && rapid.IntRange(0, 3).Draw(t, "keepclash") > 0 {
						for _, a := range []string{"a", "b", "c", "m", "aa", "bb"} {
							if !usedAlias[a] {
								alias = a
								break
							}
						}
					}
					usedAlias[alias] = true
				}
			}
			d := genDirective(t, mdl, lay, dir, hasDir, ti, kind, alias)
			if fi == nFiles && lay.noEmptyMainSearch {
				// known finding C18.F2: the command drops an empty search entry of the program file
				for k := range d.Meta {
					if d.Meta[k].Key == "search" && string(d.Meta[k].Val) == `""` {
						d.Meta[k].Val = []byte(`"."`)
					}
				}
			}
			f.Dirs = append(f.Dirs, d)
		}
		if rapid.IntRange(0, 2).Draw(t, "header") == 2 {
			f.HasHeader = true
			f.Header = genMeta(t, 3)
		}
		nDef := rapid.IntRange(1, 4).Draw(t, "ndef")
		if fi == nFiles {
			nDef = rapid.IntRange(0, 3).Draw(t, "ndefmain")
		}
		for k := 0; k < nDef; k++ {
			f.Defs = append(f.Defs, genSig(t))
		}
	}

	// bodies: references valid in every instance of the definition
	m1 := newModel(&c)
	m1.run()
	for fi := 0; fi <= nFiles; fi++ {
		f := &c.Main
		if fi < nFiles {
			f = &c.Files[fi]
		}
		for di := range f.Defs {
			d := &f.Defs[di]
			scopes := m1.envs[[2]int{fi, di}]
			if len(scopes) == 0 {
				continue
			}
			g := common(scopes, &sig{d.Name, len(d.Params)}, fl)
			g.params = d.Params
			n := rapid.SampledFrom([]int{0, 1, 1, 1, 2, 2, 3}).Draw(t, "nbody")
			for k := 0; k < n; k++ {
				d.Body = append(d.Body, genExpr(t, g, 2))
			}
		}
	}

	// the main query calls every visible name
	if ends := m1.ends[nFiles]; len(ends) == 1 {
		g := common(ends, nil, fl)
		for _, s := range g.fc {
			e := expr{K: "call", S: s.Name}
			for i := 0; i < s.Arity; i++ {
				e.A = append(e.A, genExpr(t, g, 1))
			}
			if rapid.IntRange(0, 3).Draw(t, "in1") == 0 {
				e.In = "1"
			}
			c.Query = append(c.Query, e)
		}
		for _, v := range g.vc {
			c.Query = append(c.Query, expr{K: "var", S: v})
		}
		for _, b := range g.bc {
			if rapid.IntRange(0, 3).Draw(t, "qbuiltin") == 0 {
				e := expr{K: "call", S: b.Name, In: b.In}
				for i := 0; i < b.Arity; i++ {
					e.A = append(e.A, genExpr(t, g, 1))
				}
				c.Query = append(c.Query, e)
			}
		}
	}
	if len(c.Query) == 0 {
		c.Query = []expr{{K: "lit", S: "nothing visible"}}
	}
	return c
}

// ---------------------------------------------------------------------------
// negative probes

// probeUniverse lists references worth probing: every signature defined
// anywhere, plain and under every alias used anywhere, at arities 0..2, every
// data variable, and a doubly qualified name.
func probeUniverse(c *treeCase) []expr {
	names := map[string]bool{}
	aliases := map[string]bool{}
	dalias := map[string]bool{}
	scan := func(f *fileSpec) {
		for _, d := range f.Defs {
			names[d.Name] = true
		}
		for _, d := range f.Dirs {
			switch d.Kind {
			case "import":
				aliases[d.Alias] = true
			case "data":
				dalias[d.Alias] = true
			}
		}
	}
	for i := range c.Files {
		scan(&c.Files[i])
	}
	scan(&c.Main)
	sorted := func(m map[string]bool) []string {
		var out []string
		for k := range m {
			out = append(out, k)
		}
		sort.Strings(out)
		return out
	}
	ns, as, ds := sorted(names), sorted(aliases), sorted(dalias)
	var out []expr
	lits := []expr{{K: "lit", S: "A"}, {K: "lit", S: "B"}}
	for _, n := range ns {
		for ar := 0; ar <= 2; ar++ {
			out = append(out, expr{K: "call", S: n, A: lits[:ar]})
			for _, a := range as {
				out = append(out, expr{K: "call", S: a + "::" + n, A: lits[:ar]})
			}
		}
	}
	for _, d := range ds {
		out = append(out, expr{K: "var", S: "$" + d}, expr{K: "var", S: "$" + d + "::" + d})
		for _, a := range as {
			out = append(out, expr{K: "var", S: "$" + a + "::" + d})
		}
	}
	if len(as) > 0 && len(ns) > 0 {
		out = append(out, expr{K: "call", S: as[0] + "::" + as[len(as)-1] + "::" + ns[0]})
	}
	return out
}

// verdict of a reference at the end of a file, over all instances of it.
//
//	visible  – every instance sees it: not a negative probe
//	hard     – some instance neither sees it nor has it in an importer's scope
//	leak     – invisible somewhere, but wherever it is invisible an importer
//	           up the chain has bound the name earlier (known finding F14)
func verdictOf(seen []probeSeen) string {
	if len(seen) == 0 {
		return "unreached"
	}
	strict, hard := false, false
	for _, s := range seen {
		if !s.env && !s.builtin {
			strict = true
			if !s.leak {
				hard = true
			}
		}
	}
	switch {
	case !strict:
		return "visible"
	case hard:
		return "hard"
	}
	return "leak"
}

// ---------------------------------------------------------------------------
// modulemeta: overloads whose "name/arity" strings sort differently from
// (name, numeric arity) pairs, and names that are prefixes of each other

var overloadNames = []string{"f", "f_", "fa", "f1", "F", "ff", "g", "g0"}

func overloadDef(name string, arity int) defSpec {
	d := defSpec{Name: name}
	for i := 1; i <= arity; i++ {
		d.Params = append(d.Params, fmt.Sprintf("p%d", i))
	}
	return d
}

// addOverloads appends uncalled definitions to the module files: arities
// 0..12, often one name at an arity in 2..9 and at one >= 10, in random order.
// Nothing refers to them, so every program of the tree still compiles.
func addOverloads(t *rapid.T, c *treeCase) {
	for fi := range c.Files {
		f := &c.Files[fi]
		if f.IsData || rapid.IntRange(0, 3).Draw(t, "overloads") == 0 {
			continue
		}
		var extra []defSpec
		if rapid.IntRange(0, 2).Draw(t, "digitpair") > 0 {
			n := rapid.SampledFrom(overloadNames).Draw(t, "oname")
			extra = append(extra, overloadDef(n, rapid.IntRange(2, 9).Draw(t, "small")), overloadDef(n, rapid.IntRange(10, 12).Draw(t, "wide")))
		}
		k := rapid.IntRange(1, 5).Draw(t, "nover")
		for i := 0; i < k; i++ {
			extra = append(extra, overloadDef(rapid.SampledFrom(overloadNames).Draw(t, "oname"), rapid.IntRange(0, 12).Draw(t, "oarity")))
		}
		// a drawn permutation
		for i := len(extra) - 1; i > 0; i-- {
			j := rapid.IntRange(0, i).Draw(t, "perm")
			extra[i], extra[j] = extra[j], extra[i]
		}
		f.Defs = append(f.Defs, extra...)
	}
}

// digitClash reports whether a file defines one name at an arity in 2..9 and
// at an arity >= 10 (string order of "name/arity" differs from numeric order),
// and whether one defined name is a proper prefix of another.
func digitClash(f *fileSpec) (bool, bool) {
	small, wide := map[string]bool{}, map[string]bool{}
	var names []string
	for _, d := range f.Defs {
		a := len(d.Params)
		if a >= 2 && a <= 9 {
			small[d.Name] = true
		}
		if a >= 10 {
			wide[d.Name] = true
		}
		names = append(names, d.Name)
	}
	clash, prefix := false, false
	for _, n := range names {
		if small[n] && wide[n] {
			clash = true
		}
		for _, o := range names {
			if o != n && strings.HasPrefix(o, n) {
				prefix = true
			}
		}
	}
	return clash, prefix
}
