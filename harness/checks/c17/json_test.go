package c17

// JSON inputs: documents built from small specs (so that replay files stay
// small although inputs reach 5 x 16 KiB), one injected fault, the reference
// error offset from our own encoding/json decoder over the same bytes.

import (
	"bytes"
	"encoding/json"
	"fmt"
	"io"
	"strconv"
	"strings"
	"unicode/utf8"
)

// ---------------------------------------------------------------------------
// deterministic expansion of a drawn seed (no math/rand)

type prng struct{ s uint64 }

func (p *prng) next() uint64 {
	p.s += 0x9e3779b97f4a7c15
	z := p.s
	z = (z ^ (z >> 30)) * 0xbf58476d1ce4e5b9
	z = (z ^ (z >> 27)) * 0x94d049bb133111eb
	return z ^ (z >> 31)
}

func (p *prng) intn(n int) int {
	if n <= 1 {
		return 0
	}
	return int(p.next() % uint64(n))
}

func pickS(p *prng, xs []string) string { return xs[p.intn(len(xs))] }

// ---------------------------------------------------------------------------
// text

var (
	csASCII = strings.Split("a b c d e f g h i j k l m n o p q r s t u v w x y z A B C Q X Z 0 1 2 7 9 _ - + = . ; : ! ? ( ) { } [ ] < > / @ # $ % ^ & * ~ | ' ` ,", " ")
	csLatin = []string{"é", "ü", "ñ", "ß", "ø", "Ж", "д", "λ", "Ω", "±", "°", "¿"}
	csCJK   = []string{"漢", "字", "日", "本", "語", "か", "な", "カ", "ナ", "Ａ", "１", "、", "。", "한", "글"}
	csEmoji = []string{"😀", "🎉", "🚀", "𝒳", "𐍈"}
	csZero  = []string{"e\u0301", "a\u0308", "x\u200b", "o\u0302\u0301", "\ufeff", "y\ufeff"}
	csBad   = []string{"\xff", "\xc3", "\xe3\x81", "\x80", "\xed\xa0\x80", "\xf0\x9f\x98", "é", "漢"} // ill-formed UTF-8 (accepted inside JSON strings)
	csEsc   = []string{`\"`, `\\`, `\n`, `\t`, `\u00e9`, `\u6f22`, `\/`, `\ud83d\ude00`}
)

// text returns about n bytes of string-literal content (no raw quote,
// backslash or control character unless as a JSON escape when esc is set).
func text(p *prng, chars string, n int, esc bool) string {
	var sb strings.Builder
	for sb.Len() < n {
		set := csASCII
		switch chars {
		case "latin":
			if p.intn(3) == 0 {
				set = csLatin
			}
		case "cjk":
			if p.intn(2) == 0 {
				set = csCJK
			}
		case "emoji":
			if p.intn(3) == 0 {
				set = csEmoji
			}
		case "bad":
			if p.intn(4) == 0 {
				set = csBad
			}
		case "mix":
			switch p.intn(8) {
			case 0:
				set = csLatin
			case 1, 2:
				set = csCJK
			case 3:
				set = csEmoji
			case 4:
				set = csZero
			}
		}
		if esc && p.intn(12) == 0 {
			set = csEsc
		}
		if sb.Len() > 0 && p.intn(7) == 0 {
			sb.WriteByte(' ')
		}
		sb.WriteString(pickS(p, set))
	}
	return sb.String()
}

// ---------------------------------------------------------------------------
// documents

type docSpec struct {
	Shape  string `json:"shape"`            // obj | arr | nest | line | scalars
	Lines  int    `json:"lines"`            // number of content lines (entries for "line")
	Width  int    `json:"width"`            // approximate payload bytes per line
	Chars  string `json:"chars"`            // ascii | latin | cjk | emoji | mix
	Indent string `json:"indent,omitempty"` // indentation unit
	Seed   uint64 `json:"seed"`
}

type eolGen struct {
	kind string // lf | crlf | cr | mixed
	p    *prng
}

func (e *eolGen) next() string {
	switch e.kind {
	case "crlf":
		return "\r\n"
	case "cr":
		return "\r"
	case "mixed":
		return []string{"\n", "\r\n", "\r"}[e.p.intn(3)]
	}
	return "\n"
}

type docBuilder struct {
	p    *prng
	d    docSpec
	idx  int
	line int
}

func (b *docBuilder) marker(prefix string) string {
	b.line++
	return fmt.Sprintf("%s%d_%d", prefix, b.idx, b.line)
}

func (b *docBuilder) scalar(width int) string {
	p := b.p
	switch p.intn(10) {
	case 0:
		return pickS(p, []string{"0", "-1", "12", "3.25", "-0.5e-3", "1E+2", "123456789012345678901234567890", "17"})
	case 1:
		return pickS(p, []string{"true", "false", "null"})
	default:
		return `"` + text(p, b.d.Chars, width, true) + `"`
	}
}

// value: what follows a key or stands as an array element on one line.
func (b *docBuilder) value(width int) string {
	p := b.p
	switch p.intn(10) {
	case 0:
		return "[" + b.scalar(width/3) + ", " + b.scalar(width/3) + ", " + pickS(p, []string{"1", "null", "[]", "{}"}) + "]"
	case 1:
		return `{"x": ` + b.scalar(width/2) + `, "y": [` + pickS(p, []string{"", "1", "true, null"}) + `]}`
	default:
		return b.scalar(width)
	}
}

// members produces the lines of n lines' worth of members of an object
// (keyed) or array (not keyed) at the given depth; the last line has no comma.
func (b *docBuilder) members(n, depth int, keyed bool) []string {
	ind := strings.Repeat(b.d.Indent, depth)
	var out []string
	for n > 0 {
		head := ind
		if keyed {
			head += `"` + b.marker("k") + `": `
		}
		var lines []string
		if b.d.Shape == "nest" && depth < 4 && n >= 3 && b.p.intn(3) == 0 {
			inner := 1 + b.p.intn(min(n-2, 6))
			if b.p.intn(2) == 0 {
				if !keyed {
					b.line++
				}
				lines = append(lines, head+"[")
				lines = append(lines, b.members(inner, depth+1, false)...)
				b.line++
				lines = append(lines, ind+"]")
			} else {
				if !keyed {
					b.line++
				}
				lines = append(lines, head+"{")
				lines = append(lines, b.members(inner, depth+1, true)...)
				b.line++
				lines = append(lines, ind+"}")
			}
			n -= inner + 2
		} else {
			if keyed {
				lines = []string{head + b.value(b.d.Width)}
			} else {
				m := b.marker("m")
				lines = []string{head + `"` + m + " " + text(b.p, b.d.Chars, b.d.Width, true) + `"`}
				if b.p.intn(5) == 0 {
					lines = []string{head + b.value(b.d.Width)}
				}
			}
			n--
		}
		if n > 0 {
			lines[len(lines)-1] += ","
		}
		out = append(out, lines...)
	}
	return out
}

// render writes document number idx.
func (d docSpec) render(idx int, eol *eolGen) []byte {
	b := &docBuilder{p: &prng{s: d.Seed*2654435761 + uint64(idx)}, d: d, idx: idx}
	n := max(d.Lines, 1)
	var lines []string
	switch d.Shape {
	case "line":
		var sb strings.Builder
		sb.WriteByte('{')
		for i := 0; i < n; i++ {
			if i > 0 {
				sb.WriteString(", ")
			}
			sb.WriteString(`"` + b.marker("k") + `": ` + b.value(d.Width))
		}
		sb.WriteByte('}')
		return []byte(sb.String())
	case "scalars":
		for i := 0; i < n; i++ {
			switch b.p.intn(4) {
			case 0:
				lines = append(lines, strconv.Itoa(b.p.intn(100000)))
			case 1:
				lines = append(lines, pickS(b.p, []string{"true", "false", "null", "[]", "{}"}))
			default:
				lines = append(lines, `"`+b.marker("s")+" "+text(b.p, d.Chars, d.Width, true)+`"`)
			}
		}
	case "arr":
		lines = append(lines, "[")
		lines = append(lines, b.members(n, 1, false)...)
		lines = append(lines, "]")
	default: // obj, nest
		lines = append(lines, "{")
		lines = append(lines, b.members(n, 1, true)...)
		lines = append(lines, "}")
	}
	var out bytes.Buffer
	for i, l := range lines {
		if i > 0 {
			out.WriteString(eol.next())
		}
		out.WriteString(l)
	}
	return out.Bytes()
}

// jsonTokens returns the [start, end) spans of the JSON tokens of b.
func jsonTokens(b []byte) [][2]int {
	var out [][2]int
	for i := 0; i < len(b); {
		c := b[i]
		switch {
		case c == ' ' || c == '\t' || c == '\n' || c == '\r':
			i++
		case c == '"':
			j := i + 1
			for j < len(b) && b[j] != '"' {
				if b[j] == '\\' {
					j++
				}
				j++
			}
			j = min(j+1, len(b))
			out = append(out, [2]int{i, j})
			i = j
		case c == '-' || c == '+' || c == '.' || c >= '0' && c <= '9' || c >= 'a' && c <= 'z' || c >= 'A' && c <= 'Z':
			j := i
			for j < len(b) && (b[j] == '-' || b[j] == '+' || b[j] == '.' || b[j] >= '0' && b[j] <= '9' || b[j] >= 'a' && b[j] <= 'z' || b[j] >= 'A' && b[j] <= 'Z') {
				j++
			}
			out = append(out, [2]int{i, j})
			i = j
		default:
			out = append(out, [2]int{i, i + 1})
			i++
		}
	}
	return out
}

// ---------------------------------------------------------------------------
// cases

type fault struct {
	Kind string `json:"kind"` // insert | truncate | delete | replace
	At   int    `json:"at"`   // byte offset inside the rendered faulty document
	Text string `json:"text,omitempty"`
	Raw  []byte `json:"raw,omitempty"` // the inserted text when it is not valid UTF-8 (cannot travel in a JSON string)
	N    int    `json:"n,omitempty"`   // bytes removed (delete, replace)
}

// textFault stores the inserted text in the field that survives JSON.
func textFault(kind string, at, n int, text string) fault {
	f := fault{Kind: kind, At: at, N: n, Text: text}
	if !utf8.ValidString(text) {
		f.Text, f.Raw = "", []byte(text)
	}
	return f
}

type jsonCase struct {
	Mode  string    `json:"mode"` // pipe | inputs | file | stdinfile | file2 | slurpfile | argjson | jsonargs | import
	Flags []string  `json:"flags,omitempty"`
	EOL   string    `json:"eol"`
	Pre   []docSpec `json:"pre,omitempty"`
	Doc   docSpec   `json:"doc"`
	Post  []docSpec `json:"post,omitempty"`
	Fault fault     `json:"fault"`
	Tail  string    `json:"tail,omitempty"` // "": documents are separated and ended by a line end; "none": nothing after the last one
	// bytes a reader might skip or reject (byte order marks, NUL, no-break and
	// zero-width spaces) put at the very start ("start"), after leading white
	// space ("space") or directly before the faulty document ("between")
	Prefix   []byte `json:"prefix,omitempty"`
	PrefixAt string `json:"prefix_at,omitempty"`
}

var jsonPrefixes = []string{"\xef\xbb\xbf", "\xfe\xff", "\xff\xfe", "\x00", "\xc2\xa0", "\xe2\x80\x8b"}

func applyFault(doc []byte, f fault) (out []byte, truncated bool) {
	if f.Raw != nil {
		f.Text = string(f.Raw)
	}
	at := min(max(f.At, 0), len(doc))
	n := min(max(f.N, 0), len(doc)-at)
	switch f.Kind {
	case "truncate":
		return doc[:at], true
	case "insert":
		return append(append(append([]byte{}, doc[:at]...), f.Text...), doc[at:]...), false
	case "delete":
		return append(append([]byte{}, doc[:at]...), doc[at+n:]...), false
	case "replace":
		return append(append(append([]byte{}, doc[:at]...), f.Text...), doc[at+n:]...), false
	}
	return doc, false
}

// docBytes renders the faulty document before the fault is applied (its line
// ends come from a generator of its own, so that the fault position can be
// chosen without rendering the preceding documents).
func (c jsonCase) docBytes() []byte {
	return c.Doc.render(len(c.Pre), &eolGen{kind: c.EOL, p: &prng{s: c.Doc.Seed ^ 0x27d4eb2f}})
}

func (c jsonCase) build() []byte {
	eol := &eolGen{kind: c.EOL, p: &prng{s: c.Doc.Seed ^ 0x5bd1e995}}
	var out bytes.Buffer
	if len(c.Prefix) > 0 && c.PrefixAt == "space" {
		out.WriteString(" " + eol.next() + " ")
	}
	if len(c.Prefix) > 0 && c.PrefixAt != "between" {
		out.Write(c.Prefix)
	}
	for i, d := range c.Pre {
		out.Write(d.render(i, eol))
		out.WriteString(eol.next())
	}
	if len(c.Prefix) > 0 && c.PrefixAt == "between" {
		out.Write(c.Prefix)
	}
	doc, trunc := applyFault(c.docBytes(), c.Fault)
	out.Write(doc)
	if trunc {
		return out.Bytes()
	}
	for i, d := range c.Post {
		out.WriteString(eol.next())
		out.Write(d.render(len(c.Pre)+1+i, eol))
	}
	if c.Tail != "none" {
		out.WriteString(eol.next())
	}
	return out.Bytes()
}

// ---------------------------------------------------------------------------
// reference decoding

type jsonRef struct {
	valid   bool
	eof     bool   // io.ErrUnexpectedEOF: the input ends inside a document
	p       int    // index of the offending byte (len(data) for eof)
	msg     string // the decoder's message
	nDocs   int    // complete documents before the error
	endLast int    // offset just after the last complete document
	sMax    int    // largest number of bytes consumed by one complete document
	other   string // an error of another kind (not judged)
}

func quoteChar(c byte) string {
	if c == '\'' {
		return `'\''`
	}
	if c == '"' {
		return `'"'`
	}
	s := strconv.Quote(string(rune(c)))
	return "'" + s[1:len(s)-1] + "'"
}

func refDecode(data []byte) jsonRef {
	dec := json.NewDecoder(bytes.NewReader(data))
	dec.UseNumber()
	var r jsonRef
	for {
		var v any
		err := dec.Decode(&v)
		if err == nil {
			end := int(dec.InputOffset())
			r.sMax = max(r.sMax, end-r.endLast)
			r.endLast = end
			r.nDocs++
			continue
		}
		if err == io.EOF {
			r.valid = true
			return r
		}
		r.msg = err.Error()
		if err == io.ErrUnexpectedEOF {
			r.eof, r.p = true, len(data)
			return r
		}
		if se, ok := err.(*json.SyntaxError); ok {
			r.p = int(se.Offset) - 1
			if r.p < 0 || r.p >= len(data) {
				r.other = fmt.Sprintf("decoder offset %d outside the input (%d bytes): %s", se.Offset, len(data), r.msg)
			} else if strings.HasPrefix(r.msg, "invalid character ") && !strings.HasPrefix(r.msg, "invalid character "+quoteChar(data[r.p])) {
				r.other = fmt.Sprintf("decoder message %q does not name the byte %q at its own offset", r.msg, data[r.p])
			}
			return r
		}
		r.other = "decoder error of another kind: " + r.msg
		return r
	}
}

func hasFlag(flags []string, f string) bool {
	for _, x := range flags {
		if x == f {
			return true
		}
	}
	return false
}

// windowed reports whether the mode goes through the command's 16 KiB window
// logic (seek-and-skip for regular files, sliding buffer for pipes).
func windowed(mode string) bool { return mode != "import" }

func piped(mode string) bool { return mode == "pipe" || mode == "inputs" }

// knownJSON returns the known-finding class a case structurally belongs to
// ("" if none).  Every predicate is about the layout of the input, the
// transport and the reference error offset -- never about what gojq printed.
func knownJSON(mode string, flags []string, data []byte, r jsonRef, w want) string {
	stream := hasFlag(flags, "--stream")
	if stream && !r.eof && knownClass("C17/stream-offset") {
		// encoding/json's token layer does not count the bytes it consumes
		// itself; the offset is right only when the error lies in a leading
		// top-level scalar that no token-layer byte precedes
		first := byte(0)
		if len(data) > 0 {
			first = data[0]
		}
		if r.nDocs > 0 || first == '[' || first == '{' || first == ' ' || first == '\t' || first == '\n' || first == '\r' {
			return "C17/stream-offset"
		}
	}
	if piped(mode) && len(data) >= 16384 && knownClass("C17/pipe-readahead") {
		if stream {
			// the window may be reset after any event once 16 KiB were read;
			// the token layer reads ahead at most its buffer capacity
			maxTok := 0
			for _, t := range jsonTokens(data) {
				maxTok = max(maxTok, t[1]-t[0])
			}
			if r.p >= 16384-(2*maxTok+1536) {
				return "C17/pipe-readahead"
			}
		} else if ahead := 2*r.sMax + 1536 + 64; r.nDocs >= 1 && r.endLast+ahead >= 16384 && r.p < r.endLast+ahead {
			// (+64: a window that starts less than an excerpt before the
			// offending byte may start in the middle of a character)
			return "C17/pipe-readahead"
		}
	}
	if windowed(mode) && r.p+1 > 12288 && knownClass("C17/cr-window") && hasLoneCR(data[:min(r.p, len(data))]) {
		return "C17/cr-window"
	}
	if piped(mode) && len(data) >= 16384 && knownClass("C17/cr-window") {
		// on a pipe the consumed part of the buffer is dropped (counting LF
		// only) after any document / event once 16 KiB have been read, and the
		// decoder reads ahead: that may happen long before byte 12288
		if stream && hasLoneCR(data[:min(r.p, len(data))]) || !stream && r.nDocs >= 1 && hasLoneCR(data[:min(r.endLast, len(data))]) {
			return "C17/cr-window"
		}
	}
	if piped(mode) && !r.eof && data[r.p] >= 0xC0 && r.p+utf8.UTFMax > 512 && knownClass("C17/pipe-partial-char") {
		// the decoder stops at the first byte of a multi-byte character; the
		// rest of it is in the window only if it arrived with the same read
		return "C17/pipe-partial-char"
	}
	if k := knownIllFormed(w); k != "" {
		return k
	}
	if knownClass("C17/tab-column") && bytes.IndexByte(w.Text[:w.Pos], '\t') >= 0 {
		return "C17/tab-column"
	}
	return ""
}

// runJSON feeds data to the command in the given mode and returns the parsed
// error block.
func runJSON(mode string, flags []string, data []byte) (report, string) {
	intro, name := "gojq: invalid json: ", "in.json"
	args := append([]string{}, flags...)
	var o runOpt
	switch mode {
	case "pipe":
		o.stdin, name = data, "<stdin>"
		args = append(args, "empty")
	case "inputs": // the same reader, driven by the query
		o.stdin, name = data, "<stdin>"
		args = append(args, "-n", "[inputs] | empty")
		intro = "gojq: error: invalid json: "
	case "file":
		writeFile("in.json", data)
		args = append(args, "empty", "in.json")
	case "stdinfile":
		writeFile("in.json", data)
		o.stdinFile, name = "in.json", "<stdin>"
		args = append(args, "empty")
	case "file2":
		writeFile("ok.json", []byte("{\"ok\": [1, 2]}\n[3]\n"))
		writeFile("in.json", data)
		args = append(args, "empty", "ok.json", "in.json")
	case "slurpfile":
		writeFile("in.json", data)
		args = append(args, "-n", "--slurpfile", "v", "in.json", "1")
	case "argjson":
		args, name = append(args, "-n", "--argjson", "v", string(data), "1"), "$v"
	case "jsonargs":
		args, name = append(args, "-n", "1", "--jsonargs", string(data)), "--jsonargs"
	case "import":
		writeFile("mods/d.json", data)
		args, name = append(args, "-n", "-L", "mods", `import "d" as $d; 1`), "mods/d.json"
		intro = "gojq: compile error: invalid json: "
	default:
		return report{}, "bad mode " + mode
	}
	res := runGojq(o, args...)
	if res.TimedOut {
		return report{}, "timeout"
	}
	if res.Crashed() {
		return report{}, "gojq crashed: " + clip([]byte(res.Stderr))
	}
	reps, msg := parseBlocks(res.Stderr, intro, []string{name})
	if msg != "" {
		return report{}, fmt.Sprintf("%s; exit %d, stderr %s", msg, res.Exit, clip([]byte(res.Stderr)))
	}
	return reps[0], ""
}

// judgeJSON is the oracle for one concrete input; class/NT accounting is done
// by the caller through note (may be nil).
func judgeJSON(mode string, flags []string, data []byte, note func(r jsonRef, w want, known string)) string {
	if mode == "argjson" || mode == "jsonargs" {
		if bytes.IndexByte(data, 0) >= 0 || len(data) > 120000 {
			rec.Discard("json/not-an-argument")
			return ""
		}
	}
	r := refDecode(data)
	if r.valid {
		rec.Discard("json/still-valid")
		return ""
	}
	if r.other != "" {
		return "oracle self-check: " + r.other
	}
	if (mode == "argjson" || mode == "jsonargs") && r.nDocs > 0 {
		rec.Discard("json/arg-reads-one-value")
		return ""
	}
	w := locate(data, r.p)
	known := knownJSON(mode, flags, data, r, w)
	if note != nil {
		note(r, w, known)
	}
	if known != "" {
		rec.Excluded(known)
		return ""
	}
	rep, msg := runJSON(mode, flags, data)
	if msg == "timeout" {
		rec.Discard("cli-timeout")
		return ""
	}
	if msg != "" {
		return msg
	}
	if msg := compare(rep, w); msg != "" {
		return fmt.Sprintf("%s [mode %s %v, %d bytes, offending byte %d: %s]", msg, mode, flags, len(data), r.p, r.msg)
	}
	return ""
}

func checkJSON(c jsonCase) string {
	return judgeJSON(c.Mode, c.Flags, c.build(), nil)
}

// classification shared by the random and the enumerated parts
func noteJSON(key string, mode string, flags []string, data []byte) func(r jsonRef, w want, known string) {
	return func(r jsonRef, w want, known string) {
		if known != "" { // the histogram describes what is judged
			return
		}
		rec.Class("json/mode/" + mode)
		for _, f := range flags {
			rec.Class("json/flag/" + f)
		}
		if r.eof {
			rec.Class("json/err/unexpected-eof")
		} else {
			rec.Class("json/err/syntax")
		}
		rec.Class("json/offset/" + offClass(r.p))
		rec.Class("json/docs-before/" + strconv.Itoa(min(r.nDocs, 3)))
		lc := lineClass(w)
		rec.Class("json/line/" + lc)
		if w.Line > 1 {
			rec.Class("json/line-number/>1")
		} else {
			rec.Class("json/line-number/1")
		}
		if known == "" && (w.Line > 1 || r.p >= 16384 || lc != "short-ascii") {
			rec.NT(key)
		}
	}
}

func offClass(p int) string {
	switch {
	case p < 4096:
		return "a:<4K"
	case p < 12288:
		return "b:4K-12K"
	case p < 16384:
		return "c:12K-16K"
	case p < 32768:
		return "d:16K-32K"
	case p < 65536:
		return "e:32K-64K"
	}
	return "f:>=64K"
}

func lineClass(w want) string {
	wide, multi := false, false
	for _, r := range string(w.Text[:w.Pos]) {
		if r >= utf8.RuneSelf {
			multi = true
			if wcond.RuneWidth(r) != 1 {
				wide = true
			}
		}
	}
	switch {
	case w.Pos > 48 && wide:
		return "long+wide"
	case w.Pos > 48 && multi:
		return "long+multibyte"
	case len(w.Text) > 64:
		return "long"
	case wide:
		return "wide"
	case multi:
		return "multibyte"
	}
	return "short-ascii"
}
