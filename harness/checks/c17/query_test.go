package c17

// Queries: library level (ParseError.Offset / Token against the source bytes,
// and against where an always-illegal lexeme was inserted) and command level
// (line, excerpt, caret for <arg>, -f files, modules and ~/.jq).

import (
	"fmt"
	"sort"
	"strings"
	"unicode"
	"unicode/utf8"

	"github.com/itchyny/gojq"
)

// ---------------------------------------------------------------------------
// a coarse scanner of jq source: positions between lexemes that lie in query
// context (never inside a string part, a comment or a lexeme), and the
// opening quotes of strings that contain an interpolation.

type qscan struct {
	src    string
	bounds map[int]bool
	interp map[int]bool
}

func isWord(c byte) bool {
	return c == '_' || c == '.' || c == '$' || c == '@' || c == ':' || c >= '0' && c <= '9' || c >= 'a' && c <= 'z' || c >= 'A' && c <= 'Z'
}

func isOp(c byte) bool { return strings.IndexByte("|/=<>!+-*%?", c) >= 0 }

func isDigit(c byte) bool { return c >= '0' && c <= '9' }

// query scans from i in query context; inside an interpolation it returns the
// index of the closing parenthesis, otherwise len(src).
func (s *qscan) query(i int, inInterp bool) int {
	src := s.src
	depth := 0
	for i < len(src) {
		c := src[i]
		switch {
		case c == ' ' || c == '\t' || c == '\n' || c == '\r':
			i++
		case c == '#':
			for i < len(src) && src[i] != '\n' && src[i] != '\r' {
				if src[i] == '\\' {
					i++
					if i < len(src) && (src[i] == '\\' || src[i] == '\n') {
						i++
					} else if i < len(src) && src[i] == '\r' {
						i++
						if i < len(src) && src[i] == '\n' {
							i++
						}
					}
					continue
				}
				i++
			}
		case c == '"':
			s.bounds[i] = true
			i = s.str(i)
			s.bounds[i] = true
		case isDigit(c) || c == '.' && i+1 < len(src) && isDigit(src[i+1]):
			s.bounds[i] = true
			for i < len(src) && isDigit(src[i]) {
				i++
			}
			if i < len(src) && src[i] == '.' {
				i++
				for i < len(src) && isDigit(src[i]) {
					i++
				}
			}
			if i < len(src) && (src[i] == 'e' || src[i] == 'E') {
				i++
				if i < len(src) && (src[i] == '+' || src[i] == '-') {
					i++
				}
			}
			for i < len(src) && isWord(src[i]) {
				i++
			}
			s.bounds[i] = true
		case isWord(c):
			s.bounds[i] = true
			for i < len(src) && isWord(src[i]) {
				i++
			}
			s.bounds[i] = true
		case isOp(c):
			s.bounds[i] = true
			for i < len(src) && isOp(src[i]) {
				i++
			}
			s.bounds[i] = true
		default:
			if c == ')' && inInterp && depth == 0 {
				return i
			}
			if c == '(' {
				depth++
			} else if c == ')' {
				depth--
			}
			s.bounds[i] = true
			i++
			for i < len(src) && src[i]&0xC0 == 0x80 {
				i++
			}
			s.bounds[i] = true
		}
	}
	return len(src)
}

// str scans the string literal whose opening quote is at i and returns the
// index after its closing quote.
func (s *qscan) str(i int) int {
	src := s.src
	j := i + 1
	for j < len(src) {
		switch src[j] {
		case '\\':
			if j+1 < len(src) && src[j+1] == '(' {
				s.interp[i] = true
				s.bounds[j+2] = true
				k := s.query(j+2, true)
				if k >= len(src) {
					return len(src)
				}
				s.bounds[k] = true
				j = k + 1
				continue
			}
			j += 2
		case '"':
			return j + 1
		default:
			j++
		}
	}
	return len(src)
}

func scanQuery(src string) (bounds []int, interp map[int]bool) {
	s := &qscan{src: src, bounds: map[int]bool{}, interp: map[int]bool{}}
	s.query(0, false)
	for b := range s.bounds {
		if b <= len(src) {
			bounds = append(bounds, b)
		}
	}
	sort.Ints(bounds)
	return bounds, s.interp
}

// opensInterpolated: src[q] is a double quote and, read as the start of a
// string literal, the literal contains an interpolation.  This is the local,
// structural description of finding F13 (an error reported at the opening of
// an interpolated string).
func opensInterpolated(src string, q int) bool {
	if q < 0 || q >= len(src) || src[q] != '"' {
		return false
	}
	for j := q + 1; j < len(src); j++ {
		switch src[j] {
		case '\\':
			if j+1 < len(src) && src[j+1] == '(' {
				return true
			}
			j++
		case '"':
			return false
		}
	}
	return false
}

// ---------------------------------------------------------------------------

type queryCase struct {
	Mode     string `json:"mode"` // lib | arg | file | import | include | home
	Src      string `json:"src"`
	ExpStart int    `json:"exp_start"` // >= 0: an always-illegal lexeme was inserted here ...
	ExpToken string `json:"exp_token,omitempty"`
	// sources with ill-formed UTF-8 cannot travel in a JSON string: when Raw
	// is set it is the source (and RawToken the expected token)
	Raw      []byte `json:"raw,omitempty"`
	RawToken []byte `json:"raw_token,omitempty"`
}

// portable moves a source that is not valid UTF-8 into the byte fields.
func (c queryCase) portable() queryCase {
	if !utf8.ValidString(c.Src) || !utf8.ValidString(c.ExpToken) {
		c.Raw, c.RawToken = []byte(c.Src), []byte(c.ExpToken)
		c.Src, c.ExpToken = "", ""
	}
	return c
}

// ill-formed UTF-8 where a token is expected: lone bytes, truncated
// sequences, overlong and surrogate-shaped ones.  The lexer consumes exactly
// one byte (utf8.DecodeRuneInString reports size 1 for every ill-formed
// prefix), so the token is the first byte.
var illFormed = []string{"\x80", "\xbf", "\xc0", "\xc3", "\xe3", "\xf0", "\xfe", "\xff",
	"\xe3\x81", "\xf0\x9f\x98", "\xc0\x80", "\xed\xa0\x80"}

// insertIllFormed puts seq (blanks around it, more text after it on the same
// line) at a lexeme boundary of a valid source.
func insertIllFormed(src string, at int, seq string) queryCase {
	tail := src[at:]
	if strings.TrimLeft(tail, " \t") == "" || tail[0] == '\n' || tail[0] == '\r' {
		tail = "| .z " + tail
	}
	return queryCase{Src: src[:at] + " " + seq + " " + tail, ExpStart: at + 1, ExpToken: seq[:1]}
}

// always-illegal lexemes: text to insert (blanks are added around it) and the
// token the lexer makes of it
var illegalLexemes = [][2]string{
	{"é", "é"}, {"漢", "漢"}, {"😀", "😀"}, {"`", "`"}, {"~", "~"}, {"^", "^"}, {"&", "&"}, {"'", "'"},
	{"12ab", "12a"}, {"1.2.3", "1.2."}, {"0x1", "0x"}, {"1e+", "1e+"}, {"3.e", "3.e"}, {"@", "@"}, {"$", "$"}, {"!", "!"},
}

type qref struct {
	ok     bool // a *gojq.ParseError was returned
	valid  bool
	offset int
	token  string
	msg    string
	start  int  // offset - len(token)
	atEOF  bool // no token: end of input / unterminated string
}

func refParse(src string) qref {
	_, err := gojq.Parse(src)
	if err == nil {
		return qref{valid: true}
	}
	pe, ok := err.(*gojq.ParseError)
	if !ok {
		return qref{msg: err.Error()}
	}
	return qref{ok: true, offset: pe.Offset, token: pe.Token, msg: pe.Error(), start: pe.Offset - len(pe.Token)}
}

// libCheck asserts the library clause: Offset and Token identify the same
// bytes of the source.  known is set when the case belongs to finding F13.
func libCheck(c queryCase, r qref) (msg string, known string) {
	src := c.Src
	if knownClass("C17/interp-string-start") && strings.HasPrefix(r.msg, "unexpected token") && opensInterpolated(src, r.offset-1) {
		return "", "C17/interp-string-start"
	}
	if r.offset < 0 || r.offset > len(src) {
		return fmt.Sprintf("ParseError.Offset %d outside the source (%d bytes)", r.offset, len(src)), ""
	}
	if r.start < 0 || src[r.start:r.offset] != r.token {
		return fmt.Sprintf("ParseError{Offset: %d, Token: %q} (%s): the %d bytes before the offset are %q", r.offset, r.token, r.msg, len(r.token), src[max(r.start, 0):r.offset]), ""
	}
	atEnd := r.msg == "unexpected EOF" || r.msg == "unterminated string literal"
	if r.token == "" && !atEnd {
		return fmt.Sprintf("ParseError with an empty token: %s", r.msg), ""
	}
	if atEnd && (r.token != "" || r.offset != len(src)) {
		return fmt.Sprintf("ParseError{Offset: %d, Token: %q} for %q: at the end of input the token is empty and the offset is the length of the source (%d)", r.offset, r.token, r.msg, len(src)), ""
	}
	if c.ExpStart >= 0 {
		if r.start != c.ExpStart || r.token != c.ExpToken {
			return fmt.Sprintf("the always-illegal lexeme %q was inserted at byte %d of a valid query; the error names %q at byte %d (%s)", c.ExpToken, c.ExpStart, r.token, r.start, r.msg), ""
		}
	}
	return "", ""
}

func checkQuery(c queryCase) string { return judgeQuery(c, nil) }

func judgeQuery(c queryCase, note func(r qref, w want, known string)) string {
	if c.Raw != nil {
		c.Src, c.ExpToken = string(c.Raw), string(c.RawToken)
	}
	if c.Mode == "arg" {
		lead := len(c.Src) - len(strings.TrimLeftFunc(c.Src, unicode.IsSpace))
		c.Src = strings.TrimSpace(c.Src) // documented: cli.go trims the argument
		if c.ExpStart >= 0 {
			c.ExpStart -= lead
		}
		if c.Src == "" || c.Src[0] == '-' || strings.IndexByte(c.Src, 0) >= 0 {
			rec.Discard("query/not-an-argument")
			return ""
		}
		if c.ExpStart >= len(c.Src) || c.ExpStart < 0 {
			c.ExpStart = -1
		}
	}
	r := refParse(c.Src)
	if r.valid {
		if c.ExpStart >= 0 {
			return fmt.Sprintf("accepted, although by construction the token %q at byte %d cannot continue any production", c.ExpToken, c.ExpStart)
		}
		rec.Discard("query/still-valid")
		return ""
	}
	if !r.ok {
		rec.Discard("query/other-error")
		return ""
	}
	msg, known := libCheck(c, r)
	r.atEOF = r.token == ""
	p := r.start
	if r.atEOF {
		p = len(c.Src)
	}
	if c.ExpStart >= 0 {
		p = c.ExpStart // known by construction, whatever the library says
	}
	var w want
	if (msg == "" || c.ExpStart >= 0) && known == "" {
		w = locate([]byte(c.Src), p)
		if knownClass("C17/tab-column") && c.Mode != "lib" && strings.IndexByte(string(w.Text[:w.Pos]), '\t') >= 0 {
			known = "C17/tab-column"
		}
		if k := knownIllFormed(w); k != "" && c.Mode != "lib" {
			known = k
		}
	}
	if note != nil {
		note(r, w, known)
	}
	if known != "" {
		rec.Excluded(known)
		return ""
	}
	if c.Mode == "lib" {
		return msg
	}
	if msg != "" && c.ExpStart < 0 {
		// the library clause is reported by the lib sub-check; without a
		// position known by construction the command cannot be judged
		// against an inconsistent (Offset, Token)
		rec.Discard("query/library-inconsistent")
		return ""
	}
	// command level
	var o runOpt
	args := []string{"-n"}
	head := ""
	switch c.Mode {
	case "arg":
		args = append(args, c.Src)
		head = "<arg>"
		if !strings.ContainsAny(c.Src, "\r\n") {
			head = c.Src // one-line form: the query itself is echoed
		}
	case "file":
		writeFile("q.jq", []byte(c.Src))
		args = append(args, "-f", "q.jq")
		head = "q.jq"
	case "import":
		writeFile("mods/m.jq", []byte(c.Src))
		args = append(args, "-L", "mods", `import "m" as m; 1`)
		head = "mods/m.jq"
	case "include":
		writeFile("mods/m.jq", []byte(c.Src))
		args = append(args, "-L", "mods", `include "m"; 1`)
		head = "mods/m.jq"
	case "home":
		writeFile("homejq/.jq", []byte(c.Src))
		o.home = "homejq"
		args = append(args, "1")
		head = workDir() + "/homejq/.jq"
	default:
		return "bad mode " + c.Mode
	}
	res := runGojq(o, args...)
	if res.TimedOut {
		rec.Discard("cli-timeout")
		return ""
	}
	if res.Crashed() {
		return "gojq crashed: " + clip([]byte(res.Stderr))
	}
	reps, pm := parseBlocks(res.Stderr, "gojq: invalid query: ", []string{head})
	if pm != "" {
		return fmt.Sprintf("%s; exit %d, stderr %s", pm, res.Exit, clip([]byte(res.Stderr)))
	}
	rep := reps[0]
	if c.Mode == "arg" && head == c.Src {
		rep.Line = 0 // the echoed query is not a file:line header
	}
	if m := compare(rep, w); m != "" {
		return fmt.Sprintf("%s [mode %s, ParseError{Offset: %d, Token: %q}: %s]", m, c.Mode, r.offset, r.token, r.msg)
	}
	return ""
}

// ---------------------------------------------------------------------------
// valid sources

var queryStages = []string{
	`.a`, `.["k"]`, `.[0]`, `.[1:3]`, `map(. + 1)`, `select(.x > 2)`, `{a: .b, "c": 1, (.d): 2, $__loc__, "e\(1)": 3}`,
	`[.[] | tostring]`, `if . == null then "z" elif . then 1 else . end`, `reduce .[] as $x (0; . + $x)`,
	`"str \(.a) mid \("in \(.b | tojson) ner") end"`, `@base64 "x\(.)y"`, `def f(g; $v): g | $v; f(.; 1)`,
	`try error("x") catch .`, `. as [$p, {q: $q, "r": [$r]}] | $p`, `label $out | foreach .[] as $i (0; . + $i; if . > 3 then ., break $out else . end)`,
	`.. | numbers`, `-1 // "alt"`, `.a |= . + 1`, `$ENV.HOME`, `@json`, `.a?`, `.[]?`, `1 as $x | 2 as $y | [$x, $y]`,
	`limit(3; repeat(1))`, `.a.b.c`, `."quoted"."k2"`, `.[] as [$a] ?// $a | $a`, `1.5e3 + .25 - 1E-2 * 7 / 2 % 3`,
	`. == 1 and . != 2 or (. < 3 | not)`, `.a += 1 | .b -= 1 | .c *= 2 | .d /= 2 | .e %= 2 | .f //= 0`, `[limit(2; .[])] | first`,
	`{"a": {b: [1, {"c": null}]}}`, `input_line_number`, `[paths(type == "number")]`, `to_entries | map(select(.value)) | from_entries`,
	`"é\n\t\"q\" \\ /"`, `..`, `[.[]?]`, `(1, 2) as $n | $n * $n`, `m::f(1; $m::v) | lib::g`, `$__prog_name | @sh "echo \(.)"`, `.a as {b: [$c, {$d}]} ?// [$c, $d] | [$c, $d]`,
}

var queryStrings = map[string][]string{
	"ascii": {`"plain"`, `"two words"`},
	"latin": {`"é ü ñ"`, `"Жд λ"`},
	"cjk":   {`"漢字かな"`, `"日本語 テキスト"`, `"Ａ１"`},
	"mix":   {`"漢é😀 x"`, `"é 한글"`, `"🚀🎉"`},
}

var queryComments = map[string][]string{
	"ascii": {"# note", "# a | b ) } \""},
	"latin": {"# é ü"},
	"cjk":   {"# 漢字 コメント"},
	"mix":   {"# 😀 漢 é"},
}

// buildQuery assembles a valid multi-line program from stages; module form is
// a list of function definitions.
func buildQuery(p *prng, stages int, chars, eolKind string, module bool, breakEvery int) string {
	eol := &eolGen{kind: eolKind, p: &prng{s: p.next()}}
	var parts []string
	for i := 0; i < stages; i++ {
		st := pickS(p, queryStages)
		if p.intn(3) == 0 {
			st = pickS(p, queryStrings[chars]) + " as $s" + fmt.Sprint(i) + " | " + st
		}
		if module {
			parts = append(parts, fmt.Sprintf("def f%d: %s;", i, st))
		} else {
			parts = append(parts, st)
		}
	}
	src := strings.Join(parts, " | ")
	if module {
		src = strings.Join(parts, " ")
		if p.intn(3) == 0 {
			src = `module {"name": "m", "version": 1}; ` + src
		}
	}
	if breakEvery <= 0 {
		return src
	}
	// re-flow: replace blanks at lexeme boundaries by line ends, indentation and comments
	bounds, _ := scanQuery(src)
	isB := map[int]bool{}
	for _, b := range bounds {
		isB[b] = true
	}
	var sb strings.Builder
	for i := 0; i < len(src); i++ {
		if src[i] == ' ' && isB[i] && i > 0 && p.intn(breakEvery) == 0 {
			if p.intn(4) == 0 {
				sb.WriteString(" " + pickS(p, queryComments[chars]))
			}
			sb.WriteString(eol.next())
			sb.WriteString(pickS(p, []string{"", "  ", "    ", " "}))
			continue
		}
		sb.WriteByte(src[i])
	}
	return sb.String()
}

// ---------------------------------------------------------------------------
// colons after variables and identifiers.  `::` joins a module name only when
// an identifier follows; otherwise the text lexes as separate tokens, exactly
// as if blanks stood between them.  The oracle is that relation: the same
// fragment written with blanks between its tokens (which never enters the
// `::` look-ahead) must be accepted / rejected alike, at the corresponding
// token.

type colonFrag struct {
	tight string
	toks  []string
}

var colonFrags = []colonFrag{
	{"$x::", []string{"$x", ":", ":"}},
	{"$x::1", []string{"$x", ":", ":", "1"}},
	{"$x:: y", []string{"$x", ":", ":", "y"}},
	{"$x::$y", []string{"$x", ":", ":", "$y"}},
	{"$__loc__::", []string{"$__loc__", ":", ":"}},
	{"foo::", []string{"foo", ":", ":"}},
	{"foo::1", []string{"foo", ":", ":", "1"}},
	{"foo:: bar", []string{"foo", ":", ":", "bar"}},
	{"a::b::c", []string{"a::b", ":", ":", "c"}},
	{"::", []string{":", ":"}},
	{":::", []string{":", ":", ":"}},
	{"$x:", []string{"$x", ":"}},
	{"$x:::y", []string{"$x", ":", ":", ":", "y"}},
	{".[$i::2]", []string{".", "[", "$i", ":", ":", "2", "]"}},
	{".[$i:$j:]", []string{".", "[", "$i", ":", "$j", ":", "]"}},
	{"{$x::1}", []string{"{", "$x", ":", ":", "1", "}"}},
	{"1 as $x::| 2", []string{"1", "as", "$x", ":", ":", "|", "2"}},
	{"$x::é", []string{"$x", ":", ":", "é"}},
	{"\"漢\" as $x::. | $x", []string{"\"漢\"", "as", "$x", ":", ":", ".", "|", "$x"}},
}

// colonCase inserts fragment f at a lexeme boundary of a valid source and
// derives the expectation from the blank-separated spelling.  verdict: ""
// (a queryCase with ExpStart / ExpToken to judge), "valid" (the tight
// spelling must parse as well), "skip".
func colonCase(src string, at int, f colonFrag) (c queryCase, verdict string) {
	spaced := strings.Join(f.toks, " ")
	var tightOff, spacedOff []int
	for pos, sp, i := 0, 0, 0; i < len(f.toks); i++ {
		for pos < len(f.tight) && f.tight[pos] == ' ' {
			pos++
		}
		if !strings.HasPrefix(f.tight[pos:], f.toks[i]) {
			return c, "skip"
		}
		tightOff, spacedOff = append(tightOff, pos), append(spacedOff, sp)
		pos += len(f.toks[i])
		sp += len(f.toks[i]) + 1
	}
	base := at + 1
	tightSrc := src[:at] + " " + f.tight + " " + src[at:]
	r := refParse(src[:at] + " " + spaced + " " + src[at:])
	c = queryCase{Src: tightSrc, ExpStart: -1}
	if r.valid {
		return c, "valid"
	}
	if !r.ok {
		return c, "skip"
	}
	start := r.start
	switch {
	case start < base:
	case start >= base+len(spaced):
		start += len(f.tight) - len(spaced)
	default:
		k := -1
		for i, o := range spacedOff {
			if base+o == start && f.toks[i] == r.token {
				k = i
			}
		}
		if k < 0 {
			return c, "skip"
		}
		start = base + tightOff[k]
	}
	c.ExpStart, c.ExpToken = start, r.token
	return c, ""
}
