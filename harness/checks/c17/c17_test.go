// C17 — reported error positions point at the offending byte.
//
// Every case is one well-formed input (JSON stream, YAML stream, jq program)
// with one injected fault.  The oracle obtains the absolute offset of the
// offending byte without gojq's command (our own encoding/json decoder, the
// yaml library's mark, gojq.Parse's ParseError cross-checked against the
// source and against where an always-illegal lexeme was inserted) and
// recomputes line number, line text and display column from the whole byte
// stream (oracle_test.go); the command's stderr is parsed and must satisfy
//
//	(1) printed line number = 1-based line of the offending byte,
//	(2) the quoted text is a piece of that line containing the offending
//	    character (cut at character boundaries),
//	(3) the caret's terminal column lies under the offending character.
package c17

import (
	"bytes"
	"encoding/json"
	"fmt"
	"strings"
	"testing"

	"pgregory.net/rapid"

	"verif/internal/evid"
	"verif/internal/gen"
)

var rec *evid.Rec

// replaying: the known-finding classes are excluded from generation only; a
// replayed case is always judged.
var replaying bool

func knownClass(class string) bool { return !replaying && rec.KnownClass(class) }

// ---------------------------------------------------------------------------
// JSON: random cases

var jsonPayloads = []string{"#", "x", "}", "]", ",", ":", "\"", "é", "漢", "😀", "\x01", "'", "tru", "nul ", "-", "0123", "\x7f", "Ａ",
	"\xff", "\x80", "\xe3\x81", "\xc3#", // ill-formed UTF-8 as the offending byte
	"\ufeff", "\u00a0", "\u200b"} // a byte order mark / no-break / zero-width space outside a string
var inStringPayloads = []string{"\n", "\r", "\r\n", "\x01", "\t", "\x1f",
	"\xc3\x01", "\xe3\x81\x1f", "\xff\n", "\x80\x01", "\xffx\x01"} // ill-formed bytes directly (or one character) before the control character

func genDocSpec(t *rapid.T, label, size string) docSpec {
	d := docSpec{Seed: rapid.Uint64Range(0, 1<<40).Draw(t, label+"seed")}
	d.Chars = rapid.SampledFrom([]string{"ascii", "ascii", "ascii", "latin", "cjk", "cjk", "emoji", "mix", "mix", "bad"}).Draw(t, label+"chars")
	d.Indent = rapid.SampledFrom([]string{"  ", "  ", "  ", "", "    ", "\t"}).Draw(t, label+"indent")
	d.Shape = rapid.SampledFrom([]string{"obj", "obj", "arr", "nest", "nest", "scalars"}).Draw(t, label+"shape")
	switch size {
	case "tiny":
		d.Lines, d.Width = rapid.IntRange(1, 3).Draw(t, label+"lines"), rapid.IntRange(1, 20).Draw(t, label+"width")
	case "small":
		d.Lines, d.Width = rapid.IntRange(3, 30).Draw(t, label+"lines"), rapid.IntRange(5, 60).Draw(t, label+"width")
	case "medium":
		d.Lines, d.Width = rapid.IntRange(60, 400).Draw(t, label+"lines"), rapid.IntRange(10, 60).Draw(t, label+"width")
	case "large":
		d.Lines, d.Width = rapid.IntRange(400, 1500).Draw(t, label+"lines"), rapid.IntRange(20, 40).Draw(t, label+"width")
	case "longline":
		d.Shape = "line"
		d.Lines, d.Width = rapid.IntRange(2, 40).Draw(t, label+"lines"), rapid.IntRange(30, 2000).Draw(t, label+"width")
	case "widelines":
		d.Lines, d.Width = rapid.IntRange(3, 40).Draw(t, label+"lines"), rapid.IntRange(60, 400).Draw(t, label+"width")
	case "manydocs":
		d.Shape = "scalars"
		d.Lines, d.Width = rapid.IntRange(50, 1500).Draw(t, label+"lines"), rapid.IntRange(1, 30).Draw(t, label+"width")
	}
	return d
}

func biasedIndex(t *rapid.T, label string, n int) int {
	if n <= 1 {
		return 0
	}
	switch rapid.IntRange(0, 9).Draw(t, label+"bias") {
	case 0, 1:
		return n - 1 - rapid.IntRange(0, min(n-1, 11)).Draw(t, label+"tail")
	case 2:
		return rapid.IntRange(0, min(n-1, 11)).Draw(t, label+"head")
	}
	return rapid.IntRange(0, n-1).Draw(t, label)
}

func genFault(t *rapid.T, doc []byte) fault {
	toks := jsonTokens(doc)
	if len(toks) == 0 {
		return fault{Kind: "truncate", At: 0}
	}
	tok := toks[biasedIndex(t, "tok", len(toks))]
	switch rapid.SampledFrom([]string{"insert", "insert", "insert", "insert", "truncate", "truncate", "delete", "replace", "instr", "instr"}).Draw(t, "fault") {
	case "insert":
		at := tok[0]
		if rapid.Bool().Draw(t, "after") {
			at = tok[1]
		}
		return textFault("insert", at, 0, rapid.SampledFrom(jsonPayloads).Draw(t, "payload"))
	case "truncate":
		if rapid.Bool().Draw(t, "anybyte") {
			return fault{Kind: "truncate", At: rapid.IntRange(1, len(doc)).Draw(t, "cut")}
		}
		return fault{Kind: "truncate", At: rapid.IntRange(tok[0], tok[1]).Draw(t, "cut")}
	case "delete":
		at := tok[0]
		if doc[at] == '"' && rapid.Bool().Draw(t, "closing") {
			at = tok[1] - 1
		}
		return fault{Kind: "delete", At: at, N: 1}
	case "replace":
		return textFault("replace", tok[0], 1, rapid.SampledFrom(jsonPayloads).Draw(t, "payload"))
	default: // a raw control character inside a string literal
		for i := 0; i < 8 && (doc[tok[0]] != '"' || tok[1]-tok[0] < 3); i++ {
			tok = toks[rapid.IntRange(0, len(toks)-1).Draw(t, "strtok")]
		}
		if doc[tok[0]] != '"' || tok[1]-tok[0] < 3 {
			return fault{Kind: "insert", At: tok[0], Text: "#"}
		}
		at := rapid.IntRange(tok[0]+1, tok[1]-1).Draw(t, "instr")
		for at > tok[0]+1 && doc[at]&0xC0 == 0x80 {
			at--
		}
		return textFault("insert", at, 0, rapid.SampledFrom(inStringPayloads).Draw(t, "ctl"))
	}
}

func genJSONCase(t *rapid.T) jsonCase {
	c := jsonCase{}
	c.Mode = rapid.SampledFrom([]string{"pipe", "pipe", "pipe", "pipe", "pipe", "pipe", "file", "file", "file", "file", "file",
		"stdinfile", "stdinfile", "file2", "file2", "slurpfile", "argjson", "jsonargs", "import", "inputs"}).Draw(t, "mode")
	c.EOL = rapid.SampledFrom([]string{"lf", "lf", "lf", "crlf", "crlf", "cr", "mixed"}).Draw(t, "eol")
	switch c.Mode {
	case "pipe", "file", "stdinfile", "file2":
		switch rapid.IntRange(0, 11).Draw(t, "flags") {
		case 0, 1:
			c.Flags = []string{"--slurp"}
		case 2:
			c.Flags = []string{"--stream"}
		}
	}
	plan := rapid.SampledFrom([]string{"single", "single", "single", "few", "few", "few", "many", "many", "big-first", "big-first", "longline"}).Draw(t, "plan")
	if c.Mode == "argjson" || c.Mode == "jsonargs" {
		plan = rapid.SampledFrom([]string{"single", "longline"}).Draw(t, "argplan")
	}
	sizes := []string{"tiny", "small", "small", "medium", "medium", "large", "widelines"}
	switch plan {
	case "single":
		c.Doc = genDocSpec(t, "doc.", rapid.SampledFrom(sizes).Draw(t, "size"))
	case "few":
		for i, n := 0, rapid.IntRange(1, 3).Draw(t, "npre"); i < n; i++ {
			c.Pre = append(c.Pre, genDocSpec(t, fmt.Sprintf("pre%d.", i), rapid.SampledFrom([]string{"tiny", "small", "small", "medium", "widelines"}).Draw(t, "presize")))
		}
		c.Doc = genDocSpec(t, "doc.", rapid.SampledFrom(sizes).Draw(t, "size"))
	case "many":
		c.Pre = []docSpec{genDocSpec(t, "pre.", "manydocs")}
		c.Doc = genDocSpec(t, "doc.", rapid.SampledFrom([]string{"small", "medium", "medium", "large", "longline"}).Draw(t, "size"))
	case "big-first":
		c.Pre = []docSpec{genDocSpec(t, "pre0.", rapid.SampledFrom([]string{"medium", "large", "large"}).Draw(t, "presize"))}
		if rapid.Bool().Draw(t, "second") {
			c.Pre = append(c.Pre, genDocSpec(t, "pre1.", "tiny"))
		}
		c.Doc = genDocSpec(t, "doc.", rapid.SampledFrom([]string{"tiny", "small", "medium"}).Draw(t, "size"))
	case "longline":
		if c.Mode != "argjson" && c.Mode != "jsonargs" && rapid.Bool().Draw(t, "withpre") {
			c.Pre = []docSpec{genDocSpec(t, "pre.", rapid.SampledFrom([]string{"small", "medium"}).Draw(t, "presize"))}
		}
		c.Doc = genDocSpec(t, "doc.", "longline")
	}
	if c.Mode == "argjson" || c.Mode == "jsonargs" {
		if c.Doc.Shape == "scalars" {
			c.Doc.Shape = "obj"
		}
	}
	if rapid.IntRange(0, 3).Draw(t, "post") == 0 {
		c.Post = []docSpec{genDocSpec(t, "post.", rapid.SampledFrom([]string{"tiny", "small", "medium"}).Draw(t, "postsize"))}
	}
	if rapid.IntRange(0, 4).Draw(t, "tail") == 0 {
		c.Tail = "none"
	}
	c.Fault = genFault(t, c.docBytes())
	if rapid.IntRange(0, 6).Draw(t, "prefixed") == 0 {
		pre := rapid.SampledFrom(jsonPrefixes).Draw(t, "prefix")
		if rapid.IntRange(0, 3).Draw(t, "double") == 0 {
			pre += rapid.SampledFrom(jsonPrefixes).Draw(t, "prefix2")
		}
		c.Prefix = []byte(pre)
		c.PrefixAt = rapid.SampledFrom([]string{"start", "start", "space", "between"}).Draw(t, "prefixat")
		if rapid.Bool().Draw(t, "onlyprefix") {
			c.Fault = fault{Kind: "none"} // the document itself is valid
		}
	}
	return c
}

// ---------------------------------------------------------------------------
// JSON: enumerated sub-spaces

type rawCase struct {
	Mode  string   `json:"mode"`
	Flags []string `json:"flags,omitempty"`
	Data  []byte   `json:"data"`
}

func checkRaw(c rawCase) string { return judgeJSON(c.Mode, c.Flags, c.Data, nil) }

const smallDoc = "[1, {\"a\": \"b\"}]\n{\n  \"name\": \"漢字 テスト\",\n  \"tags\": [\"a\", \"é\", 10, null],\n  \"nested\": {\n    \"k\": [1, 2.5e3, true],\n    \"s\": \"x\\\"y\\\\z 😀\"\n  },\n  \"last\": false\n}\n"

func withEOL(s, eol string) string {
	switch eol {
	case "crlf":
		return strings.ReplaceAll(s, "\n", "\r\n")
	case "cr":
		return strings.ReplaceAll(s, "\n", "\r")
	}
	return s
}

// smallFaults enumerates every truncation, every single-byte deletion and
// every insertion of an illegal byte at every token boundary of a document.
func smallFaults(doc []byte) [][]byte {
	var out [][]byte
	for i := 1; i < len(doc); i++ {
		out = append(out, append([]byte{}, doc[:i]...))
		out = append(out, append(append([]byte{}, doc[:i]...), doc[i+1:]...))
	}
	seen := map[int]bool{}
	for _, tok := range jsonTokens(doc) {
		for _, at := range tok {
			if seen[at] {
				continue
			}
			seen[at] = true
			for _, p := range []string{"#", "}", "é", "漢", "\x01", ",", "\"", "\xff", "\xe3\x81"} {
				out = append(out, append(append(append([]byte{}, doc[:at]...), p...), doc[at:]...))
			}
		}
	}
	return out
}

type sweepCase struct {
	Mode   string `json:"mode"`
	EOL    string `json:"eol"`
	Layout string `json:"layout"`
	Target int    `json:"target"` // wanted absolute offset of the offending byte
}

func (c sweepCase) render(pad int) []byte {
	e := map[string]string{"lf": "\n", "crlf": "\r\n", "cr": "\r"}[c.EOL]
	var b bytes.Buffer
	padding := func(n int) string {
		if c.Layout == "mbwindow" || c.Layout == "longline" {
			return strings.Repeat("漢", n/3) + strings.Repeat("x", n%3)
		}
		return strings.Repeat("x", n)
	}
	switch c.Layout {
	case "lines", "lines-eof":
		b.WriteString("{" + e)
		for i := 0; b.Len() < c.Target-300; i++ {
			fmt.Fprintf(&b, "  \"k%05d\": %d,%s", i, i, e)
		}
		b.WriteString("  \"pad\": \"" + padding(pad) + "\"," + e)
		if c.Layout == "lines-eof" {
			b.WriteString("  \"é\": tru")
			return b.Bytes()
		}
		b.WriteString("  \"é\": [\"漢字\", tru, 1]," + e + "  \"after\": 1" + e + "}" + e)
	case "docs":
		for i := 0; b.Len() < c.Target-300; i++ {
			fmt.Fprintf(&b, "{\"d\": %d}%s", i, e)
		}
		b.WriteString("{\"pad\": \"" + padding(pad) + "\"}" + e)
		b.WriteString("{\"z\": [\"漢字\", tru]}" + e)
		for i := 0; i < 300; i++ {
			fmt.Fprintf(&b, "{\"after\": %d}%s", i, e)
		}
	case "docs-far":
		for i := 0; b.Len() < c.Target-3000; i++ {
			fmt.Fprintf(&b, "{\"d\": %d}%s", i, e)
		}
		b.WriteString("{" + e)
		for i := 0; i < 110; i++ {
			fmt.Fprintf(&b, "  \"k%05d\": %d,%s", i, i, e)
		}
		b.WriteString("  \"pad\": \"" + padding(pad) + "\"," + e + "  \"é\": [\"漢字\", tru, 1]" + e + "}" + e)
		for i := 0; i < 300; i++ {
			fmt.Fprintf(&b, "{\"after\": %d}%s", i, e)
		}
	case "longline":
		b.WriteString("{\"a\": \"" + strings.Repeat("漢字かな", max(c.Target-600, 0)/12) + "\", \"pad\": \"" + padding(pad) + "\", \"z\": tru, \"y\": \"" + strings.Repeat("後", 100) + "\"}" + e)
	case "mbwindow":
		b.WriteString("{" + e)
		for i := 0; b.Len() < c.Target-5400; i++ {
			fmt.Fprintf(&b, "  \"k%05d\": %d,%s", i, i, e)
		}
		b.WriteString("  \"pad\": \"" + strings.Repeat("漢", 1700) + padding(pad) + "\", \"z\": tru" + e + "}" + e)
	}
	return b.Bytes()
}

func (c sweepCase) build() []byte {
	r := refDecode(c.render(0))
	if r.valid || c.Target < r.p {
		return nil
	}
	return c.render(c.Target - r.p)
}

func checkSweep(c sweepCase) string {
	data := c.build()
	if data == nil {
		rec.Discard("sweep/target-too-small")
		return ""
	}
	return judgeJSON(c.Mode, nil, data, nil)
}

// judgeFiles judges several inputs given as file arguments of one invocation
// (the command reports one error per file and goes on with the next file).
func judgeFiles(datas [][]byte, keys []string) []string {
	out := make([]string, len(datas))
	type item struct {
		i    int
		w    want
		r    jsonRef
		name string
	}
	var items []item
	var names []string
	for i, data := range datas {
		r := refDecode(data)
		if r.valid {
			rec.Discard("json/still-valid")
			continue
		}
		if r.other != "" {
			out[i] = "oracle self-check: " + r.other
			continue
		}
		w := locate(data, r.p)
		known := knownJSON("file", nil, data, r, w)
		noteJSON(keys[i], "file", nil, data)(r, w, known)
		if known != "" {
			rec.Excluded(known)
			continue
		}
		name := fmt.Sprintf("b%03d.json", len(items))
		writeFile(name, data)
		items = append(items, item{i, w, r, name})
		names = append(names, name)
	}
	if len(items) == 0 {
		return out
	}
	res := runGojq(runOpt{}, append([]string{"empty"}, names...)...)
	reps, msg := parseBlocks(res.Stderr, "gojq: invalid json: ", names)
	if res.TimedOut || res.Crashed() || msg != "" {
		for _, it := range items { // fall back to one invocation per input
			out[it.i] = judgeJSON("file", nil, datas[it.i], nil)
		}
		return out
	}
	for k, it := range items {
		if m := compare(reps[k], it.w); m != "" {
			out[it.i] = fmt.Sprintf("%s [file argument %d of %d, %d bytes, offending byte %d: %s]", m, k+1, len(items), len(datas[it.i]), it.r.p, it.r.msg)
		}
	}
	return out
}

// ---------------------------------------------------------------------------
// queries: enumerated and random

var fixedQueries = []string{
	".a |\n  map(. + 1) | # 漢字 comment\n  \"str \\(.b | tostring) é\" as $s |\n  {a: $s, \"b\": [1, 2.5], (.c): null}",
	"def f(g): g | \"x\\(g)y\";\ndef h: f(.) as [$a, {b: $b}] | $a;\nh | if . then \"漢字\" else 0 end",
	"reduce .[] as $x (0; . + $x) | @base64 \"v\\(.)\" | try error catch .",
}

// contexts before an ill-formed byte sequence (each is a viable prefix of a
// program and ends with a blank, so that no ill-formed byte of the context
// stands directly before the offending one)
var illPrefixes = []string{
	"",
	".a | ",
	".a | .b , ",
	".a | .b | [ ",
	"\"漢字é\" | ",
	"\"😀 x\" as $s | [ $s , ",
	"# コメント é\n.a | ",
	".a | # 漢字\r\n\"ü\" | ",
	".a |\r  \"日本\" | ",
	"\"a\xffb\" | ",
	"# \xfe\xff c\n\"\xc3(\" | ",
	"\"" + "漢字かな漢字かな漢字かな漢字かな漢字かな漢字かな漢字かな漢字かな" + "\" | .a | ",
}

func insertLexeme(src string, at int, lex [2]string) queryCase {
	return queryCase{Src: src[:at] + " " + lex[0] + " " + src[at:], ExpStart: at + 1, ExpToken: lex[1]}
}

func genQuerySource(t *rapid.T, module bool) string {
	p := &prng{s: rapid.Uint64Range(0, 1<<40).Draw(t, "qseed")}
	chars := rapid.SampledFrom([]string{"ascii", "ascii", "latin", "cjk", "mix"}).Draw(t, "qchars")
	eol := rapid.SampledFrom([]string{"lf", "lf", "crlf", "cr", "mixed"}).Draw(t, "qeol")
	brk := rapid.SampledFrom([]int{0, 2, 3, 5, 9}).Draw(t, "qbreak")
	if !module && rapid.IntRange(0, 3).Draw(t, "fromgen") == 0 {
		pr := gen.Program(gen.Conf{Update: true, AltPat: true, Paths: true, Builtins: true, MaxNodes: 40}).Draw(t, "prog")
		if refParse(pr.Src).valid { // the shared generator is not guaranteed to print parseable text
			return pr.Src
		}
		rec.Class("query/base/generated-program-not-parseable")
	}
	stages := rapid.SampledFrom([]int{1, 2, 3, 5, 8, 20, 60}).Draw(t, "stages")
	if rapid.IntRange(0, 39).Draw(t, "huge") == 0 {
		stages = 600 // a source of more than 16 KiB
	}
	return buildQuery(p, stages, chars, eol, module, brk)
}

func genQueryCase(t *rapid.T, modes []string) queryCase {
	mode := rapid.SampledFrom(modes).Draw(t, "mode")
	module := mode == "import" || mode == "include" || mode == "home" || mode == "lib" && rapid.IntRange(0, 4).Draw(t, "libmodule") == 0
	src := genQuerySource(t, module)
	if !refParse(src).valid { // never expected: the by-construction oracle needs a valid base
		rec.Discard("query/base-not-valid: " + src[:min(len(src), 60)])
		src = ".a | map(.b)"
	}
	bounds, _ := scanQuery(src)
	c := queryCase{ExpStart: -1}
	switch rapid.SampledFrom([]string{"illegal", "illegal", "illegal", "misplaced", "misplaced", "truncate", "truncate", "delete", "escape", "interp", "illformed", "colons"}).Draw(t, "qfault") {
	case "colons":
		at := bounds[biasedIndex(t, "bound", len(bounds))]
		cc, verdict := colonCase(src, at, rapid.SampledFrom(colonFrags).Draw(t, "frag"))
		c = cc
		if verdict != "" { // no expectation: the Token law alone is judged
			c.ExpStart = -1
		}
	case "illformed":
		at := bounds[biasedIndex(t, "bound", len(bounds))]
		seq := rapid.SampledFrom(illFormed).Draw(t, "bytes")
		switch rapid.IntRange(0, 5).Draw(t, "shape") {
		case 0: // the sequence ends its line
			c = queryCase{Src: src[:at] + " " + seq + rapid.SampledFrom([]string{"\n", "\r\n", "\r"}).Draw(t, "nl") + src[at:], ExpStart: at + 1, ExpToken: seq[:1]}
		case 1: // the sequence stands in a string directly before an invalid escape
			c = queryCase{Src: src[:at] + " \"ab" + seq + "\\qcd\" " + src[at:], ExpStart: at + 4 + len(seq), ExpToken: "\\q"}
		default:
			c = insertIllFormed(src, at, seq)
		}
	case "illegal":
		at := bounds[biasedIndex(t, "bound", len(bounds))]
		c = insertLexeme(src, at, rapid.SampledFrom(illegalLexemes).Draw(t, "lexeme"))
	case "misplaced":
		at := bounds[biasedIndex(t, "bound", len(bounds))]
		tok := rapid.SampledFrom([]string{")", "}", "]", "|", ",", "as", "end", "then", "else", "\"s\"", "\"漢字\"", "123", ".x", "$v", "def", ";", ":", "(", "[", "{", "and", "//", "?//", "@text", "..", "reduce", "catch", "m::f", "$m::v", "$__loc__", "import", "?", "|=", "-"}).Draw(t, "token")
		c.Src = src[:at] + " " + tok + " " + src[at:]
	case "truncate":
		cut := rapid.IntRange(1, len(src)).Draw(t, "cut")
		for cut < len(src) && src[cut]&0xC0 == 0x80 {
			cut++
		}
		c.Src = src[:cut]
	case "delete":
		k := biasedIndex(t, "bound", len(bounds)-1)
		c.Src = src[:bounds[k]] + src[bounds[k+1]:]
	case "escape":
		// an invalid escape sequence inside a plain string literal
		at := bounds[biasedIndex(t, "bound", len(bounds))]
		esc := rapid.SampledFrom([][2]string{{`\q`, `\q`}, {`\x41`, `\x`}, {`\u12ZZ`, `\u12`}, {`\uZZZZ`, `\u`}, {`\ `, `\ `}, {`\é`, ""}, {`\'`, `\'`}}).Draw(t, "esc")
		c.Src = src[:at] + ` "ab` + esc[0] + `cd" ` + src[at:]
		if esc[1] != "" { // the lexer reports the escape before the parser sees the string
			c.ExpStart, c.ExpToken = at+4, esc[1]
		}
	default: // an interpolated string where a plain string or no string may stand
		at := bounds[biasedIndex(t, "bound", len(bounds))]
		if rapid.Bool().Draw(t, "import") {
			c.Src = `import "a\(1)" as a; ` + src
		} else {
			c.Src = src[:at] + ` "i\(1)n" ` + src[at:]
		}
	}
	c.Mode = mode
	return c
}

func noteQuery(key string, c queryCase) func(r qref, w want, known string) {
	return func(r qref, w want, known string) {
		if known != "" {
			return
		}
		rec.Class("query/mode/" + c.Mode)
		kind := r.msg
		if i := strings.IndexByte(kind, '"'); i > 0 {
			kind = strings.TrimSpace(kind[:i])
		}
		rec.Class("query/err/" + kind)
		if c.ExpStart >= 0 {
			rec.Class("query/oracle/inserted-illegal-lexeme")
		} else {
			rec.Class("query/oracle/offset-token-consistency")
		}
		if known != "" || w.Text == nil && w.Line == 0 {
			return
		}
		lc := lineClass(w)
		rec.Class("query/line/" + lc)
		if w.Line > 1 {
			rec.Class("query/line-number/>1")
		} else {
			rec.Class("query/line-number/1")
		}
		if w.Line > 1 || lc != "short-ascii" || len(c.Src) >= 16384 {
			rec.NT(key)
		}
	}
}

// ---------------------------------------------------------------------------

func replayCase(sub string, raw json.RawMessage) string {
	replaying = true
	defer func() { replaying = false }()
	un := func(v any) string {
		if err := json.Unmarshal(raw, v); err != nil {
			return "bad replay: " + err.Error()
		}
		return ""
	}
	switch sub {
	case "json":
		var c jsonCase
		if m := un(&c); m != "" {
			return m
		}
		return checkJSON(c)
	case "json-small", "json-raw":
		var c rawCase
		if m := un(&c); m != "" {
			return m
		}
		return checkRaw(c)
	case "json-sweep":
		var c sweepCase
		if m := un(&c); m != "" {
			return m
		}
		return checkSweep(c)
	case "yaml", "yaml-kinds":
		var c yamlCase
		if m := un(&c); m != "" {
			return m
		}
		return checkYAML(c)
	case "query-lib", "query-cli", "query-exh", "query-illformed", "query-colons":
		var c queryCase
		c.ExpStart = -1
		if m := un(&c); m != "" {
			return m
		}
		return checkQuery(c)
	}
	return "unknown sub " + sub
}

func TestC17(t *testing.T) {
	rec = evid.Open("C17")
	defer rec.Close()
	defer cleanup()
	rec.Replays(replayCase)
	if rec.ReplayPath() != "" {
		return
	}
	tooMany := func() bool { return rec.Violations() > 12 }

	// (E1) one small two-document stream: every truncation, every deleted
	// byte, every illegal byte at every token boundary x line ends x
	// transports.  Regular files are batched (one error per file argument).
	eols := []string{"lf", "crlf", "cr"}
	idx := 0
	complete := true
	for _, eol := range eols {
		doc := []byte(withEOL(smallDoc, eol))
		faults := smallFaults(doc)
		const batch = 40
		for lo := 0; lo < len(faults); lo += batch {
			idx++
			if !rec.Mine(idx) || tooMany() {
				continue
			}
			hi := min(lo+batch, len(faults))
			keys := make([]string, hi-lo)
			for i := range keys {
				keys[i] = fmt.Sprintf("small/file/%s/%d", eol, lo+i)
			}
			rec.EvalN(int64(hi - lo))
			for i, m := range judgeFiles(faults[lo:hi], keys) {
				if m != "" {
					complete = false
					rec.Direct("json-small", rawCase{Mode: "file", Data: faults[lo+i]}, "%s", m)
				}
			}
			for i, data := range faults[lo:hi] {
				for _, mode := range []string{"pipe", "stdinfile"} {
					if mode == "stdinfile" && (lo+i)%4 != 0 {
						continue
					}
					rec.Eval()
					if m := judgeJSON(mode, nil, data, noteJSON(fmt.Sprintf("small/%s/%s/%d", mode, eol, lo+i), mode, nil, data)); m != "" {
						complete = false
						rec.Direct("json-small", rawCase{Mode: mode, Data: data}, "%s", m)
					}
				}
			}
		}
	}
	rec.Exhaustive("json: every truncation, deleted byte and illegal byte at every token boundary of a small two-document stream x LF/CRLF/CR x pipe/file", complete)

	// (E3) bytes a reader might skip or reject at the very start, after
	// leading white space or between two documents, before a valid stream
	// and before a stream with a later fault; U+FEFF inside a string (valid)
	complete = true
	faultyDoc := strings.Replace(smallDoc, "true", "tru", 1)
	for _, eol := range eols {
		for bi, base := range []string{smallDoc, faultyDoc, strings.Replace(faultyDoc, "漢字", "漢\ufeff字", 1)} {
			doc := withEOL(base, eol)
			first := strings.Index(doc, "{") // start of the second document
			nl := withEOL("\n", eol)
			for pi, pre := range append([]string{""}, jsonPrefixes...) {
				if (pre == "") != (bi == 2) {
					continue // the third base carries its mark inside a string and gets no prefix
				}
				for ai, data := range []string{pre + doc, " " + nl + " " + pre + doc, doc[:first] + pre + doc[first:]} {
					if pre == "" && ai > 0 {
						continue
					}
					for mi, m := range []struct {
						mode  string
						flags []string
					}{{"pipe", nil}, {"pipe", []string{"--stream"}}, {"pipe", []string{"--slurp"}}, {"inputs", nil}, {"file", nil}, {"file", []string{"--stream"}},
						{"stdinfile", nil}, {"slurpfile", nil}, {"argjson", nil}, {"import", nil}} {
						idx++
						if !rec.Mine(idx) || tooMany() {
							continue
						}
						rec.Eval()
						c := rawCase{Mode: m.mode, Flags: m.flags, Data: []byte(data)}
						if msg := judgeJSON(m.mode, m.flags, c.Data, noteJSON(fmt.Sprintf("prefix/%s/%d/%d/%d/%d", eol, bi, pi, ai, mi), m.mode, m.flags, c.Data)); msg != "" {
							complete = false
							rec.Direct("json-raw", c, "%s", msg)
						}
					}
				}
			}
		}
	}
	rec.Exhaustive("json: 6 skippable / rejectable byte prefixes (BOM, FE FF, FF FE, NUL, NBSP, ZWSP) at the start, after white space and between two documents of a valid and of a faulty small stream, and U+FEFF inside a string x LF/CRLF/CR x 10 transports", complete)

	// (E2) the offending byte swept over the offsets where the command's
	// windows change (file: skip loop at 12288 + k*16384 and 20480 + k*16384;
	// pipe: buffer reset after 16 KiB).
	radius, step := 10, 1
	bases := []int{12288, 16384, 20480, 28672, 32768, 36864, 49152, 53248}
	if rec.Thorough() {
		radius = 90
		bases = append(bases, 45056, 61440, 65536, 69632, 77824)
	}
	var targets []int
	for _, b := range bases {
		for d := -radius; d <= radius; d += step {
			targets = append(targets, b+d)
		}
	}
	for tg := 13000; tg < 80000; tg += 997 {
		targets = append(targets, tg)
	}
	complete = true
	for _, layout := range []string{"lines", "lines-eof", "docs", "docs-far", "longline", "mbwindow"} {
		for _, eol := range eols {
			var batchData [][]byte
			var batchCases []sweepCase
			flush := func() {
				if len(batchData) == 0 {
					return
				}
				keys := make([]string, len(batchData))
				for i, c := range batchCases {
					keys[i] = fmt.Sprintf("sweep/%v", c)
				}
				rec.EvalN(int64(len(batchData)))
				for i, m := range judgeFiles(batchData, keys) {
					if m != "" {
						complete = false
						rec.Direct("json-sweep", batchCases[i], "%s", m)
					}
				}
				batchData, batchCases = nil, nil
			}
			for _, tg := range targets {
				idx++
				if !rec.Mine(idx) || tooMany() {
					continue
				}
				for _, mode := range []string{"file", "pipe"} {
					c := sweepCase{Mode: mode, EOL: eol, Layout: layout, Target: tg}
					data := c.build()
					if data == nil {
						continue
					}
					if mode == "file" {
						batchData, batchCases = append(batchData, data), append(batchCases, c)
						if len(batchData) >= 16 {
							flush()
						}
						continue
					}
					rec.Eval()
					if m := judgeJSON(mode, nil, data, noteJSON(fmt.Sprintf("sweep/%v", c), mode, nil, data)); m != "" {
						complete = false
						rec.Direct("json-sweep", c, "%s", m)
					}
				}
			}
			flush()
		}
	}
	rec.Exhaustive(fmt.Sprintf("json: offending byte at every offset within %d of the window boundaries %v (and every 997th offset up to 80000) x 6 layouts x LF/CRLF/CR x pipe/file", radius, bases), complete)

	// (R) random JSON cases
	rec.Rapid(t, "json", rec.Scale(7000, 110000), func(t *rapid.T) {
		c := genJSONCase(t)
		rec.Eval()
		rec.Sample(c)
		data := c.build()
		rec.Class("json/eol/" + c.EOL)
		rec.Class("json/fault/" + c.Fault.Kind)
		if m := judgeJSON(c.Mode, c.Flags, data, noteJSON(fmt.Sprintf("json/%v", c), c.Mode, c.Flags, data)); m != "" {
			t.Fatalf("%s", rec.Fail("json", c, "%s", m))
		}
	})

	// YAML: every fault kind x position x line end x transport on a small
	// stream, then random cases
	complete = true
	for _, kind := range yamlFaultKinds {
		if kind == "insert" || kind == "truncate" {
			continue
		}
		for _, eol := range eols {
			for _, docs := range []int{0, 2} {
				for _, entry := range []int{0, 2, 5} {
					for _, key := range []string{"", `"キー é"`} {
						for _, chars := range []string{"ascii", "cjk"} {
							for _, mode := range []string{"pipe", "file", "stdinfile"} {
								idx++
								if !rec.Mine(idx) || tooMany() {
									continue
								}
								c := yamlCase{Mode: mode, EOL: eol, Docs: docs, Entries: 4, Width: 12, Chars: chars, Seed: uint64(entry*31 + docs), Fault: yfault{Kind: kind, Entry: entry, Key: key}}
								rec.Eval()
								if m := judgeYAML(c, noteYAML(fmt.Sprintf("yaml/%v", c), c)); m != "" {
									complete = false
									rec.Direct("yaml-kinds", c, "%s", m)
								}
							}
						}
					}
				}
			}
		}
	}
	rec.Exhaustive("yaml: 19 fault kinds x 3 positions x 2 key forms x 2 alphabets x 0/2 preceding documents x LF/CRLF/CR x pipe/file/stdin-file", complete)

	rec.Rapid(t, "yaml", rec.Scale(3200, 50000), func(t *rapid.T) {
		c := yamlCase{
			Mode:  rapid.SampledFrom([]string{"pipe", "pipe", "file", "file", "stdinfile"}).Draw(t, "mode"),
			Slurp: rapid.IntRange(0, 7).Draw(t, "slurp") == 0,
			EOL:   rapid.SampledFrom([]string{"lf", "lf", "crlf", "cr", "mixed"}).Draw(t, "eol"),
			Docs:  rapid.SampledFrom([]int{0, 0, 1, 2, 5}).Draw(t, "docs"),
			Chars: rapid.SampledFrom([]string{"ascii", "ascii", "ascii", "latin", "cjk", "mix"}).Draw(t, "chars"),
			Seed:  rapid.Uint64Range(0, 1<<40).Draw(t, "seed"),
		}
		switch rapid.IntRange(0, 5).Draw(t, "size") {
		case 0:
			c.Entries, c.Width = rapid.IntRange(1, 4).Draw(t, "entries"), rapid.IntRange(1, 10).Draw(t, "width")
		case 1, 2:
			c.Entries, c.Width = rapid.IntRange(4, 40).Draw(t, "entries"), rapid.IntRange(5, 90).Draw(t, "width")
		case 3:
			c.Entries, c.Width = rapid.IntRange(100, 500).Draw(t, "entries"), rapid.IntRange(10, 40).Draw(t, "width")
		case 4:
			c.Entries, c.Width = rapid.IntRange(2, 10).Draw(t, "entries"), rapid.IntRange(100, 3000).Draw(t, "width")
		default:
			c.Entries, c.Width, c.Docs = rapid.IntRange(500, 1200).Draw(t, "entries"), rapid.IntRange(10, 30).Draw(t, "width"), min(c.Docs, 1)
		}
		c.Fault.Kind = rapid.SampledFrom(yamlFaultKinds).Draw(t, "kind")
		c.Fault.Entry = biasedIndex(t, "entry", c.Entries+1)
		if rapid.IntRange(0, 3).Draw(t, "mbkey") == 0 {
			c.Fault.Key = rapid.SampledFrom([]string{`"キー"`, `"é"`, `"😀 k"`, "plain key"}).Draw(t, "key")
		}
		if c.Fault.Kind == "invalid-utf8" {
			c.Fault.At = rapid.IntRange(0, len(yamlBadBytes)-1).Draw(t, "badbytes")
		}
		if c.Fault.Kind == "insert" || c.Fault.Kind == "truncate" {
			c.Fault.At = rapid.IntRange(0, c.Entries*(c.Width+12)).Draw(t, "at")
			c.Fault.Text = rapid.SampledFrom([]string{"@", "`", "\"", "'", "[", "{", "}", "]", ": ", "\t", "%", "&", "*", "!", "|", ">", "- ", "? ", "\n  ", " #"}).Draw(t, "text")
		}
		rec.Eval()
		rec.Sample(c)
		rec.Class("yaml/eol/" + c.EOL)
		if m := judgeYAML(c, noteYAML(fmt.Sprintf("yaml/%v", c), c)); m != "" {
			t.Fatalf("%s", rec.Fail("yaml", c, "%s", m))
		}
	})

	// queries, library level: every truncation and every always-illegal
	// lexeme at every lexeme boundary of three fixed multi-line programs
	complete = true
	for qi, q := range fixedQueries {
		for _, eol := range eols {
			src := withEOL(q, eol)
			bounds, _ := scanQuery(src)
			var cases []queryCase
			for i := 1; i < len(src); i++ {
				if src[i]&0xC0 != 0x80 {
					cases = append(cases, queryCase{Src: src[:i], ExpStart: -1})
				}
			}
			for _, at := range bounds {
				for _, lex := range illegalLexemes {
					cases = append(cases, insertLexeme(src, at, lex))
				}
				for _, seq := range illFormed {
					cases = append(cases, insertIllFormed(src, at, seq))
				}
			}
			for ci, c := range cases {
				idx++
				if !rec.Mine(idx) || tooMany() {
					continue
				}
				c.Mode = "lib"
				// a sample of them goes through the command as well
				modes := []string{"lib"}
				if ci%7 == 0 || rec.Thorough() {
					modes = append(modes, []string{"arg", "file", "import", "include", "home"}[(ci/7)%5])
				}
				for _, mode := range modes {
					if mode != "lib" && mode != "arg" && mode != "file" && qi != 1 {
						mode = "file" // only the second program is a list of definitions plus a query
					}
					if (mode == "import" || mode == "include" || mode == "home") && !strings.HasPrefix(c.Src, "def") {
						mode = "file"
					}
					c.Mode = mode
					rec.Eval()
					if m := judgeQuery(c, noteQuery(fmt.Sprintf("qexh/%d/%s/%d/%s", qi, eol, ci, mode), c)); m != "" {
						complete = false
						rec.Direct("query-exh", c.portable(), "%s", m)
					}
				}
			}
		}
	}
	rec.Exhaustive("query: every truncation, 16 always-illegal lexemes and 12 ill-formed UTF-8 sequences at every lexeme boundary of 3 multi-line programs x LF/CRLF/CR (library; every 7th also through the command)", complete)

	// colons after variables and identifiers at every lexeme boundary of the
	// fixed programs: library (Token law, same verdict and token as the
	// blank-separated spelling), every 5th also through the command
	complete = true
	for qi, q := range fixedQueries {
		for _, eol := range eols {
			src := withEOL(q, eol)
			bounds, _ := scanQuery(src)
			for bi, at := range bounds {
				for fi, f := range colonFrags {
					idx++
					if !rec.Mine(idx) || tooMany() {
						continue
					}
					c, verdict := colonCase(src, at, f)
					if verdict == "skip" {
						rec.Discard("query/colons-no-expectation")
						continue
					}
					rec.Eval()
					if verdict == "valid" {
						rec.Class("query/colons/accepted-like-the-spaced-spelling")
						if r := refParse(c.Src); !r.valid {
							complete = false
							c.Mode = "lib"
							rec.Direct("query-colons", c, "rejected (%s at offset %d) although the same tokens separated by blanks are accepted", r.msg, r.offset)
						}
						continue
					}
					modes := []string{"lib"}
					if (bi+fi)%5 == 0 || rec.Thorough() {
						modes = append(modes, []string{"arg", "file"}[(bi+fi)/5%2])
					}
					for _, mode := range modes {
						c.Mode = mode
						if mode != "lib" {
							rec.Eval()
						}
						if refParse(c.Src).valid {
							complete = false
							rec.Direct("query-colons", c, "accepted although the same tokens separated by blanks are rejected at byte %d (%q)", c.ExpStart, c.ExpToken)
							break
						}
						if m := judgeQuery(c, noteQuery(fmt.Sprintf("qcolon/%d/%s/%d/%d/%s", qi, eol, bi, fi, mode), c)); m != "" {
							complete = false
							rec.Direct("query-colons", c, "%s", m)
						}
					}
				}
			}
		}
	}
	rec.Exhaustive(fmt.Sprintf("query: %d fragments with colons after variables / identifiers at every lexeme boundary of 3 multi-line programs x LF/CRLF/CR, against the blank-separated spelling", len(colonFrags)), complete)

	// ill-formed UTF-8 where a token is expected: 12 sequences x 12 contexts
	// (0..3 ASCII tokens, multi-byte characters and ill-formed bytes in
	// strings and comments before it, one line and several lines, a line
	// longer than the excerpt) x 3 continuations x library / <arg> / -f
	complete = true
	for pi, prefix := range illPrefixes {
		for _, seq := range illFormed {
			for si, suffix := range []string{" | .b", " .b\n| .c", " | \"後\" # 終\r\n| .d", " \n| .c", "", "\n| .c", "\r\n| .c"} {
				for _, mode := range []string{"lib", "arg", "file"} {
					idx++
					if !rec.Mine(idx) || tooMany() {
						continue
					}
					c := queryCase{Mode: mode, Src: prefix + seq + suffix, ExpStart: len(prefix), ExpToken: seq[:1]}
					rec.Eval()
					if m := judgeQuery(c, noteQuery(fmt.Sprintf("qill/%d/%x/%d/%s", pi, seq, si, mode), c)); m != "" {
						complete = false
						rec.Direct("query-illformed", c.portable(), "%s", m)
					}
				}
			}
		}
	}
	// ill-formed bytes inside a string literal directly (or one character)
	// before an invalid escape sequence
	for pi, prefix := range illPrefixes {
		for bi, bad := range []string{"\xc3", "\xe3\x81", "\xff", "\x80", "é\x80", "\xc3x", "\xff é", ""} {
			for _, esc := range [][2]string{{`\q`, `\q`}, {`\x41`, `\x`}} {
				for _, mode := range []string{"lib", "arg", "file"} {
					idx++
					if !rec.Mine(idx) || tooMany() {
						continue
					}
					lit := "\"ab" + bad
					c := queryCase{Mode: mode, Src: prefix + lit + esc[0] + "cd\" | .b", ExpStart: len(prefix) + len(lit), ExpToken: esc[1]}
					rec.Eval()
					if m := judgeQuery(c, noteQuery(fmt.Sprintf("qadj/%d/%d/%s/%s", pi, bi, esc[0], mode), c)); m != "" {
						complete = false
						rec.Direct("query-illformed", c.portable(), "%s", m)
					}
				}
			}
		}
	}
	rec.Exhaustive("query: 12 ill-formed UTF-8 sequences where a token is expected x 12 contexts x 7 continuations, and 8 ill-formed / valid tails of a string before an invalid escape x 12 contexts x library / <arg> / -f", complete)

	rec.Rapid(t, "query-lib", rec.Scale(36000, 1500000), func(t *rapid.T) {
		c := genQueryCase(t, []string{"lib"})
		rec.Eval()
		rec.Sample(c.portable())
		if m := judgeQuery(c, noteQuery("qlib/"+c.Src, c)); m != "" {
			t.Fatalf("%s", rec.Fail("query-lib", c.portable(), "%s", m))
		}
	})
	rec.Rapid(t, "query-cli", rec.Scale(4000, 60000), func(t *rapid.T) {
		c := genQueryCase(t, []string{"arg", "arg", "file", "file", "import", "include", "home"})
		rec.Eval()
		rec.Sample(c.portable())
		if m := judgeQuery(c, noteQuery("qcli/"+c.Mode+"/"+c.Src, c)); m != "" {
			t.Fatalf("%s", rec.Fail("query-cli", c.portable(), "%s", m))
		}
	})
}

func noteYAML(key string, c yamlCase) func(r yamlRef, w want, known string) {
	return func(r yamlRef, w want, known string) {
		if known != "" {
			return
		}
		rec.Class("yaml/mode/" + c.Mode)
		rec.Class("yaml/fault/" + c.Fault.Kind)
		if !r.positioned || w.Pos < 0 {
			rec.Class("yaml/err/no-position-from-library")
			return
		}
		rec.Class("yaml/docs-before/" + fmt.Sprint(min(r.docs, 3)))
		lc := lineClass(w)
		rec.Class("yaml/line/" + lc)
		if w.Line > 1 {
			rec.Class("yaml/line-number/>1")
		} else {
			rec.Class("yaml/line-number/1")
		}
		if known == "" && (w.Line > 1 || lc != "short-ascii") {
			rec.NT(key)
		}
	}
}
