package c17

// The position oracle: everything here is computed from the whole byte stream
// and the absolute index of the offending byte, never from gojq's own window,
// offset or line bookkeeping.

import (
	"bytes"
	"fmt"
	"strconv"
	"strings"
	"unicode/utf8"

	"github.com/mattn/go-runewidth"
)

// Terminal model: a non-East-Asian locale (the command is started with
// LANG=C RUNEWIDTH_EASTASIAN=0), tab stops every 8 columns.
var wcond = &runewidth.Condition{EastAsianWidth: false, StrictEmojiNeutral: true}

// want is the true location of the offending byte.
type want struct {
	Line int    // 1-based line number within the whole input
	Text []byte // that line, without its terminator
	Pos  int    // byte index of the offending character in Text; len(Text): the line terminator or the end of input
}

// termLen returns the length of the line terminator starting at b[i] (0 if none).
func termLen(b []byte, i int) int {
	switch b[i] {
	case '\n':
		return 1
	case '\r':
		if i+1 < len(b) && b[i+1] == '\n' {
			return 2
		}
		return 1
	}
	return 0
}

// locate finds the line of byte p (0-based) of input; lines end with LF, CRLF
// or a lone CR and a terminator belongs to the line it ends.  p == len(input)
// denotes the end of input: it is reported on the line of the last byte, after
// the last character of that line.
func locate(input []byte, p int) want {
	eof := p >= len(input)
	if eof {
		p = len(input) - 1
	}
	if p < 0 {
		return want{Line: 1}
	}
	line, start := 1, 0
	for i := 0; i < len(input); {
		n := termLen(input, i)
		if n == 0 {
			i++
			continue
		}
		if p < i+n { // inside this line or its terminator
			w := want{Line: line, Text: input[start:i], Pos: p - start}
			if w.Pos > i-start || eof {
				w.Pos = i - start
			}
			return w
		}
		i += n
		start = i
		line++
	}
	w := want{Line: line, Text: input[start:], Pos: p - start}
	if eof {
		w.Pos = len(w.Text)
	}
	return w
}

func hasLoneCR(b []byte) bool {
	for i := 0; i < len(b); i++ {
		if b[i] == '\r' && (i+1 >= len(b) || b[i+1] != '\n') {
			return true
		}
	}
	return false
}

// strWidth is the display width of s as a piece of a longer line: go-runewidth
// measures it with four ASCII characters appended, which are then taken off
// again.  For well-formed text that changes nothing; ill-formed UTF-8 (which
// the command prints as it is) is thereby counted the way the library counts
// it in the middle of a line -- one column per ill-formed byte, one column
// for a truncated or surrogate-shaped sequence -- and not the way it counts
// an incomplete sequence at the very end of its argument (as nothing,
// together with the characters that follow its lead byte).
func strWidth(s string) int {
	return wcond.StringWidth(s+"xxxx") - 4
}

// termCol is the terminal column reached after printing s from column 0.
func termCol(s string) int {
	col := 0
	for {
		i := strings.IndexByte(s, '\t')
		if i < 0 {
			return col + strWidth(s)
		}
		col += strWidth(s[:i])
		col = (col/8 + 1) * 8
		s = s[i+1:]
	}
}

// report is one parsed three-line error block of the command.
type report struct {
	Head    string // text after the "gojq: invalid xxx: " introduction on the first line
	Line    int    // printed line number, 0 when the one-line form (no number) is used
	Prefix  string // what precedes the excerpt on the second line
	Excerpt string
	Caret   string // the third line up to the caret
	Msg     string
}

// parseBlocks splits stderr into error blocks.  intro is e.g. "gojq: invalid
// json: "; heads lists, per expected block, the text that follows the intro
// before an optional ":<line>" (the file name, or the query for the one-line
// form).
func parseBlocks(stderr, intro string, heads []string) ([]report, string) {
	lines := strings.Split(stderr, "\n")
	if len(lines) > 0 && lines[len(lines)-1] == "" {
		lines = lines[:len(lines)-1]
	}
	if len(lines) != 3*len(heads) {
		return nil, fmt.Sprintf("expected %d error block(s) of three lines, stderr has %d lines", len(heads), len(lines))
	}
	var out []report
	for i, head := range heads {
		l1, l2, l3 := lines[3*i], lines[3*i+1], lines[3*i+2]
		if !strings.HasPrefix(l1, intro+head) {
			return nil, fmt.Sprintf("block %d does not start with %q", i, intro+head)
		}
		r := report{Head: head}
		rest := l1[len(intro+head):]
		switch {
		case rest == "":
			r.Prefix = "    "
		case rest[0] == ':':
			n, err := strconv.Atoi(rest[1:])
			if err != nil || n < 1 || strconv.Itoa(n) != rest[1:] {
				return nil, fmt.Sprintf("block %d: bad line number %q", i, rest)
			}
			r.Line = n
			r.Prefix = "    " + rest[1:] + " | "
		default:
			return nil, fmt.Sprintf("block %d: unexpected header tail %q", i, rest)
		}
		if !strings.HasPrefix(l2, r.Prefix) {
			return nil, fmt.Sprintf("block %d: second line %q does not start with %q", i, l2, r.Prefix)
		}
		r.Excerpt = l2[len(r.Prefix):]
		k := strings.IndexByte(l3, '^')
		if k < 0 || strings.Trim(l3[:k], " \t") != "" {
			return nil, fmt.Sprintf("block %d: no caret line: %q", i, l3)
		}
		r.Caret = l3[:k]
		if !strings.HasPrefix(l3[k+1:], "  ") {
			return nil, fmt.Sprintf("block %d: caret not followed by the message: %q", i, l3)
		}
		r.Msg = l3[k+3:]
		out = append(out, r)
	}
	return out, ""
}

func clip(b []byte) string {
	if len(b) > 160 {
		return fmt.Sprintf("%q...(%d bytes)", b[:160], len(b))
	}
	return fmt.Sprintf("%q", b)
}

// compare checks the three invariants of the property for one block.
func compare(r report, w want) string {
	// (1) line number
	if r.Line == 0 {
		if w.Line != 1 {
			return fmt.Sprintf("no line number printed although the offending byte is on line %d (excerpt %q)", w.Line, r.Excerpt)
		}
	} else if r.Line != w.Line {
		return fmt.Sprintf("printed line %d, the offending byte is on line %d (true line %s, excerpt %q)", r.Line, w.Line, clip(w.Text), r.Excerpt)
	}
	// (2) the excerpt is a piece of the true line that contains the offending character
	e := []byte(r.Excerpt)
	atEnd := w.Pos == len(w.Text)
	var offCh []byte
	offW := 1
	if !atEnd {
		_, n := utf8.DecodeRune(w.Text[w.Pos:])
		offCh = w.Text[w.Pos : w.Pos+n]
		if ww := strWidth(string(offCh)); ww > 1 {
			offW = ww
		}
	}
	if utf8.Valid(w.Text) && !utf8.Valid(e) {
		return fmt.Sprintf("excerpt %q cuts a multi-byte character of the line %s", r.Excerpt, clip(w.Text))
	}
	caretCol := termCol(r.Caret)
	why := fmt.Sprintf("excerpt %q is not a piece of the true line %s (line %d)", r.Excerpt, clip(w.Text), w.Line)
	if atEnd {
		// an input cut in the middle of a multi-byte character: the incomplete
		// character at the very end may be left out of the quoted line
		if t := trimPartialRune(w.Text); len(t) != len(w.Text) && bytes.HasSuffix(t, e) {
			w.Text = t
			w.Pos = len(t)
		}
	}
	for s := 0; s+len(e) <= len(w.Text); s++ {
		if !bytes.Equal(w.Text[s:s+len(e)], e) {
			continue
		}
		k := w.Pos - s
		if k < 0 || k > len(e) || (k == len(e) && !atEnd) || k+len(offCh) > len(e) {
			why = fmt.Sprintf("excerpt %q (bytes %d..%d of line %d) does not contain the offending character %q at byte %d of the line", r.Excerpt, s, s+len(e), w.Line, offCh, w.Pos)
			continue
		}
		// (3) caret under the offending character, in terminal columns
		col := termCol(r.Prefix + r.Excerpt[:k])
		if caretCol >= col && caretCol < col+offW {
			return ""
		}
		what := fmt.Sprintf("%q", offCh)
		if atEnd {
			what = "the end of the line"
		}
		why = fmt.Sprintf("caret in terminal column %d, the offending character %s (byte %d of line %d) is displayed in column %d: second line %q", caretCol, what, w.Pos, w.Line, col, r.Prefix+r.Excerpt)
	}
	return why
}

// trimPartialRune removes an incomplete UTF-8 sequence from the end of b.
func trimPartialRune(b []byte) []byte {
	for i := len(b) - 1; i >= 0 && i >= len(b)-3; i-- {
		if utf8.RuneStart(b[i]) {
			if b[i] >= 0xC0 && !utf8.FullRune(b[i:]) {
				return b[:i]
			}
			break
		}
	}
	return b
}

// illFormedAt: b[i] is a byte of ill-formed UTF-8 (it decodes as a
// one-byte error).
func illFormedAt(b []byte, i int) bool {
	if i >= len(b) || b[i] < utf8.RuneSelf {
		return false
	}
	r, n := utf8.DecodeRune(b[i:])
	return r == utf8.RuneError && n == 1
}

// knownIllFormed names the known-finding class of a location that involves
// ill-formed UTF-8 ("" if none); both predicates are about the bytes of the
// true line around the offending byte only.
func knownIllFormed(w want) string {
	if w.Pos < 0 || w.Pos > len(w.Text) {
		return ""
	}
	// C17.F8: decided from the bytes of the true line immediately before the
	// offending byte alone, whatever the offending character is (a visible
	// character, a control character, LF / CR / CRLF, the end of input).
	// One shape stays judged: a line that ends in exactly one incomplete
	// character preceded by clean text (an input cut in the middle of a
	// character); the command leaves that character out of the excerpt and
	// puts the caret at its end, which compare accepts.
	if w.Pos > 0 && knownClass("C17/illformed-adjacent") && illFormedBefore(w.Text[:w.Pos]) {
		clean := false
		if w.Pos == len(w.Text) {
			if t := trimPartialRune(w.Text); len(t) != len(w.Text) && !illFormedBefore(t) {
				clean = true
			}
		}
		if !clean {
			return "C17/illformed-adjacent"
		}
	}
	// C17.F9: the offending byte is ill-formed and nothing but ill-formed
	// bytes follow it up to the line terminator or the end of the text
	if w.Pos < len(w.Text) && knownClass("C17/illformed-at-line-end") {
		all := true
		for i := w.Pos; i < len(w.Text); i++ {
			if !illFormedAt(w.Text, i) {
				all = false
				break
			}
		}
		if all {
			return "C17/illformed-at-line-end"
		}
	}
	return ""
}

// illFormedBefore: pre ends in ill-formed UTF-8 -- its last byte is an
// ill-formed byte, or the lead byte of an incomplete sequence stands within
// its last three bytes and the nominal length of that sequence reaches or
// passes the end of pre.
func illFormedBefore(pre []byte) bool {
	if len(pre) == 0 {
		return false
	}
	if r, n := utf8.DecodeLastRune(pre); r == utf8.RuneError && n == 1 {
		return true
	}
	for i := max(len(pre)-3, 0); i < len(pre); i++ {
		need := 0
		switch c := pre[i]; {
		case c >= 0xF0 && c <= 0xF7:
			need = 4
		case c >= 0xE0 && c <= 0xEF:
			need = 3
		case c >= 0xC2 && c <= 0xDF:
			need = 2
		}
		if need > 0 && i+need > len(pre) {
			return true
		}
	}
	return false
}
