package c17

// YAML inputs.  The yaml library reports a mark (line, column in characters);
// that mark is taken as "the offending character" and everything else (line
// text, byte position, display column, excerpt) is recomputed here.

import (
	"bytes"
	"errors"
	"fmt"
	"io"
	"strconv"
	"strings"
	"unicode/utf8"

	"github.com/itchyny/go-yaml"
)

type yfault struct {
	Kind  string `json:"kind"`
	Entry int    `json:"entry"`          // the faulty entry is put before this top-level entry of the last document
	Key   string `json:"key,omitempty"`  // key of the faulty entry ("" = generated marker)
	At    int    `json:"at,omitempty"`   // byte-level faults: offset inside the last document
	Text  string `json:"text,omitempty"` // byte-level faults: inserted text
}

type yamlCase struct {
	Mode    string `json:"mode"` // pipe | file | stdinfile
	Slurp   bool   `json:"slurp,omitempty"`
	EOL     string `json:"eol"`
	Docs    int    `json:"docs"`    // valid documents before the faulty one
	Entries int    `json:"entries"` // top-level entries per document
	Width   int    `json:"width"`
	Chars   string `json:"chars"`
	Seed    uint64 `json:"seed"`
	Fault   yfault `json:"fault"`
}

var (
	ysPlainASCII = strings.Split("a b c d e f g h i j k l m n o p q r s t u v w x y z A B Z 0 1 2 7 9 _ . ; ( ) / + = ~ ^ $", " ")
	ysQuoted     = strings.Split("a b c d e k q z A Z 0 9 : # - [ ] { } , & * ! | > % @ ` ? = _", " ")
)

func ytext(p *prng, chars string, n int, quoted bool) string {
	var sb strings.Builder
	sb.WriteString(pickS(p, []string{"a", "b", "x", "T", "q"}))
	for sb.Len() < n {
		set := ysPlainASCII
		if quoted {
			set = ysQuoted
		}
		switch chars {
		case "latin":
			if p.intn(3) == 0 {
				set = csLatin
			}
		case "cjk":
			if p.intn(2) == 0 {
				set = csCJK
			}
		case "mix":
			switch p.intn(8) {
			case 0:
				set = csLatin
			case 1, 2:
				set = csCJK
			case 3:
				set = csEmoji
			}
		}
		if p.intn(6) == 0 {
			sb.WriteString(" ")
		}
		sb.WriteString(pickS(p, set))
	}
	return strings.TrimRight(sb.String(), " ") + "z"
}

// yamlEntry returns the lines of one valid top-level mapping entry.
func yamlEntry(p *prng, c yamlCase, key string) []string {
	w := max(c.Width, 1)
	switch p.intn(12) {
	case 0:
		return []string{key + ": " + strconv.Itoa(p.intn(100000))}
	case 1:
		return []string{key + `: "` + ytext(p, c.Chars, w, true) + `"`}
	case 2:
		return []string{key + `: '` + ytext(p, c.Chars, w, true) + `'`}
	case 3:
		return []string{key + `: [1, "` + ytext(p, c.Chars, w/2, true) + `", {b: c}, [2, 3]]`}
	case 4:
		out := []string{key + ":"}
		for i, n := 0, 1+p.intn(4); i < n; i++ {
			out = append(out, "  - "+ytext(p, c.Chars, w, false))
		}
		return out
	case 5:
		out := []string{key + ":"}
		for i, n := 0, 1+p.intn(4); i < n; i++ {
			out = append(out, fmt.Sprintf("  s%d: %s", i, ytext(p, c.Chars, w, false)))
		}
		return out
	case 6:
		out := []string{key + ": |"}
		for i, n := 0, 1+p.intn(3); i < n; i++ {
			out = append(out, "  "+ytext(p, c.Chars, w, true))
		}
		return out
	case 7:
		return []string{"# " + ytext(p, c.Chars, w, true), key + ": {a: 1, b: [x, y]}"}
	case 8:
		return []string{`"` + key + " " + ytext(p, c.Chars, 4, false) + `": ` + ytext(p, c.Chars, w, false)}
	default:
		return []string{key + ": " + ytext(p, c.Chars, w, false)}
	}
}

var yamlFaultKinds = []string{"flow-seq-open", "flow-map-open", "flow-mismatch", "bad-start-char", "dquote-open", "squote-open",
	"flow-deep", "over-indent", "tab-indent", "dup-key", "complex-key", "seq-in-map", "bad-escape", "colon-in-plain", "bad-anchor-char",
	"unknown-alias", "bad-binary", "bad-merge", "invalid-utf8", "insert", "truncate"}

var yamlBadBytes = []string{"\xc3", "\xff", "\x80", "\xe3\x81", "\xed\xa0\x80"}

// faultEntry returns the lines of the faulty entry.
func faultEntry(c yamlCase, key, first string) []string {
	switch c.Fault.Kind {
	case "invalid-utf8": // the input itself is valid YAML but for the ill-formed bytes
		return []string{key + ": \"k" + yamlBadBytes[max(c.Fault.At, 0)%len(yamlBadBytes)] + "(\""}
	case "flow-seq-open":
		return []string{key + ": [1, 2"}
	case "flow-map-open":
		return []string{key + ": {a: 1, b: 2"}
	case "flow-deep":
		p := &prng{s: c.Seed ^ 99}
		return []string{key + `: ["` + ytext(p, c.Chars, c.Width, true) + `", {a: "` + ytext(p, c.Chars, c.Width/2, true) + `"}, [1, 2`}
	case "flow-mismatch":
		return []string{key + ": [1, [2, {a: 3}], {b: [4, 5}]"}
	case "bad-start-char":
		return []string{key + ": @text"}
	case "dquote-open":
		return []string{key + `: "abc`}
	case "squote-open":
		return []string{key + `: 'abc`}
	case "over-indent":
		return []string{key + ": 1", "   " + key + "x: 2"}
	case "tab-indent":
		return []string{key + ":", "\tsub: 1"}
	case "dup-key":
		return []string{first + ": 2"}
	case "complex-key":
		return []string{"? [1, 2]", ": " + key}
	case "seq-in-map":
		return []string{"- " + key}
	case "bad-escape":
		return []string{key + `: "ab\qcd"`}
	case "colon-in-plain":
		return []string{key + ": a: b"}
	case "bad-anchor-char":
		return []string{key + ": &* x"}
	case "unknown-alias":
		return []string{key + ": *nope"}
	case "bad-binary":
		return []string{key + `: !!binary "@@@"`}
	case "bad-merge":
		return []string{"<<: 1", key + ": 1"}
	}
	return nil
}

// build returns the input and, for fault kinds whose library error carries no
// position, the 1-based line the fault was put on (0 otherwise).
func (c yamlCase) build() (data []byte, faultLine int) {
	p := &prng{s: c.Seed}
	eol := &eolGen{kind: c.EOL, p: &prng{s: c.Seed ^ 77}}
	var lines []string
	n := max(c.Entries, 1)
	for d := 0; d <= c.Docs; d++ {
		if d > 0 || p.intn(3) == 0 {
			lines = append(lines, "---")
		}
		docStart := len(lines)
		first := fmt.Sprintf("k%d_0", d)
		for e := 0; e < n; e++ {
			if d == c.Docs && e == min(max(c.Fault.Entry, 1), n) {
				key := c.Fault.Key
				if key == "" {
					key = fmt.Sprintf("f%d", d)
				}
				fl := faultEntry(c, key, first)
				if fl != nil {
					faultLine = len(lines) + 1
				}
				lines = append(lines, fl...)
			}
			lines = append(lines, yamlEntry(p, c, fmt.Sprintf("k%d_%d", d, e))...)
		}
		if d == c.Docs && c.Fault.Entry >= n {
			if fl := faultEntry(c, "flast", first); fl != nil {
				faultLine = len(lines) + 1
				lines = append(lines, fl...)
			}
		}
		if d == c.Docs && (c.Fault.Kind == "insert" || c.Fault.Kind == "truncate") {
			// byte-level fault inside the last document
			var head, doc bytes.Buffer
			for _, l := range lines[:docStart] {
				head.WriteString(l)
				head.WriteString(eol.next())
			}
			for _, l := range lines[docStart:] {
				doc.WriteString(l)
				doc.WriteString(eol.next())
			}
			f := fault{Kind: c.Fault.Kind, At: c.Fault.At, Text: c.Fault.Text}
			out, _ := applyFault(doc.Bytes(), f)
			return append(head.Bytes(), out...), 0
		}
	}
	var out bytes.Buffer
	for _, l := range lines {
		out.WriteString(l)
		out.WriteString(eol.next())
	}
	return out.Bytes(), faultLine
}

type yamlRef struct {
	valid      bool
	positioned bool
	line, col  int // 1-based, col in characters
	index      int // character index reported by the library
	msg        string
	docs       int
}

func refYAML(data []byte) yamlRef {
	dec := yaml.NewDecoder(bytes.NewReader(data))
	var r yamlRef
	for {
		var v any
		err := dec.Decode(&v)
		if err == nil {
			r.docs++
			continue
		}
		if err == io.EOF {
			r.valid = true
			return r
		}
		r.msg = err.Error()
		var pe *yaml.ParserError
		var te *yaml.TypeError
		if errors.As(err, &pe) {
			r.line, r.col, r.index = pe.Line, pe.Column, pe.Index
			r.positioned = pe.Line > 0
		} else if errors.As(err, &te) {
			for _, e := range te.Errors {
				var ue *yaml.UnmarshalError
				if errors.As(e, &ue) {
					r.line, r.col, r.index = ue.Line, ue.Column, ue.Index
					r.positioned = ue.Line > 0
					break
				}
			}
		}
		return r
	}
}

// lineN returns the n-th (1-based) line of data and the offset of its first byte.
func lineN(data []byte, n int) (text []byte, start int, ok bool) {
	line := 1
	for i := 0; ; {
		j := i
		for j < len(data) && termLen(data, j) == 0 {
			j++
		}
		if line == n {
			return data[i:j], i, true
		}
		if j >= len(data) {
			return nil, 0, false
		}
		i = j + termLen(data, j)
		line++
	}
}

func checkYAML(c yamlCase) string { return judgeYAML(c, nil) }

func judgeYAML(c yamlCase, note func(r yamlRef, w want, known string)) string {
	data, faultLine := c.build()
	r := refYAML(data)
	if r.valid {
		rec.Discard("yaml/still-valid")
		return ""
	}
	var w want
	known := ""
	if !utf8.Valid(data) {
		// the reader rejects the input at its first ill-formed byte: that
		// byte is the offending one, whatever mark the library attaches
		if !strings.Contains(r.msg, "UTF-8") {
			rec.Discard("yaml/ill-formed-input-with-another-error")
			return ""
		}
		p := 0
		for !illFormedAt(data, p) {
			p++
		}
		w = locate(data, p)
		r.positioned, r.line = true, w.Line
		if knownClass("C17/yaml-invalid-utf8") {
			known = "C17/yaml-invalid-utf8"
		}
	} else if !r.positioned {
		// the library gives no position: only faults placed by construction can be judged
		if knownClass("C17/yaml-unpositioned") {
			known = "C17/yaml-unpositioned"
		} else if faultLine == 0 {
			rec.Discard("yaml/no-position-from-library")
			return ""
		}
		text, _, _ := lineN(data, max(faultLine, 1))
		w = want{Line: faultLine, Text: text, Pos: -1}
	} else {
		text, start, ok := lineN(data, r.line)
		if !ok {
			return fmt.Sprintf("oracle self-check: the library reports line %d, the input has fewer lines (%s)", r.line, r.msg)
		}
		pos := 0
		for k := 1; k < r.col && pos < len(text); k++ {
			_, n := utf8.DecodeRune(text[pos:])
			pos += n
		}
		w = want{Line: r.line, Text: text, Pos: pos}
		// cross-check of the library's own numbers: its character index must denote the same character
		if got := utf8.RuneCount(data[:start+pos]); got != r.index {
			// (seen at the end of the stream, where the library moves its
			// mark to a fresh line without advancing the index): only the
			// line number and the quoted line are judged
			rec.Class("yaml/library-index-disagrees-with-its-line-column")
			w.Pos = -1
		}
		if knownClass("C17/yaml-char-index") && !isASCII(runePrefix(data, r.index)) {
			known = "C17/yaml-char-index"
		} else if knownClass("C17/tab-column") && w.Pos >= 0 && bytes.IndexByte(text[:pos], '\t') >= 0 {
			known = "C17/tab-column"
		}
	}
	if known == "" && w.Pos >= 0 {
		known = knownIllFormed(w)
	}
	if note != nil {
		note(r, w, known)
	}
	if known != "" {
		rec.Excluded(known)
		return ""
	}
	args := []string{"--yaml-input"}
	if c.Slurp {
		args = append(args, "--slurp")
	}
	name := "<stdin>"
	var o runOpt
	switch c.Mode {
	case "pipe":
		o.stdin = data
		args = append(args, "empty")
	case "stdinfile":
		writeFile("in.yaml", data)
		o.stdinFile = "in.yaml"
		args = append(args, "empty")
	case "file":
		writeFile("in.yaml", data)
		name = "in.yaml"
		args = append(args, "empty", "in.yaml")
	default:
		return "bad mode " + c.Mode
	}
	res := runGojq(o, args...)
	if res.TimedOut {
		rec.Discard("cli-timeout")
		return ""
	}
	if res.Crashed() {
		return "gojq crashed: " + clip([]byte(res.Stderr))
	}
	if !r.positioned {
		// no position from the library: printing none is fine; a printed
		// line number must be the line of the fault
		if !strings.Contains(res.Stderr, "\n") || strings.Count(res.Stderr, "\n") < 3 {
			return ""
		}
		reps, msg := parseBlocks(res.Stderr, "gojq: invalid yaml: ", []string{name})
		if msg != "" {
			return fmt.Sprintf("%s; stderr %s", msg, clip([]byte(res.Stderr)))
		}
		if reps[0].Line != w.Line {
			return fmt.Sprintf("the library reports no position for %q; the command prints line %d, the fault is on line %d", r.msg, reps[0].Line, w.Line)
		}
		return ""
	}
	reps, msg := parseBlocks(res.Stderr, "gojq: invalid yaml: ", []string{name})
	if msg != "" {
		return fmt.Sprintf("%s; exit %d, stderr %s", msg, res.Exit, clip([]byte(res.Stderr)))
	}
	if w.Pos < 0 {
		if reps[0].Line != w.Line || !bytes.Contains(w.Text, []byte(reps[0].Excerpt)) {
			return fmt.Sprintf("printed line %d with excerpt %q; the library reports line %d: %s (%s)", reps[0].Line, reps[0].Excerpt, w.Line, clip(w.Text), r.msg)
		}
		return ""
	}
	if msg := compare(reps[0], w); msg != "" {
		return fmt.Sprintf("%s [mode %s, %d bytes, library mark line %d column %d: %s]", msg, c.Mode, len(data), r.line, r.col, r.msg)
	}
	return ""
}

func isASCII(b []byte) bool {
	for _, c := range b {
		if c >= utf8.RuneSelf {
			return false
		}
	}
	return true
}

// runePrefix returns the first n characters of b.
func runePrefix(b []byte, n int) []byte {
	i := 0
	for ; n > 0 && i < len(b); n-- {
		_, k := utf8.DecodeRune(b[i:])
		i += k
	}
	return b[:i]
}
