package c17

import (
	"bytes"
	"context"
	"errors"
	"os"
	"os/exec"
	"path/filepath"
	"time"

	"verif/internal/cmdline"
)

// One scratch directory per test process; file names are fixed and rewritten
// by every case (cases run sequentially).
var scratch string

func workDir() string {
	if scratch == "" {
		d, err := os.MkdirTemp("", "c17-")
		if err != nil {
			panic(err)
		}
		scratch = d
		for _, sub := range []string{"home", "homejq", "mods"} {
			if err := os.MkdirAll(filepath.Join(d, sub), 0o755); err != nil {
				panic(err)
			}
		}
	}
	return scratch
}

func cleanup() {
	if scratch != "" {
		os.RemoveAll(scratch)
		scratch = ""
	}
}

func writeFile(rel string, b []byte) string {
	if err := os.WriteFile(filepath.Join(workDir(), rel), b, 0o644); err != nil {
		panic(err)
	}
	return rel
}

type runOpt struct {
	stdin     []byte // fed through a pipe
	stdinFile string // stdin redirected from this regular file (relative to the scratch directory)
	home      string // HOME, relative to the scratch directory ("home" has no .jq)
}

// runGojq runs the command in the scratch directory; stdout is discarded.
func runGojq(o runOpt, args ...string) cmdline.Result {
	ctx, cancel := context.WithTimeout(context.Background(), 120*time.Second)
	defer cancel()
	cmd := exec.CommandContext(ctx, cmdline.Path(), args...)
	home := o.home
	if home == "" {
		home = "home"
	}
	cmd.Env = []string{"PATH=/usr/bin:/bin", "HOME=" + filepath.Join(workDir(), home), "LANG=C", "LC_ALL=C",
		"RUNEWIDTH_EASTASIAN=0", "TZ=UTC", "NO_COLOR=1", "GOTRACEBACK=single"}
	cmd.Dir = workDir()
	if o.stdinFile != "" {
		f, err := os.Open(filepath.Join(workDir(), o.stdinFile))
		if err != nil {
			panic(err)
		}
		defer f.Close()
		cmd.Stdin = f
	} else {
		cmd.Stdin = bytes.NewReader(o.stdin)
	}
	var se bytes.Buffer
	cmd.Stderr = &se
	err := cmd.Run()
	r := cmdline.Result{Stderr: se.String()}
	if ctx.Err() != nil {
		r.TimedOut, r.Exit = true, -1
		return r
	}
	var ee *exec.ExitError
	if errors.As(err, &ee) {
		r.Exit = ee.ExitCode()
	} else if err != nil {
		r.Exit = -2
		r.Stderr += "\nexec error: " + err.Error()
	}
	return r
}
