// C04 — compiler optimisations never change what a query outputs.
//
// Oracle: differential. The same program is compiled with every single
// optimisation switched off, with all of them off and with random subsets
// off (hooks under build tag verif); every configuration must emit the same
// values and the same error as the fully optimised program, on the same input.
// A second, static oracle scans every emitted instruction list for structural
// invariants.
package c04

import (
	"encoding/json"
	"fmt"
	"strings"
	"testing"

	"github.com/itchyny/gojq"
	"pgregory.net/rapid"

	"verif/internal/corpus"
	"verif/internal/diff"
	"verif/internal/evid"
	"verif/internal/gen"
	"verif/internal/refjq"
	"verif/internal/run"
	"verif/internal/univ"
)

var (
	rec   *evid.Rec
	model *refjq.Interp
)

const (
	steps   = 30000
	fuel    = 60000
	maxOuts = 300
	nOpts   = 11
)

type optCase struct {
	Query    string   `json:"query"`
	Input    univ.V   `json:"input"`
	Masks    []uint32 `json:"masks"` // optimisation sets switched OFF, compared with mask 0
	Features []string `json:"features,omitempty"`
}

func compileWith(q *gojq.Query, mask uint32) (*gojq.Code, error) {
	old := gojq.VerifSetOptOff(mask)
	defer gojq.VerifSetOptOff(old)
	return gojq.Compile(q, gojq.WithEnvironLoader(gen.EnvLoader))
}

func codeText(c *gojq.Code) string {
	var sb strings.Builder
	for _, in := range gojq.VerifCodes(c) {
		sb.WriteString(in.String())
		sb.WriteByte('\n')
	}
	return sb.String()
}

func maskName(m uint32) string {
	if m == 0 {
		return "all-on"
	}
	var ns []string
	for i, n := range gojq.VerifOptNames {
		if m&(1<<i) != 0 {
			ns = append(ns, n)
		}
	}
	return "off{" + strings.Join(ns, ",") + "}"
}

// static invariants of an instruction list
func scan(c *gojq.Code) string {
	codes := gojq.VerifCodes(c)
	n := len(codes)
	scopeIDs := map[int]bool{}
	for _, in := range codes {
		if in.Op == "scope" {
			if v, ok := in.V.([3]int); ok {
				scopeIDs[v[0]] = true
			}
		}
	}
	for i, in := range codes {
		switch in.Op {
		case "<nil>":
			return fmt.Sprintf("nil instruction at %d", i)
		case "jump", "jumpifnot", "fork", "forktrybegin", "forkalt":
			t, ok := in.V.(int)
			if !ok || t < 0 || t > n {
				return fmt.Sprintf("%s at %d has target %v outside [0,%d]", in.Op, i, in.V, n)
			}
		case "pushpc", "callrec":
			t, ok := in.V.(int)
			if !ok || t < 0 || t >= n || codes[t].Op != "scope" {
				return fmt.Sprintf("%s at %d does not target a scope instruction: %v", in.Op, i, in.V)
			}
		case "call":
			if t, ok := in.V.(int); ok {
				if t < 0 || t >= n || codes[t].Op != "scope" {
					return fmt.Sprintf("call at %d does not target a scope instruction: %v", i, in.V)
				}
			}
		case "load", "store", "append", "forklabel":
			v, ok := in.V.([2]int)
			if !ok {
				return fmt.Sprintf("%s at %d has operand %v", in.Op, i, in.V)
			}
			if !scopeIDs[v[0]] {
				return fmt.Sprintf("%s at %d refers to scope %d which no scope instruction declares", in.Op, i, v[0])
			}
		}
	}
	// frame sizes cover the indices used
	sizes := map[int]int{}
	for _, in := range codes {
		if in.Op == "scope" {
			v := in.V.([3]int)
			if v[1] > sizes[v[0]] {
				sizes[v[0]] = v[1]
			}
		}
	}
	for i, in := range codes {
		switch in.Op {
		case "load", "store", "append", "forklabel":
			v := in.V.([2]int)
			if v[1] >= sizes[v[0]] {
				return fmt.Sprintf("%s at %d uses slot %d of scope %d whose frame has %d slots", in.Op, i, v[1], v[0], sizes[v[0]])
			}
		}
	}
	return ""
}

type outcome struct {
	msg     string
	discard string
	fired   []uint32 // masks whose code differs from all-on
}

func hasConstAssign(q string) bool {
	return strings.Contains(q, " = ") || strings.Contains(q, "=")
}

func check(c optCase) outcome {
	q, err := gojq.Parse(c.Query)
	if err != nil {
		return outcome{discard: "parse-error"}
	}
	base, err := compileWith(q, 0)
	if err != nil {
		// every configuration must reject it as well
		for _, m := range c.Masks {
			if _, err2 := compileWith(q, m); err2 == nil {
				return outcome{msg: fmt.Sprintf("compiles with %s but not fully optimised: %v", maskName(m), err)}
			}
		}
		return outcome{discard: "compile-error"}
	}
	if msg := scan(base); msg != "" {
		return outcome{msg: "instruction list (all-on): " + msg}
	}
	// the model runs first and carries the resource guards
	want := model.Run(q, univ.Copy(c.Input.X), nil, fuel, maxOuts)
	if d := want.Discard(); d != "" && strings.HasPrefix(d, "resource") {
		return outcome{discard: d}
	} else if nondeterministic[d] {
		// the clock, the local time zone and the input iterator differ between
		// two runs whatever the optimisation switches are
		return outcome{discard: d}
	}
	ref := run.Exec(base, univ.Copy(c.Input.X), steps, maxOuts)
	if ref.Panic != "" {
		return outcome{msg: "all-on panicked: " + ref.Panic}
	}
	if ref.Budget {
		return outcome{discard: "budget"}
	}
	baseText := codeText(base)
	var o outcome
	for _, m := range c.Masks {
		code, err := compileWith(q, m)
		if err != nil {
			return outcome{msg: fmt.Sprintf("does not compile with %s: %v", maskName(m), err)}
		}
		if msg := scan(code); msg != "" {
			return outcome{msg: "instruction list (" + maskName(m) + "): " + msg}
		}
		if codeText(code) != baseText {
			o.fired = append(o.fired, m)
		}
		// unoptimised code executes more instructions: scale the budget
		got := run.Exec(code, univ.Copy(c.Input.X), steps*4, maxOuts)
		if got.Panic != "" {
			return outcome{msg: maskName(m) + " panicked: " + got.Panic}
		}
		if got.Budget {
			o.discard = "budget"
			continue
		}
		gv, rv, ge, re := got.Vals, ref.Vals, got.Err, ref.Err
		gk, rk := diff.ErrKey(ge), diff.ErrKey(re)
		if knownWrap && !replaying && m&gojq.VerifOptConstSetpath != 0 && plainAssign(c.Query) && (!univ.EqualStreams(gv, rv) || gk != rk) {
			// known finding F17 (structural class: the constant-path setpath
			// switch is toggled on a program with a plain assignment): the
			// shortcut words the same failure differently; compare modulo
			// that wording, wherever the message surfaces
			gv, rv = canonAll(gv), canonAll(rv)
			gk, rk = canonStr(gk), canonStr(rk)
			rec.Excluded("C04/const-setpath-error-wording")
		}
		if knownConstIdentity && !replaying && m&(gojq.VerifOptConstArray|gojq.VerifOptConstObject) != 0 && (gk != rk || !univ.EqualStreams(gv, rv)) &&
			(strings.Contains(gk, "invalid path") || strings.Contains(errOrValues(gv), "invalid path")) && !strings.Contains(rk, "invalid path") {
			// known finding F21 (structural class: constant folding of array/object
			// literals is toggled and the unfolded program reports an invalid
			// path): a folded literal evaluated twice is one Go object, so
			// path() regards navigation from it as reached from the input when
			// the location holds that same constant (jq 1.6 behaves alike)
			rec.Excluded("C04/folded-literal-identity")
			continue
		}
		if !univ.EqualStreams(gv, rv) {
			return outcome{msg: fmt.Sprintf("outputs differ between all-on and %s:\n  all-on %s err=%v\n  %s %s err=%v", maskName(m), univ.ShowAll(ref.Vals), ref.Err, maskName(m), univ.ShowAll(got.Vals), got.Err)}
		}
		if gk != rk {
			return outcome{msg: fmt.Sprintf("errors differ between all-on and %s after %d equal outputs:\n  all-on %s\n  %s %s", maskName(m), len(ref.Vals), rk, maskName(m), gk)}
		}
	}
	return o
}

// plainAssign: the query text contains a plain `=` operator.
var nondeterministic = map[string]bool{"unsupported:now": true, "unsupported:localtime": true, "unsupported:strflocaltime": true, "unsupported:date": true, "unsupported:input": true, "unsupported:inputs": true,
	"unsupported:debug": true, "unsupported:stderr": true, "unsupported:input_filename": true, "unsupported:input_line_number": true}

func plainAssign(q string) bool {
	for i := 0; i < len(q); i++ {
		if q[i] != '=' {
			continue
		}
		if i+1 < len(q) && q[i+1] == '=' {
			i++
			continue
		}
		if i > 0 && strings.ContainsRune("=!<>|+-*/%", rune(q[i-1])) {
			continue
		}
		return true
	}
	return false
}

var innerMarks = []string{": expected ", ": array index ", ": too large ", ": object key ", ": out of ", ": cannot "}

// canonStr removes the "setpath(..) cannot be applied to ..: " context.
func canonStr(s string) string {
	for {
		i := strings.Index(s, "setpath(")
		if i < 0 {
			return s
		}
		j := strings.Index(s[i:], " cannot be applied to ")
		if j < 0 {
			return s
		}
		k := -1
		for _, m := range innerMarks {
			if x := strings.Index(s[i+j:], m); x >= 0 && (k < 0 || x < k) {
				k = x
			}
		}
		if k < 0 {
			return s
		}
		s = s[:i] + s[i+j+k+2:]
	}
}

func canon(v any) any {
	switch v := v.(type) {
	case string:
		return canonStr(v)
	case []any:
		a := make([]any, len(v))
		for i, x := range v {
			a[i] = canon(x)
		}
		return a
	case map[string]any:
		m := make(map[string]any, len(v))
		for k, x := range v {
			m[canonStr(k)] = canon(x)
		}
		return m
	}
	return v
}

func canonAll(vs []any) []any {
	out := make([]any, len(vs))
	for i, v := range vs {
		out[i] = canon(v)
	}
	return out
}

var knownWrap, knownConstIdentity, replaying bool

func errOrValues(vs []any) string {
	var sb strings.Builder
	for _, v := range vs {
		if s, ok := v.(string); ok {
			sb.WriteString(s)
		}
	}
	return sb.String()
}

func judge(sub string, c optCase) string {
	rec.Eval()
	rec.Journal(sub, c)
	o := check(c)
	if o.msg != "" {
		return o.msg
	}
	if o.discard != "" {
		rec.Discard(o.discard)
		if o.discard != "budget" {
			return ""
		}
	}
	for _, f := range c.Features {
		if strings.HasPrefix(f, "rw/") {
			rec.Class("shape/" + f)
		}
	}
	if len(o.fired) > 0 {
		rec.NT(c.Query + "\x00" + univ.Show(c.Input.X))
		seen := map[int]bool{}
		for _, m := range o.fired {
			for i := 0; i < nOpts; i++ {
				if m == 1<<i && !seen[i] {
					seen[i] = true
					rec.Class("fired/" + gojq.VerifOptNames[i])
				}
			}
		}
	} else {
		rec.Class("fired/none")
	}
	rec.Sample(map[string]any{"query": c.Query, "input": univ.Show(c.Input.X), "fired": len(o.fired)})
	return ""
}

func replayCase(sub string, raw json.RawMessage) string {
	var c optCase
	if err := json.Unmarshal(raw, &c); err != nil {
		return "bad replay: " + err.Error()
	}
	replaying = true // class exclusions do not apply to replayed cases
	defer func() { replaying = false }()
	return check(c).msg
}

func masks(t *rapid.T) []uint32 {
	ms := make([]uint32, 0, nOpts+4)
	for i := 0; i < nOpts; i++ {
		ms = append(ms, 1<<i)
	}
	ms = append(ms, gojq.VerifOptAll)
	for i := 0; i < 3; i++ {
		ms = append(ms, rapid.Uint32Range(1, gojq.VerifOptAll-1).Draw(t, "subset"))
	}
	return ms
}

func allSingles() []uint32 {
	ms := make([]uint32, 0, nOpts+1)
	for i := 0; i < nOpts; i++ {
		ms = append(ms, 1<<i)
	}
	return append(ms, gojq.VerifOptAll)
}

func inputGen() *rapid.Generator[any] {
	fixed := []any{
		nil, 0, 1, 2, 3, "a", "abc", true, false, []any{}, map[string]any{},
		[]any{1, 2, 3}, []any{0, []any{1, 2}, map[string]any{"a": 1}}, []any{[]any{1}, []any{2, 3}}, []any{"a", "b"}, []any{nil, false, 1},
		map[string]any{"a": 1, "b": 2}, map[string]any{"a": []any{1, 2, map[string]any{"b": nil}}, "b": "x", "c": map[string]any{"a": 1}},
		map[string]any{"a": map[string]any{"b": map[string]any{"c": 0}}}, map[string]any{"a": []any{}, "b": map[string]any{}}, map[string]any{"a": nil, "b": false, "c": 0},
		map[string]any{"abc": 1, "bc": 2, "a": "b", "b": "a"}, []any{map[string]any{"a": 1, "b": 2}, map[string]any{"a": 3, "b": 4}}, map[string]any{"a": []any{[]any{0, 1}, []any{2}}},
		map[string]any{"a": "s"}, map[string]any{"a": map[string]any{"b": "s"}}, "1", 1.5, -1,
	}
	return rapid.OneOf(rapid.SampledFrom(fixed), rapid.SampledFrom(fixed), gen.Value(gen.Opt{Reps: true, MaxDepth: 3, MaxWidth: 3, SmallInts: true}))
}

func TestC04(t *testing.T) {
	rec = evid.Open("C04")
	defer rec.Close()
	var err error
	if model, err = refjq.New(); err != nil {
		t.Fatal(err)
	}
	knownWrap = rec.KnownClass("C04/const-setpath-error-wording")
	knownConstIdentity = rec.KnownClass("C04/folded-literal-identity")
	rec.Replays(replayCase)
	if rec.ReplayPath() != "" {
		return
	}

	// self-check of the hooks: all-on under the tag must be the code the
	// repository's own tests pin (instruction counts of compiler_test.go are
	// checked by the repo's suite; here: switching nothing changes nothing)
	probe, _ := gojq.Parse(`[1,2,3] | {a: .[0]} | .a + 1 | if . then -1 else "x" end`)
	c0, _ := compileWith(probe, 0)
	c1, _ := gojq.Compile(probe, gojq.WithEnvironLoader(gen.EnvLoader))
	if codeText(c0) != codeText(c1) {
		t.Fatalf("mask 0 changes the emitted code")
	}
	cAll, _ := compileWith(probe, gojq.VerifOptAll)
	if codeText(cAll) == codeText(c0) {
		t.Fatalf("switches have no effect: hooks not active")
	}

	// corpus
	cs, err := corpus.Load()
	if err != nil {
		t.Fatal(err)
	}
	idx := 0
	for _, c := range cs {
		if c.Query == "" || len(c.Env) > 0 || strings.Contains(strings.ToLower(c.Query), "env") || strings.Contains(c.Query, "input") ||
			strings.Contains(c.Query, "now") || strings.Contains(c.Query, "localtime") || strings.Contains(c.Query, "debug") || strings.Contains(c.Query, "stderr") || strings.Contains(c.Query, "$__loc__") {
			continue
		}
		idx++
		if !rec.Mine(idx) {
			continue
		}
		var inputs []any
		if !c.NullInput {
			inputs, _ = corpus.Docs(c.Input)
		}
		inputs = append(inputs, nil)
		for _, in := range inputs {
			oc := optCase{Query: c.Query, Input: univ.V{X: in}, Masks: allSingles()}
			rec.Class("tier/corpus")
			if msg := judge("corpus", oc); msg != "" {
				rec.Direct("corpus", oc, "%s", msg)
			}
		}
	}

	inputs := inputGen()
	biased := gen.RewriteBiased(gen.Conf{Env: true, AltPat: true, AltPatFree: true, Paths: true, Builtins: true, Halt: true})
	rec.Rapid(t, "biased", rec.Scale(40000, 700000), func(t *rapid.T) {
		p := biased.Draw(t, "prog")
		c := optCase{Query: p.Src, Input: univ.V{X: inputs.Draw(t, "input")}, Masks: masks(t), Features: p.Features}
		rec.Class("tier/biased")
		if msg := judge("biased", c); msg != "" {
			t.Fatalf("%s", rec.Fail("biased", c, "%s", msg))
		}
	})
	general := gen.Program(gen.Conf{AltPat: true, AltPatFree: true, Paths: true, Builtins: true, Halt: true, Update: true, MaxNodes: 40})
	rec.Rapid(t, "general", rec.Scale(20000, 400000), func(t *rapid.T) {
		p := general.Draw(t, "prog")
		c := optCase{Query: p.Src, Input: univ.V{X: inputs.Draw(t, "input")}, Masks: masks(t), Features: p.Features}
		rec.Class("tier/general")
		if msg := judge("general", c); msg != "" {
			t.Fatalf("%s", rec.Fail("general", c, "%s", msg))
		}
	})
}
