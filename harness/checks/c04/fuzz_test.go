package c04

import (
	"encoding/json"
	"regexp"
	"strings"
	"testing"
	"unicode/utf8"

	"github.com/itchyny/gojq"

	"verif/internal/corpus"
	"verif/internal/evid"
	"verif/internal/refjq"
	"verif/internal/univ"
)

// midBand: number literals that turn into huge allocations (see C08).
var midBand = regexp.MustCompile(`[0-9]{5,18}|[0-9]+[eE]\+?(0*[4-9]|0*1[0-8])\b`)

// FuzzOptDiff is the native coverage-guided tier (thorough only; it cannot be
// pinned by a seed, the saved failing input is the reproducible unit).  The
// fuzzer mutates the text of the repository's own test queries; every
// optimisation switched off singly and all together must leave the output
// stream and the error unchanged, and every instruction list must pass the
// invariant scan.
func FuzzOptDiff(f *testing.F) {
	var err error
	if model, err = refjq.New(); err != nil {
		f.Fatal(err)
	}
	if rec == nil {
		rec = evid.Open("C04")
	}
	knownWrap = rec.KnownClass("C04/const-setpath-error-wording")
	knownConstIdentity = rec.KnownClass("C04/folded-literal-identity")
	masks := append(allSingles(), gojq.VerifOptAll)
	cs, _ := corpus.Load()
	for i, c := range cs {
		if c.Query == "" || len(c.Query) > 200 || i%3 != 1 {
			continue
		}
		in := "null"
		if docs, err := corpus.Docs(c.Input); err == nil && len(docs) > 0 && !c.NullInput {
			if b, err := json.Marshal(docs[0]); err == nil && len(b) < 200 {
				in = string(b)
			}
		}
		f.Add(c.Query, in)
	}
	f.Add(`1 as $x | ((2,$x) | 3) + 10`, "null")
	f.Add(`[(0, . | null), 0]`, "null")
	f.Add(`(("a" | . or .) | 0 | tostring) + "z"`, "null")
	f.Add(`1 + (label $l | .)`, "1")
	f.Add(`{a: 1, "a": 2, ("a"): 3} | .a = -1[0]`, "null")
	f.Fuzz(func(t *testing.T, src string, input string) {
		if len(src) > 240 || len(input) > 240 || !utf8.ValidString(src) || strings.ContainsRune(src, 0) {
			t.Skip()
		}
		src = midBand.ReplaceAllString(src, "7")
		var in any
		d := json.NewDecoder(strings.NewReader(input))
		d.UseNumber()
		if err := d.Decode(&in); err != nil {
			t.Skip()
		}
		c := optCase{Query: src, Input: univ.V{X: in}, Masks: masks}
		o := check(c)
		if o.msg != "" {
			b, _ := json.Marshal(map[string]any{"sub": "fuzz", "case": c})
			t.Fatalf("VERIF-CASE %s VERIF-END %s", b, o.msg)
		}
	})
}
