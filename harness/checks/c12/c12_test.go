// C12 — every emitted value serialises to valid JSON that reads back equal.
//
// Oracles (none of them consults gojq for the expected value):
//   - encoding/json (UseNumber) + utf8.Valid read the produced text back; the
//     result is compared with the emitted Go value by normMatch, an own
//     comparator implementing the normalisation the property states (NaN ->
//     null, +-inf -> +-MaxFloat64, invalid UTF-8 -> U+FFFD);
//   - json.Compact + an own SGR stripper relate the output modes to each other
//     ("all modes agree up to insignificant whitespace");
//   - an own line scanner recomputes depth x unit for every output line;
//   - the YAML clause is a round trip through the two command-line flags.
package c12

import (
	"bytes"
	"encoding/base64"
	"encoding/json"
	"flag"
	"fmt"
	"io"
	"math"
	"math/big"
	"os"
	"regexp"
	"sort"
	"strconv"
	"strings"
	"testing"
	"unicode/utf8"

	"github.com/itchyny/gojq"
	"pgregory.net/rapid"

	"verif/internal/cmdline"
	"verif/internal/evid"
	"verif/internal/gen"
	"verif/internal/run"
	"verif/internal/univ"
)

var rec *evid.Rec

// ---------------------------------------------------------------------------
// normalised comparison: emitted value vs. value read back from text

const fffd = "\ufffd"

type strTok struct {
	lit      string // literal piece (valid UTF-8 without U+FFFD), or
	min, max int    // a run of replacement characters: allowed count
	run      bool
}

// tokStr splits s into literal pieces and maximal runs made of invalid bytes
// and genuine U+FFFD characters.  A run of k invalid bytes may legitimately
// be written as 1..k replacement characters (per byte, as Go and gojq do, or
// per maximal ill-formed subsequence); the property does not fix the
// granularity, so the run only carries the admissible interval.
func tokStr(s string) []strTok {
	var out []strTok
	litStart := 0
	i := 0
	for i < len(s) {
		r, size := utf8.DecodeRuneInString(s[i:])
		if r != utf8.RuneError {
			i += size
			continue
		}
		if litStart < i {
			out = append(out, strTok{lit: s[litStart:i]})
		}
		tk := strTok{run: true}
		prevInvalid := false
		for i < len(s) {
			r, size = utf8.DecodeRuneInString(s[i:])
			if r != utf8.RuneError {
				break
			}
			if size == 1 { // invalid byte
				tk.max++
				if !prevInvalid {
					tk.min++
				}
				prevInvalid = true
			} else { // genuine U+FFFD
				tk.min++
				tk.max++
				prevInvalid = false
			}
			i += size
		}
		out = append(out, tk)
		litStart = i
	}
	if litStart < len(s) {
		out = append(out, strTok{lit: s[litStart:]})
	}
	return out
}

// strMatch: back (valid UTF-8) is orig with invalid UTF-8 replaced by U+FFFD.
func strMatch(orig, back string) bool {
	if utf8.ValidString(orig) && !strings.Contains(orig, fffd) {
		return orig == back
	}
	if !utf8.ValidString(back) {
		return false
	}
	a, b := tokStr(orig), tokStr(back)
	if len(a) != len(b) {
		return false
	}
	for i := range a {
		if a[i].run != b[i].run {
			return false
		}
		if a[i].run {
			if n := b[i].min; n < a[i].min || n > a[i].max {
				return false
			}
		} else if a[i].lit != b[i].lit {
			return false
		}
	}
	return true
}

// collapseKey maps a key to a form under which two keys that could become
// equal after any admissible replacement collide.
func collapseKey(s string) string {
	var sb strings.Builder
	for _, tk := range tokStr(s) {
		if tk.run {
			sb.WriteString(fffd)
		} else {
			sb.WriteString(tk.lit)
		}
	}
	return sb.String()
}

var numLit = regexp.MustCompile(`^-?(0|[1-9][0-9]*)(\.[0-9]+)?([eE][-+]?[0-9]+)?$`)

func litRat(s string) (*big.Rat, bool) {
	if !numLit.MatchString(s) {
		return nil, false
	}
	if i := strings.IndexAny(s, "eE"); i >= 0 {
		if e, err := strconv.Atoi(s[i+1:]); err != nil || e > 20000 || e < -20000 {
			return nil, false
		}
	}
	return new(big.Rat).SetString(s)
}

// numMatch: the number literal lit denotes the emitted number orig (up to
// the stated saturation of infinities).
func numMatch(orig any, lit string) bool {
	if !numLit.MatchString(lit) {
		return false
	}
	switch o := orig.(type) {
	case int:
		r, ok := litRat(lit)
		return ok && r.IsInt() && r.Num().Cmp(big.NewInt(int64(o))) == 0
	case *big.Int:
		r, ok := litRat(lit)
		return ok && r.IsInt() && r.Num().Cmp(o) == 0
	case json.Number:
		if string(o) == lit {
			return true
		}
		a, ok1 := litRat(string(o))
		b, ok2 := litRat(lit)
		return ok1 && ok2 && a.Cmp(b) == 0
	case float64:
		f, err := strconv.ParseFloat(lit, 64)
		if err != nil {
			return false
		}
		switch {
		case math.IsInf(o, 1):
			return f == math.MaxFloat64
		case math.IsInf(o, -1):
			return f == -math.MaxFloat64
		}
		return f == o
	}
	return false
}

// numBack: the number read back (a literal when read by encoding/json, any
// gojq number representation when read by fromjson) denotes orig.
func numBack(orig, back any) bool {
	switch b := back.(type) {
	case json.Number:
		return numMatch(orig, string(b))
	case int:
		return numMatch(orig, strconv.Itoa(b))
	case *big.Int:
		return numMatch(orig, b.String())
	case float64:
		if math.IsNaN(b) || math.IsInf(b, 0) {
			return false
		}
		var want *big.Rat
		switch o := orig.(type) {
		case float64:
			return b == min(max(o, -math.MaxFloat64), math.MaxFloat64)
		case int:
			want = new(big.Rat).SetInt64(int64(o))
		case *big.Int:
			want = new(big.Rat).SetInt(o)
		case json.Number:
			if !univ.IsIntLit(string(o)) { // a fractional literal is the double nearest to it
				f, err := strconv.ParseFloat(string(o), 64)
				return err == nil && f == b
			}
			r, ok := litRat(string(o))
			if !ok {
				return false
			}
			want = r
		default:
			return false
		}
		return new(big.Rat).SetFloat64(b).Cmp(want) == 0
	}
	return false
}

// normMatch compares an emitted value with what was read back (numbers on
// the read-back side are json.Number).  It returns "" when they agree.
func normMatch(orig, back any, path string) string {
	bad := func() string {
		return fmt.Sprintf("at %s: emitted %s, read back %s", path, clip(univ.Show(orig), 200), clip(univ.Show(back), 200))
	}
	switch o := orig.(type) {
	case nil:
		if back != nil {
			return bad()
		}
	case bool:
		if b, ok := back.(bool); !ok || b != o {
			return bad()
		}
	case int, *big.Int, json.Number:
		if !numBack(orig, back) {
			return bad()
		}
	case float64:
		if math.IsNaN(o) {
			if back != nil {
				return bad()
			}
			return ""
		}
		if !numBack(orig, back) {
			return bad()
		}
	case string:
		b, ok := back.(string)
		if !ok || !strMatch(o, b) {
			return bad()
		}
	case []any:
		b, ok := back.([]any)
		if !ok || len(b) != len(o) {
			return bad()
		}
		for i := range o {
			if msg := normMatch(o[i], b[i], fmt.Sprintf("%s[%d]", path, i)); msg != "" {
				return msg
			}
		}
	case map[string]any:
		b, ok := back.(map[string]any)
		if !ok || len(b) != len(o) {
			return bad()
		}
		byCK := make(map[string]string, len(b))
		for k := range b {
			byCK[collapseKey(k)] = k
		}
		for k, x := range o {
			bk, ok := byCK[collapseKey(k)]
			if !ok || !strMatch(k, bk) {
				return fmt.Sprintf("at %s: key %q not found in what was read back (%s)", path, k, clip(univ.Show(back), 200))
			}
			if msg := normMatch(x, b[bk], path+"."+strconv.Quote(k)); msg != "" {
				return msg
			}
		}
	default:
		return fmt.Sprintf("at %s: unsupported emitted type %T", path, orig)
	}
	return ""
}

func clip(s string, n int) string {
	if len(s) > n {
		return s[:n] + "..."
	}
	return s
}

// readBack parses exactly one JSON text (encoding/json, UseNumber).
func readBack(text string) (any, error) {
	dec := json.NewDecoder(strings.NewReader(text))
	dec.UseNumber()
	var v any
	if err := dec.Decode(&v); err != nil {
		return nil, err
	}
	if _, err := dec.Token(); err != io.EOF {
		return nil, fmt.Errorf("trailing data after the JSON value")
	}
	return v, nil
}

// checkText: text is one well-formed JSON text that reads back as v.
// nlOK: line feeds (and tabs, for --tab) may occur as insignificant
// whitespace; otherwise no byte below 0x20 may occur at all.
func checkText(v any, text string, nlOK bool) string {
	if !utf8.ValidString(text) {
		return fmt.Sprintf("output is not valid UTF-8: %q", clip(text, 200))
	}
	for i := 0; i < len(text); i++ {
		if c := text[i]; c < 0x20 && !(nlOK && (c == '\n' || c == '\t')) {
			return fmt.Sprintf("raw control byte 0x%02x in output %q", c, clip(text, 200))
		}
	}
	back, err := readBack(text)
	if err != nil {
		return fmt.Sprintf("output is not well-formed JSON (%v): %q", err, clip(text, 200))
	}
	return normMatch(v, back, "$")
}

// ---------------------------------------------------------------------------
// library modes

type libCase struct {
	V univ.V `json:"v"`
}

var libQueries = map[string]*gojq.Code{}

func init() {
	for _, q := range []string{"tojson", "tostring", "@json", "@text", `@json "\(.)"`, `"\(.)"`, `@text "\(.)"`, "tojson|fromjson", "[.]|tojson", "{a:.}|tostring",
		"@json|fromjson", "tostring|fromjson", "[.]|tojson|fromjson|.[0]", "{a:.}|tojson|fromjson|.a", `@json "\(.)"|fromjson`, "fromjson", "tojson|fromjson|tojson"} {
		libQueries[q] = run.MustCompile(q)
	}
}

// sameJSON: equal up to insignificant whitespace (b is well-formed).
func sameJSON(a, b string) bool {
	if a == b {
		return true
	}
	var ca, cb bytes.Buffer
	if json.Compact(&ca, []byte(a)) != nil || json.Compact(&cb, []byte(b)) != nil {
		return false
	}
	return bytes.Equal(ca.Bytes(), cb.Bytes())
}

func runStr(q string, v any) (string, string) {
	res := run.Exec(libQueries[q], v, 0, 4)
	if res.Err != nil || len(res.Vals) != 1 {
		return "", fmt.Sprintf("%s: err=%v outputs=%d", q, res.Err, len(res.Vals))
	}
	s, ok := res.Vals[0].(string)
	if !ok {
		return "", fmt.Sprintf("%s gave a %T", q, res.Vals[0])
	}
	return s, ""
}

func checkLib(c libCase) string {
	v := c.V.X
	snapshot := univ.Copy(v)
	b, err := gojq.Marshal(v)
	if err != nil {
		return "Marshal: " + err.Error()
	}
	text := string(b)
	if msg := checkText(v, text, false); msg != "" {
		return "Marshal: " + msg
	}
	_, isStr := v.(string)
	for _, q := range []string{"tojson", "@json", `@json "\(.)"`, "tostring", "@text", `"\(.)"`, `@text "\(.)"`} {
		s, msg := runStr(q, v)
		if msg != "" {
			return msg
		}
		if isStr && (q == "tostring" || q == "@text" || q == `"\(.)"` || q == `@text "\(.)"`) {
			continue // a string is its own text form: not a JSON output mode
		}
		if !sameJSON(s, text) {
			return fmt.Sprintf("%s gives %q, Marshal gives %q", q, clip(s, 200), clip(text, 200))
		}
	}
	if s, msg := runStr("[.]|tojson", v); msg != "" || !sameJSON(s, "["+text+"]") {
		return fmt.Sprintf("[.]|tojson gives %q %s, Marshal(.) gives %q", clip(s, 200), msg, clip(text, 200))
	}
	if s, msg := runStr("{a:.}|tostring", v); msg != "" || !sameJSON(s, `{"a":`+text+`}`) {
		return fmt.Sprintf("{a:.}|tostring gives %q %s, Marshal(.) gives %q", clip(s, 200), msg, clip(text, 200))
	}
	// the read-back leg through gojq's own reader
	for _, q := range []string{"tojson|fromjson", "@json|fromjson", "tostring|fromjson", "[.]|tojson|fromjson|.[0]", "{a:.}|tojson|fromjson|.a", `@json "\(.)"|fromjson`, "fromjson"} {
		in := v
		switch q {
		case "tostring|fromjson":
			if isStr {
				continue // a string is its own text form
			}
		case "fromjson":
			in = text // what Marshal returned, read by fromjson
		}
		res := run.Exec(libQueries[q], in, 0, 4)
		if res.Err != nil || len(res.Vals) != 1 {
			return fmt.Sprintf("%s: err=%v outputs=%d (Marshal gives %q)", q, res.Err, len(res.Vals), clip(text, 200))
		}
		if msg := normMatch(v, res.Vals[0], "$"); msg != "" {
			return q + " is not the identity: " + msg
		}
	}
	// (an invalid byte is written as the escape \ufffd, a genuine U+FFFD as
	// itself: the text is a fixed point only without invalid UTF-8)
	if !hasBadUTF8(v) {
		if s, msg := runStr("tojson|fromjson|tojson", v); msg != "" || !sameJSON(s, text) {
			return fmt.Sprintf("tojson|fromjson|tojson gives %q %s, tojson gives %q", clip(s, 200), msg, clip(text, 200))
		}
	}
	if !univ.Same(v, snapshot) {
		return "the value was modified by serialising it"
	}
	return ""
}

// ---------------------------------------------------------------------------
// retained results: a serialisation stays what it was when it was produced,
// whatever the library encodes afterwards (Marshal hands out a []byte: it must
// not alias storage that a later encode reuses).

type retStep struct {
	Op string `json:"op"` // keep | marshal | marshal-go | query
	I  int    `json:"i"`  // index into Vals (taken modulo their number)
	Q  string `json:"q"`  // query for op "query"
}

type retCase struct {
	Vals  []univ.V  `json:"vals"`
	Steps []retStep `json:"steps"`
}

var retQueryNames = []string{"tojson", "tostring", `"\(.)"`, "@json", `@json "\(.)"`, "error", "[.]|tojson", "{a:.}|tostring"}

var retQueries = map[string]*gojq.Code{}

func init() {
	for _, q := range retQueryNames {
		retQueries[q] = run.MustCompile(q)
	}
}

type retained struct {
	b    []byte // exactly what Marshal returned, never copied
	s    string // for results of tojson & co: the returned string itself
	copy string // private copy taken at production time
	v    any
	by   string
	step int
}

func (r *retained) now() string {
	if r.b != nil {
		return string(r.b)
	}
	return r.s
}

func checkRetained(c retCase) string {
	if len(c.Vals) == 0 {
		return "bad case"
	}
	var kept []*retained
	recheck := func(step int, what string) string {
		for _, r := range kept {
			if cur := r.now(); cur != r.copy {
				msg := checkText(r.v, cur, false)
				if msg == "" {
					msg = "it still reads back equal, but is not the text that was returned"
				}
				return fmt.Sprintf("the result of %s(%s) obtained at step %d was %q; after step %d (%s) the same result reads %q: %s",
					r.by, clip(univ.Show(r.v), 120), r.step, clip(r.copy, 160), step, what, clip(cur, 160), msg)
			}
		}
		return ""
	}
	for n, st := range c.Steps {
		v := c.Vals[((st.I%len(c.Vals))+len(c.Vals))%len(c.Vals)].X
		what := st.Op
		switch st.Op {
		case "keep":
			b, err := gojq.Marshal(v)
			if err != nil {
				return "Marshal: " + err.Error()
			}
			r := &retained{b: b, copy: string(b), v: v, by: "Marshal", step: n}
			if b == nil {
				r.b = []byte{}
			}
			if msg := checkText(v, r.copy, false); msg != "" {
				return "Marshal: " + msg
			}
			kept = append(kept, r)
		case "marshal":
			if _, err := gojq.Marshal(v); err != nil {
				return "Marshal: " + err.Error()
			}
		case "marshal-go":
			done := make(chan struct{})
			go func() {
				defer close(done)
				gojq.Marshal(v)
			}()
			<-done
		case "query":
			code := retQueries[st.Q]
			if code == nil {
				return "bad query " + st.Q
			}
			what = st.Q
			res := run.Exec(code, v, 0, 4)
			if res.Err != nil {
				_ = res.Err.Error() // formatting the message serialises the value
			}
			if st.Q == "tojson" || st.Q == "@json" {
				if len(res.Vals) != 1 {
					return fmt.Sprintf("%s: err=%v outputs=%d", st.Q, res.Err, len(res.Vals))
				}
				sres, ok := res.Vals[0].(string)
				if !ok {
					return fmt.Sprintf("%s gave a %T", st.Q, res.Vals[0])
				}
				if msg := checkText(v, sres, false); msg != "" {
					return st.Q + ": " + msg
				}
				kept = append(kept, &retained{s: sres, copy: strings.Clone(sres), v: v, by: st.Q, step: n})
			}
		default:
			return "bad op " + st.Op
		}
		if msg := recheck(n, what); msg != "" {
			return msg
		}
	}
	// at the end: every retained result is still well-formed, still reads back
	// as its value, and still agrees with tojson of the same value
	for _, r := range kept {
		cur := r.now()
		if msg := checkText(r.v, cur, false); msg != "" {
			return fmt.Sprintf("at the end the result of %s obtained at step %d: %s", r.by, r.step, msg)
		}
		tj, msg := runStr("tojson", r.v)
		if msg != "" {
			return msg
		}
		if !sameJSON(cur, tj) {
			return fmt.Sprintf("at the end the result of %s(%s) obtained at step %d reads %q, tojson of the same value gives %q", r.by, clip(univ.Show(r.v), 120), r.step, clip(cur, 160), clip(tj, 160))
		}
	}
	return ""
}

// ---------------------------------------------------------------------------
// YAML input: numbers in every YAML spelling must be printed as JSON numbers

// own strict JSON scanner (RFC 8259); numbers keep their literal text
// (json.Number), objects must not repeat a key.
type jscan struct {
	s string
	i int
}

func (p *jscan) ws() {
	for p.i < len(p.s) && (p.s[p.i] == ' ' || p.s[p.i] == '\n' || p.s[p.i] == '\t' || p.s[p.i] == '\r') {
		p.i++
	}
}

func (p *jscan) fail(what string) error {
	return fmt.Errorf("%s at byte %d (%q)", what, p.i, clip(p.s[min(p.i, len(p.s)):], 20))
}

func scanJSON(text string) (any, error) {
	p := &jscan{s: text}
	p.ws()
	v, err := p.value(0)
	if err != nil {
		return nil, err
	}
	p.ws()
	if p.i != len(p.s) {
		return nil, p.fail("trailing data")
	}
	return v, nil
}

func (p *jscan) value(depth int) (any, error) {
	if depth > 5000 {
		return nil, p.fail("too deep")
	}
	if p.i >= len(p.s) {
		return nil, p.fail("unexpected end")
	}
	switch c := p.s[p.i]; {
	case c == 'n' && strings.HasPrefix(p.s[p.i:], "null"):
		p.i += 4
		return nil, nil
	case c == 't' && strings.HasPrefix(p.s[p.i:], "true"):
		p.i += 4
		return true, nil
	case c == 'f' && strings.HasPrefix(p.s[p.i:], "false"):
		p.i += 5
		return false, nil
	case c == '"':
		return p.str()
	case c == '[':
		p.i++
		a := []any{}
		p.ws()
		if p.i < len(p.s) && p.s[p.i] == ']' {
			p.i++
			return a, nil
		}
		for {
			p.ws()
			v, err := p.value(depth + 1)
			if err != nil {
				return nil, err
			}
			a = append(a, v)
			p.ws()
			if p.i >= len(p.s) {
				return nil, p.fail("unterminated array")
			}
			if p.s[p.i] == ',' {
				p.i++
				continue
			}
			if p.s[p.i] == ']' {
				p.i++
				return a, nil
			}
			return nil, p.fail("expected , or ]")
		}
	case c == '{':
		p.i++
		m := map[string]any{}
		p.ws()
		if p.i < len(p.s) && p.s[p.i] == '}' {
			p.i++
			return m, nil
		}
		for {
			p.ws()
			if p.i >= len(p.s) || p.s[p.i] != '"' {
				return nil, p.fail("expected an object key")
			}
			k, err := p.str()
			if err != nil {
				return nil, err
			}
			p.ws()
			if p.i >= len(p.s) || p.s[p.i] != ':' {
				return nil, p.fail("expected :")
			}
			p.i++
			p.ws()
			v, err := p.value(depth + 1)
			if err != nil {
				return nil, err
			}
			if _, dup := m[k]; dup {
				return nil, p.fail("repeated key " + strconv.Quote(k))
			}
			m[k] = v
			p.ws()
			if p.i >= len(p.s) {
				return nil, p.fail("unterminated object")
			}
			if p.s[p.i] == ',' {
				p.i++
				continue
			}
			if p.s[p.i] == '}' {
				p.i++
				return m, nil
			}
			return nil, p.fail("expected , or }")
		}
	case c == '-' || c >= '0' && c <= '9':
		st := p.i
		if p.s[p.i] == '-' {
			p.i++
		}
		digits := func() int {
			n := 0
			for p.i < len(p.s) && p.s[p.i] >= '0' && p.s[p.i] <= '9' {
				p.i++
				n++
			}
			return n
		}
		if p.i < len(p.s) && p.s[p.i] == '0' {
			p.i++
			if p.i < len(p.s) && p.s[p.i] >= '0' && p.s[p.i] <= '9' {
				return nil, p.fail("number with a leading zero")
			}
		} else if digits() == 0 {
			return nil, p.fail("number without digits")
		}
		if p.i < len(p.s) && p.s[p.i] == '.' {
			p.i++
			if digits() == 0 {
				return nil, p.fail("number with an empty fraction")
			}
		}
		if p.i < len(p.s) && (p.s[p.i] == 'e' || p.s[p.i] == 'E') {
			p.i++
			if p.i < len(p.s) && (p.s[p.i] == '+' || p.s[p.i] == '-') {
				p.i++
			}
			if digits() == 0 {
				return nil, p.fail("number with an empty exponent")
			}
		}
		return json.Number(p.s[st:p.i]), nil
	}
	return nil, p.fail("unexpected character")
}

func (p *jscan) str() (string, error) {
	p.i++ // opening quote
	var sb strings.Builder
	for {
		if p.i >= len(p.s) {
			return "", p.fail("unterminated string")
		}
		c := p.s[p.i]
		switch {
		case c == '"':
			p.i++
			return sb.String(), nil
		case c < 0x20:
			return "", p.fail("raw control character in a string")
		case c == '\\':
			if p.i+1 >= len(p.s) {
				return "", p.fail("unterminated escape")
			}
			e := p.s[p.i+1]
			p.i += 2
			switch e {
			case '"', '\\', '/':
				sb.WriteByte(e)
			case 'b':
				sb.WriteByte('\b')
			case 'f':
				sb.WriteByte('\f')
			case 'n':
				sb.WriteByte('\n')
			case 'r':
				sb.WriteByte('\r')
			case 't':
				sb.WriteByte('\t')
			case 'u':
				hex4 := func() (rune, bool) {
					if p.i+4 > len(p.s) {
						return 0, false
					}
					n, err := strconv.ParseUint(p.s[p.i:p.i+4], 16, 32)
					if err != nil || strings.ContainsAny(p.s[p.i:p.i+4], "+-") {
						return 0, false
					}
					p.i += 4
					return rune(n), true
				}
				r, ok := hex4()
				if !ok {
					return "", p.fail("bad \\u escape")
				}
				if r >= 0xd800 && r < 0xdc00 && strings.HasPrefix(p.s[p.i:], "\\u") {
					save := p.i
					p.i += 2
					if lo, ok := hex4(); ok && lo >= 0xdc00 && lo < 0xe000 {
						r = 0x10000 + (r-0xd800)<<10 + (lo - 0xdc00)
					} else {
						p.i = save
					}
				}
				if r >= 0xd800 && r < 0xe000 {
					r = utf8.RuneError
				}
				sb.WriteRune(r)
			default:
				return "", p.fail("bad escape")
			}
		default:
			sb.WriteByte(c)
			p.i++
		}
	}
}

// yv is the expected value of a YAML document: k = n (number, N its YAML
// spelling), s (string), a (sequence), o (mapping with distinct keys).
type yv struct {
	K string `json:"k"`
	N string `json:"n,omitempty"`
	S string `json:"s,omitempty"`
	A []yv   `json:"a,omitempty"`
	O []ykv  `json:"o,omitempty"`
}

type ykv struct {
	Key string `json:"key"`
	Val yv     `json:"val"`
}

type yinCase struct {
	YAML  string   `json:"yaml"`  // the document stream fed to --yaml-input
	Want  []yv     `json:"want"`  // one per document
	Flags []string `json:"flags"` // layout flags
	Mode  string   `json:"mode"`  // mono | color | raw-tojson
}

var yamlNum = regexp.MustCompile(`^[-+]?(\.[0-9]+|[0-9]+(\.[0-9]*)?)([eE][-+]?[0-9]+)?$`)

// jsonSpelling: own rewriting of a YAML 1.2 core-schema number into the JSON
// grammar without touching its digits (only used to obtain its exact value).
func jsonSpelling(y string) string {
	y = strings.TrimPrefix(y, "+")
	neg := strings.HasPrefix(y, "-")
	y = strings.TrimPrefix(y, "-")
	mant, exp := y, ""
	if i := strings.IndexAny(y, "eE"); i >= 0 {
		mant, exp = y[:i], y[i:]
	}
	ip, fp, hasDot := strings.Cut(mant, ".")
	ip = strings.TrimLeft(ip, "0")
	if ip == "" {
		ip = "0"
	}
	out := ip
	if hasDot && fp != "" {
		out += "." + fp
	}
	if neg {
		out = "-" + out
	}
	return out + exp
}

// sigDigits: the digits of the significand without leading zeros.
func sigDigits(lit string) string {
	if i := strings.IndexAny(lit, "eE"); i >= 0 {
		lit = lit[:i]
	}
	lit = strings.TrimLeft(lit, "+-")
	lit = strings.Replace(lit, ".", "", 1)
	return strings.TrimLeft(lit, "0")
}

func yinMatch(want yv, got any, path string) string {
	switch want.K {
	case "n":
		n, ok := got.(json.Number)
		if !ok {
			return fmt.Sprintf("at %s: the YAML number %s was printed as %s", path, want.N, clip(univ.Show(got), 100))
		}
		lit := string(n)
		if strings.HasPrefix(want.N, ".") {
			// an unsigned spelling without integer part is handed over by the
			// YAML library as a float64: it is the double nearest to it
			a, err1 := strconv.ParseFloat(want.N, 64)
			b, err2 := strconv.ParseFloat(lit, 64)
			if err1 != nil || err2 != nil || a != b {
				return fmt.Sprintf("at %s: the YAML number %s was printed as %s, which is a different double", path, want.N, lit)
			}
			return ""
		}
		a, ok1 := litRat(jsonSpelling(want.N))
		b, ok2 := litRat(lit)
		if !ok1 || !ok2 || a.Cmp(b) != 0 {
			return fmt.Sprintf("at %s: the YAML number %s was printed as %s, which is not the same number", path, want.N, lit)
		}
		if sigDigits(want.N) != sigDigits(lit) {
			return fmt.Sprintf("at %s: the YAML number %s was printed as %s: the digits of the significand changed", path, want.N, lit)
		}
	case "s":
		if g, ok := got.(string); !ok || g != want.S {
			return fmt.Sprintf("at %s: the YAML string %q was printed as %s", path, want.S, clip(univ.Show(got), 100))
		}
	case "a":
		g, ok := got.([]any)
		if !ok || len(g) != len(want.A) {
			return fmt.Sprintf("at %s: a sequence of %d was printed as %s", path, len(want.A), clip(univ.Show(got), 100))
		}
		for i := range g {
			if msg := yinMatch(want.A[i], g[i], fmt.Sprintf("%s[%d]", path, i)); msg != "" {
				return msg
			}
		}
	case "o":
		g, ok := got.(map[string]any)
		if !ok || len(g) != len(want.O) {
			return fmt.Sprintf("at %s: a mapping of %d was printed as %s", path, len(want.O), clip(univ.Show(got), 100))
		}
		for _, kv := range want.O {
			x, ok := g[kv.Key]
			if !ok {
				return fmt.Sprintf("at %s: key %q is missing in %s", path, kv.Key, clip(univ.Show(got), 100))
			}
			if msg := yinMatch(kv.Val, x, path+"."+strconv.Quote(kv.Key)); msg != "" {
				return msg
			}
		}
	default:
		return "bad case"
	}
	return ""
}

func splitLines(out, line string, n int) ([]string, string) {
	chunks := make([]string, 0, n)
	rest := out
	for len(rest) > 0 {
		k := strings.Index(rest, "\n"+line+"\n")
		if k < 0 {
			return nil, fmt.Sprintf("output does not end with the sentinel line: %q", clip(rest, 200))
		}
		chunks = append(chunks, rest[:k])
		rest = rest[k+len(line)+2:]
	}
	if len(chunks) != n {
		return nil, fmt.Sprintf("%d output values for %d documents: %q", len(chunks), n, clip(out, 300))
	}
	return chunks, ""
}

func checkYAMLIn(c yinCase) string {
	query, sep := `., "`+sentinel+`"`, `"`+sentinel+`"`
	args := []string{"--yaml-input", "-M"}
	switch c.Mode {
	case "mono", "color":
	case "raw-tojson":
		query, sep = `tojson, "`+sentinel+`"`, sentinel
		args = append(args, "-r")
	default:
		return "bad mode"
	}
	args = append(args, c.Flags...)
	r := cmdline.Run(cmdline.Opt{Stdin: []byte(c.YAML)}, append(args, query)...)
	if r.TimedOut {
		rec.Discard("cli-timeout")
		return ""
	}
	where := fmt.Sprintf("gojq %v on YAML %q", args, clip(c.YAML, 300))
	if r.Exit != 0 || r.Stderr != "" {
		return fmt.Sprintf("%s exited %d, stderr %q", where, r.Exit, clip(r.Stderr, 400))
	}
	chunks, msg := splitLines(r.Stdout, sep, len(c.Want))
	if msg != "" {
		return where + ": " + msg
	}
	layouts := layoutsOf(c.Flags)
	if c.Mode == "raw-tojson" {
		layouts = []string{"c"}
	}
	for i, text := range chunks {
		if !utf8.ValidString(text) {
			return fmt.Sprintf("%s: document %d printed as invalid UTF-8 %q", where, i, clip(text, 200))
		}
		got, err := scanJSON(text)
		if err != nil {
			return fmt.Sprintf("%s: document %d is not printed as well-formed JSON (%v): %q", where, i, err, clip(text, 300))
		}
		if _, err := readBack(text); err != nil {
			return fmt.Sprintf("%s: document %d: encoding/json rejects %q: %v", where, i, clip(text, 300), err)
		}
		if msg := yinMatch(c.Want[i], got, "$"); msg != "" {
			return fmt.Sprintf("%s: document %d: %s (printed %q)", where, i, msg, clip(text, 300))
		}
		if msg := checkLayout(text, layouts); msg != "" {
			return fmt.Sprintf("%s: document %d: indentation: %s", where, i, msg)
		}
	}
	if c.Mode == "color" {
		cargs := append([]string{"--yaml-input", "-C"}, c.Flags...)
		rc := cmdline.Run(cmdline.Opt{Stdin: []byte(c.YAML)}, append(cargs, query)...)
		if rc.TimedOut {
			rec.Discard("cli-timeout")
			return ""
		}
		if rc.Exit != 0 || rc.Stderr != "" {
			return fmt.Sprintf("gojq %v exited %d, stderr %q", cargs, rc.Exit, clip(rc.Stderr, 400))
		}
		if sgr.ReplaceAllString(rc.Stdout, "") != r.Stdout {
			return fmt.Sprintf("gojq %v on YAML %q: output without SGR sequences %q differs from the monochrome output %q", cargs, clip(c.YAML, 200), clip(sgr.ReplaceAllString(rc.Stdout, ""), 200), clip(r.Stdout, 200))
		}
	}
	return ""
}

// genYAMLNum draws one spelling of the YAML 1.2 core-schema number grammar.
func genYAMLNum(t *rapid.T) string {
	digits := func(label string, min, max int) string {
		n := rapid.IntRange(min, max).Draw(t, label+"n")
		var sb strings.Builder
		for i := 0; i < n; i++ {
			sb.WriteByte(byte('0' + rapid.IntRange(0, 9).Draw(t, label)))
		}
		return sb.String()
	}
	var sb strings.Builder
	sb.WriteString(rapid.SampledFrom([]string{"", "", "+", "-"}).Draw(t, "sign"))
	intPart := func() string {
		if rapid.IntRange(0, 3).Draw(t, "zero") == 0 {
			return "0"
		}
		return string(byte('1'+rapid.IntRange(0, 8).Draw(t, "d0"))) + digits("int", 0, rapid.SampledFrom([]int{0, 1, 3, 18, 19, 40}).Draw(t, "intlen"))
	}
	form := rapid.IntRange(0, 4).Draw(t, "form")
	zeros := ""
	if form != 1 && rapid.IntRange(0, 4).Draw(t, "leadzero") == 0 {
		zeros = strings.Repeat("0", rapid.IntRange(1, 3).Draw(t, "zeros"))
	}
	octalLike := false
	switch form {
	case 0: // integer
		ip := intPart()
		if zeros != "" && !strings.ContainsAny(ip, "89") {
			// 0[0-7]+ alone is an octal number for the YAML library (documented
			// there; 010 reads as 8): that spelling is not generated, the digits
			// get a 9 or an exponent so that the decimal reading applies
			if rapid.Bool().Draw(t, "nine") {
				ip += "9"
			} else {
				octalLike = true
			}
		}
		sb.WriteString(zeros + ip)
	case 1: // empty integer part
		sb.WriteString("." + digits("frac", 1, rapid.SampledFrom([]int{1, 3, 17, 30}).Draw(t, "fraclen")))
	case 2: // bare decimal point
		sb.WriteString(zeros + intPart() + ".")
	default:
		sb.WriteString(zeros + intPart() + "." + digits("frac", 1, rapid.SampledFrom([]int{1, 3, 17, 30}).Draw(t, "fraclen")))
	}
	withExp := rapid.IntRange(0, 2).Draw(t, "exp") == 0
	if octalLike {
		withExp = true
	}
	if withExp {
		sb.WriteString(rapid.SampledFrom([]string{"e", "E"}).Draw(t, "e"))
		sb.WriteString(rapid.SampledFrom([]string{"", "+", "-"}).Draw(t, "esign"))
		sb.WriteString(rapid.SampledFrom([]string{"0", "1", "3", "03", "007", "10", "22", "308", "400", "999"}).Draw(t, "expdigits"))
	}
	out := sb.String()
	if strings.HasPrefix(out, ".") {
		// the YAML library resolves an unsigned spelling without integer part
		// through ParseFloat and treats it as a string when that overflows
		// (unlike 1e400 or +.1e400): what reaches the encoder is a string, so
		// this is a question of YAML decoding and outside this property
		if _, err := strconv.ParseFloat(out, 64); err != nil {
			if i := strings.IndexAny(out, "eE"); i >= 0 {
				out = out[:i]
			}
		}
	}
	return out
}

var yamlPlainStrings = []string{"abc", "x1", "1x", "1.2.3", "1e", ".e1", "+-1", "1.5.", "e5", "+", ".", "+.", "1e+", "--1", "1..2", "0x", "a b"}

// ynode is a generated YAML node: its block rendering (lines relative to its
// own indentation), its flow rendering and the expected value.
type ynode struct {
	flow   string   // one-line rendering usable anywhere (flow or scalar)
	block  []string // block rendering; nil when only the flow form is used
	want   yv
	scalar bool
}

func genYAMLScalar(t *rapid.T) ynode {
	switch rapid.IntRange(0, 9).Draw(t, "sk") {
	case 0: // a quoted string that looks like a number
		n := genYAMLNum(t)
		q := rapid.SampledFrom([]string{`"`, `'`}).Draw(t, "quote")
		return ynode{flow: q + n + q, want: yv{K: "s", S: n}, scalar: true}
	case 1:
		s := rapid.SampledFrom(yamlPlainStrings).Draw(t, "plain")
		return ynode{flow: s, want: yv{K: "s", S: s}, scalar: true}
	default:
		n := genYAMLNum(t)
		return ynode{flow: n, want: yv{K: "n", N: n}, scalar: true}
	}
}

func genYAMLKey(t *rapid.T, i int) (text, key string) {
	switch rapid.IntRange(0, 3).Draw(t, "keykind") {
	case 0:
		n := genYAMLNum(t)
		q := rapid.SampledFrom([]string{`"`, `'`}).Draw(t, "kquote")
		return q + n + q, n
	default:
		k := "k" + strconv.Itoa(i)
		return k, k
	}
}

func genYAMLNode(t *rapid.T, depth int) ynode {
	kind := rapid.IntRange(0, 9).Draw(t, "nk")
	if depth <= 0 || kind < 4 {
		return genYAMLScalar(t)
	}
	n := rapid.IntRange(0, 4).Draw(t, "width")
	flowOnly := n == 0 || rapid.IntRange(0, 2).Draw(t, "flow") == 0
	kids := make([]ynode, n)
	for i := range kids {
		kids[i] = genYAMLNode(t, depth-1)
	}
	if kind < 7 { // sequence
		w := yv{K: "a", A: []yv{}}
		parts := make([]string, n)
		for i, k := range kids {
			w.A = append(w.A, k.want)
			parts[i] = k.flow
		}
		nd := ynode{flow: "[" + strings.Join(parts, ", ") + "]", want: w}
		if !flowOnly {
			for _, k := range kids {
				if k.block == nil {
					nd.block = append(nd.block, "- "+k.flow)
					continue
				}
				nd.block = append(nd.block, "-")
				for _, l := range k.block {
					nd.block = append(nd.block, "  "+l)
				}
			}
		}
		return nd
	}
	w := yv{K: "o", O: []ykv{}}
	parts := make([]string, 0, n)
	var block []string
	seen := map[string]bool{}
	for i, k := range kids {
		text, key := genYAMLKey(t, i)
		if seen[key] {
			continue
		}
		seen[key] = true
		w.O = append(w.O, ykv{Key: key, Val: k.want})
		parts = append(parts, text+": "+k.flow)
		if k.block == nil {
			block = append(block, text+": "+k.flow)
		} else {
			block = append(block, text+":")
			for _, l := range k.block {
				block = append(block, "  "+l)
			}
		}
	}
	nd := ynode{flow: "{" + strings.Join(parts, ", ") + "}", want: w}
	if !flowOnly && len(block) > 0 {
		nd.block = block
	}
	return nd
}

// ---------------------------------------------------------------------------
// produced numbers: values manufactured by builtins from text (tonumber,
// fromjson, arithmetic, string surgery) and then serialised in every mode

type producer struct {
	q   string // jq program applied to the source string
	src string // grammar of the source: "jq" (what tonumber accepts) | "json"
	tr  string // id | neg | abs | runes | bytes | one : expected value of every number leaf
	n   int    // number of number leaves in the output
}

var producers = []producer{
	{"tonumber", "jq", "id", 1},
	{"tonumber | . + 0", "jq", "id", 1},
	{"tonumber | . - 0", "jq", "id", 1},
	{"tonumber | . * 1", "jq", "id", 1},
	{"tonumber | . / 1", "jq", "id", 1},
	{"tonumber | -.", "jq", "neg", 1},
	{"tonumber | -(-.)", "jq", "id", 1},
	{"tonumber | length", "jq", "abs", 1},
	{"tonumber | abs", "jq", "abs", 1},
	{"[., .] | map(tonumber)", "jq", "id", 2},
	{"[.] | [.[] | tonumber]", "jq", "id", 1},
	{"{a: tonumber}", "jq", "id", 1},
	{"{a: [tonumber, {b: tonumber}]}", "jq", "id", 2},
	{"tonumber | tojson | fromjson", "jq", "id", 1},
	{"tonumber | tostring | tonumber", "jq", "id", 1},
	{"tonumber | @text | tonumber", "jq", "id", 1},
	{"tonumber | @json | fromjson", "jq", "id", 1},
	{`"\(tonumber)" | tonumber`, "jq", "id", 1},
	{`("x" + . + "y") | ltrimstr("x") | rtrimstr("y") | tonumber`, "jq", "id", 1},
	{`("ab" + . + "cd") | .[2:-2] | tonumber`, "jq", "id", 1},
	{`(. + "," + .) | [splits(",")] | map(tonumber)`, "jq", "id", 2},
	{`(. + " " + .) | split(" ") | map(tonumber)`, "jq", "id", 2},
	{`[scan("[-+.0-9eE]+")] | .[0] | tonumber`, "jq", "id", 1},
	{`capture("(?<n>.+)").n | tonumber`, "jq", "id", 1},
	{`sub("^"; "") | tonumber`, "jq", "id", 1},
	{`split("") | join("") | tonumber`, "jq", "id", 1},
	{"explode | implode | tonumber", "jq", "id", 1},
	{"@base64 | @base64d | tonumber", "jq", "id", 1},
	{"ascii_downcase | tonumber", "jq", "id", 1},
	{"tojson | fromjson | tonumber", "jq", "id", 1},
	{"[tonumber] | add", "jq", "id", 1},
	{"[tonumber] | min", "jq", "id", 1},
	{"[tonumber, tonumber] | unique", "jq", "id", 1},
	{"reduce tonumber as $x (null; $x)", "jq", "id", 1},
	{"tonumber as $x | [$x] | first", "jq", "id", 1},
	{"length", "jq", "runes", 1},
	{"utf8bytelength", "jq", "bytes", 1},
	{"[.] | length", "jq", "one", 1},
	{"[explode[] | select(. > 0)] | length", "jq", "runes", 1},
	{"fromjson", "json", "id", 1},
	{`("[" + . + "]") | fromjson | .[0]`, "json", "id", 1},
	{`("{\"a\":[" + . + "," + . + "]}") | fromjson`, "json", "id", 2},
	{"fromjson | tojson | fromjson", "json", "id", 1},
	{"fromjson | [., .]", "json", "id", 2},
	{"{a: fromjson}", "json", "id", 1},
	{"fromjson | . + 0", "json", "id", 1},
	{"fromjson | . * 1", "json", "id", 1},
	{"fromjson | -.", "json", "neg", 1},
	{"fromjson | tostring | tonumber", "json", "id", 1},
	{"fromjson | tonumber", "json", "id", 1},
	{"tonumber | tojson | fromjson | . + 0", "json", "id", 1},
}

var producerByQuery = map[string]producer{}

var prodCodes = map[string]*gojq.Code{}

func init() {
	for _, p := range producers {
		producerByQuery[p.q] = p
	}
}

func prodCode(q string) (*gojq.Code, error) {
	if c, ok := prodCodes[q]; ok {
		return c, nil
	}
	c, err := run.Compile(q)
	if err != nil {
		return nil, err
	}
	prodCodes[q] = c
	return c, nil
}

var jqNum = regexp.MustCompile(`^[-+]?(\.[0-9]+|[0-9]+(\.[0-9]*)?)([eE][-+]?[0-9]+)?$`)

// prodWant: the exact value every number leaf must denote, and whether the
// source denotes an integer without using a fraction or an exponent (then
// the result must be exact; otherwise gojq documents conversion to float64
// and the nearest double, saturated, is admitted as well).
func prodWant(p producer, src string) (*big.Rat, bool, bool) {
	switch p.tr {
	case "runes":
		return new(big.Rat).SetInt64(int64(utf8.RuneCountInString(src))), true, true
	case "bytes":
		return new(big.Rat).SetInt64(int64(len(src))), true, true
	case "one":
		return new(big.Rat).SetInt64(1), true, true
	}
	if !jqNum.MatchString(src) {
		return nil, false, false
	}
	r, ok := litRat(jsonSpelling(src))
	if !ok {
		return nil, false, false
	}
	switch p.tr {
	case "neg":
		r.Neg(r)
	case "abs":
		r.Abs(r)
	}
	return r, !strings.ContainsAny(src, ".eE"), true
}

func prodLeafOK(lit string, want *big.Rat, exact bool) bool {
	got, ok := litRat(lit)
	if ok && got.Cmp(want) == 0 {
		return true
	}
	if exact {
		return false
	}
	w, _ := want.Float64()
	w = min(max(w, -math.MaxFloat64), math.MaxFloat64)
	g, err := strconv.ParseFloat(lit, 64)
	return err == nil && g == w
}

// prodText: text is one strict JSON text whose leaves are exactly n numbers
// denoting want.
func prodText(text string, p producer, src string, nlOK bool) string {
	want, exact, ok := prodWant(p, src)
	if !ok {
		return "bad case: source " + strconv.Quote(src)
	}
	if !utf8.ValidString(text) {
		return fmt.Sprintf("invalid UTF-8 %q", clip(text, 200))
	}
	if !nlOK && strings.ContainsAny(text, "\n\t") {
		return fmt.Sprintf("control character in %q", clip(text, 200))
	}
	v, err := scanJSON(text)
	if err != nil {
		return fmt.Sprintf("%q is not well-formed JSON: %v", clip(text, 200), err)
	}
	if _, err := readBack(text); err != nil {
		return fmt.Sprintf("encoding/json rejects %q: %v", clip(text, 200), err)
	}
	leaves := 0
	var walk func(x any) string
	walk = func(x any) string {
		switch x := x.(type) {
		case json.Number:
			leaves++
			if !prodLeafOK(string(x), want, exact) {
				return fmt.Sprintf("the number %s is printed where %s (from the text %q) is expected", x, clip(want.RatString(), 80), src)
			}
		case []any:
			for _, e := range x {
				if msg := walk(e); msg != "" {
					return msg
				}
			}
		case map[string]any:
			for _, e := range x {
				if msg := walk(e); msg != "" {
					return msg
				}
			}
		default:
			return fmt.Sprintf("unexpected %T in %q", x, clip(text, 200))
		}
		return ""
	}
	if msg := walk(v); msg != "" {
		return msg + fmt.Sprintf(" (output %q)", clip(text, 200))
	}
	if leaves != p.n {
		return fmt.Sprintf("%d numbers in %q, expected %d", leaves, clip(text, 200), p.n)
	}
	return ""
}

type prodCase struct {
	Src  string `json:"src"`
	Prod string `json:"prod"`
}

var prodForms = []string{"%s | tojson", "%s | tostring", "%s | @json", "%s | @text", `"\(%s)"`, `@json "\(%s)"`, "%s | tojson | fromjson | tojson", "[%s] | tojson | .[1:-1]"}

func checkProduced(c prodCase) string {
	p, ok := producerByQuery[c.Prod]
	if !ok {
		return "bad case: unknown producer"
	}
	code, err := prodCode(p.q)
	if err != nil {
		return err.Error()
	}
	res := run.Exec(code, c.Src, 0, 4)
	if res.Err != nil || len(res.Vals) != 1 {
		return fmt.Sprintf("%q | %s: err=%v outputs=%d", c.Src, p.q, res.Err, len(res.Vals))
	}
	v := res.Vals[0]
	b, err := gojq.Marshal(v)
	if err != nil {
		return "Marshal: " + err.Error()
	}
	where := fmt.Sprintf("%q | %s (= %s)", c.Src, p.q, clip(univ.Show(v), 100))
	if msg := prodText(string(b), p, c.Src, false); msg != "" {
		return where + ": Marshal: " + msg
	}
	for _, f := range prodForms {
		q := fmt.Sprintf(f, "("+p.q+")")
		fc, err := prodCode(q)
		if err != nil {
			return err.Error()
		}
		r := run.Exec(fc, c.Src, 0, 4)
		if r.Err != nil || len(r.Vals) != 1 {
			return fmt.Sprintf("%q | %s: err=%v outputs=%d", c.Src, q, r.Err, len(r.Vals))
		}
		s, ok := r.Vals[0].(string)
		if !ok {
			return fmt.Sprintf("%q | %s gave a %T", c.Src, q, r.Vals[0])
		}
		if msg := prodText(s, p, c.Src, false); msg != "" {
			return fmt.Sprintf("%q | %s: %s", c.Src, q, msg)
		}
		if !sameJSON(s, string(b)) {
			return fmt.Sprintf("%q | %s gives %q, Marshal of the same value %q", c.Src, q, clip(s, 200), clip(string(b), 200))
		}
	}
	// and the general oracle on the produced value itself
	if msg := checkLib(libCase{V: univ.V{X: v}}); msg != "" {
		return where + ": " + msg
	}
	return ""
}

type prodCLICase struct {
	Srcs  []string `json:"srcs"`
	Prod  string   `json:"prod"`
	Flags []string `json:"flags"`
	Mode  string   `json:"mode"` // mono | color | raw-tojson
}

func checkProducedCLI(c prodCLICase) string {
	p, ok := producerByQuery[c.Prod]
	if !ok {
		return "bad case: unknown producer"
	}
	var in bytes.Buffer
	for _, s := range c.Srcs {
		b, _ := json.Marshal(s)
		in.Write(b)
		in.WriteByte('\n')
	}
	query, sep := "("+p.q+`), "`+sentinel+`"`, `"`+sentinel+`"`
	args := []string{"-M"}
	switch c.Mode {
	case "mono", "color":
	case "raw-tojson":
		query, sep = "("+p.q+` | tojson), "`+sentinel+`"`, sentinel
		args = append(args, "-r")
	default:
		return "bad mode"
	}
	args = append(args, c.Flags...)
	r := cmdline.Run(cmdline.Opt{Stdin: in.Bytes()}, append(args, query)...)
	if r.TimedOut {
		rec.Discard("cli-timeout")
		return ""
	}
	if r.Exit != 0 || r.Stderr != "" {
		return fmt.Sprintf("gojq %v %q on %q exited %d, stderr %q", args, query, clip(in.String(), 200), r.Exit, clip(r.Stderr, 400))
	}
	chunks, msg := splitLines(r.Stdout, sep, len(c.Srcs))
	if msg != "" {
		return fmt.Sprintf("gojq %v %q: %s", args, query, msg)
	}
	layouts := layoutsOf(c.Flags)
	if c.Mode == "raw-tojson" {
		layouts = []string{"c"}
	}
	for i, text := range chunks {
		where := fmt.Sprintf("gojq %v: %q | %s", args, c.Srcs[i], p.q)
		if c.Mode == "raw-tojson" {
			where += " | tojson"
		}
		if msg := prodText(text, p, c.Srcs[i], true); msg != "" {
			return where + ": " + msg
		}
		if msg := checkLayout(text, layouts); msg != "" {
			return where + ": indentation: " + msg
		}
	}
	if c.Mode == "color" {
		cargs := append([]string{"-C"}, c.Flags...)
		rc := cmdline.Run(cmdline.Opt{Stdin: in.Bytes()}, append(cargs, query)...)
		if rc.TimedOut {
			rec.Discard("cli-timeout")
			return ""
		}
		if rc.Exit != 0 || rc.Stderr != "" {
			return fmt.Sprintf("gojq %v %q exited %d, stderr %q", cargs, query, rc.Exit, clip(rc.Stderr, 400))
		}
		if sgr.ReplaceAllString(rc.Stdout, "") != r.Stdout {
			return fmt.Sprintf("gojq %v %q: output without SGR sequences %q differs from the monochrome output %q", cargs, query, clip(sgr.ReplaceAllString(rc.Stdout, ""), 200), clip(r.Stdout, 200))
		}
	}
	return ""
}

// genJQNum draws a string in the number syntax tonumber accepts: optional
// sign (also +), empty integer part, bare point, leading zeros, exponents.
func genJQNum(t *rapid.T) string {
	digits := func(label string, min, max int) string {
		n := rapid.IntRange(min, max).Draw(t, label+"n")
		var sb strings.Builder
		for i := 0; i < n; i++ {
			sb.WriteByte(byte('0' + rapid.IntRange(0, 9).Draw(t, label)))
		}
		return sb.String()
	}
	lens := []int{1, 2, 5, 16, 17, 18, 19, 20, 30, 40}
	var sb strings.Builder
	sb.WriteString(rapid.SampledFrom([]string{"", "", "+", "-"}).Draw(t, "sign"))
	intPart := func() string {
		z := ""
		if rapid.IntRange(0, 4).Draw(t, "leadzero") == 0 {
			z = strings.Repeat("0", rapid.IntRange(1, 4).Draw(t, "zeros"))
		}
		n := rapid.SampledFrom(lens).Draw(t, "intlen")
		return z + digits("int", n, n)
	}
	frac := func() string {
		n := rapid.SampledFrom(lens).Draw(t, "fraclen")
		return digits("frac", n, n)
	}
	switch rapid.IntRange(0, 5).Draw(t, "form") {
	case 0, 1:
		sb.WriteString(intPart())
	case 2:
		sb.WriteString("." + frac())
	case 3:
		sb.WriteString(intPart() + ".")
	default:
		sb.WriteString(intPart() + "." + frac())
	}
	if rapid.IntRange(0, 2).Draw(t, "exp") == 0 {
		sb.WriteString(rapid.SampledFrom([]string{"e", "E"}).Draw(t, "e"))
		sb.WriteString(rapid.SampledFrom([]string{"", "+", "-"}).Draw(t, "esign"))
		sb.WriteString(rapid.SampledFrom([]string{"0", "1", "3", "03", "007", "10", "22", "290", "308", "330", "400", "999"}).Draw(t, "expdigits"))
	}
	return sb.String()
}

func genProdSrc(t *rapid.T, p producer) string {
	if p.src == "json" {
		return string(genLit(t))
	}
	return genJQNum(t)
}

// ---------------------------------------------------------------------------
// the printed text handed back to the command as --argjson, --jsonargs and
// --slurpfile values comes out as the same text

type rereadCase struct {
	Vals []univ.V `json:"vals"`
}

func checkReread(c rereadCase) string {
	stdin, msg := stdinFor(c.Vals)
	if msg != "" {
		return msg
	}
	r := cmdline.Run(cmdline.Opt{Stdin: stdin}, "-M", "-c", mkDef+"mk")
	if r.TimedOut {
		rec.Discard("cli-timeout")
		return ""
	}
	if r.Exit != 0 || r.Stderr != "" {
		return fmt.Sprintf("gojq -M -c exited %d, stderr %q", r.Exit, clip(r.Stderr, 600))
	}
	lines := strings.Split(strings.TrimSuffix(r.Stdout, "\n"), "\n")
	if len(lines) != len(c.Vals) {
		return fmt.Sprintf("%d output lines for %d values", len(lines), len(c.Vals))
	}
	total := 0
	for i, w := range c.Vals {
		if msg := checkText(w.X, lines[i], false); msg != "" {
			return fmt.Sprintf("gojq -M -c, value %d (%s): %s", i, clip(univ.Show(w.X), 120), msg)
		}
		total += len(lines[i]) + 3
	}
	if total > 100000 {
		rec.Discard("reread-too-long-for-argv")
		return ""
	}
	same := func(how string, rr cmdline.Result) string {
		if rr.TimedOut {
			rec.Discard("cli-timeout")
			return ""
		}
		if rr.Exit != 0 || rr.Stderr != "" {
			return fmt.Sprintf("%s of the printed text %q: exit %d, stderr %q", how, clip(r.Stdout, 300), rr.Exit, clip(rr.Stderr, 400))
		}
		got := strings.Split(strings.TrimSuffix(rr.Stdout, "\n"), "\n")
		if len(got) != len(lines) {
			return fmt.Sprintf("%s: %d lines for %d values", how, len(got), len(lines))
		}
		for i := range lines {
			if got[i] != lines[i] {
				if hasBadUTF8(c.Vals[i].X) && checkText(c.Vals[i].X, got[i], false) == "" {
					continue // \ufffd escape first, the character itself afterwards
				}
				return fmt.Sprintf("%s: the printed text %q (value %s) comes back as %q", how, clip(lines[i], 200), clip(univ.Show(c.Vals[i].X), 120), clip(got[i], 200))
			}
		}
		return ""
	}
	if msg := same("--argjson", cmdline.Run(cmdline.Opt{NoStdin: true}, "-n", "-M", "-c", "--argjson", "a", "["+strings.Join(lines, ",")+"]", "$a[]")); msg != "" {
		return msg
	}
	args := []string{"-n", "-M", "-c", "$ARGS.positional[][0]", "--jsonargs"}
	for _, l := range lines {
		args = append(args, "["+l+"]")
	}
	if msg := same("--jsonargs", cmdline.Run(cmdline.Opt{NoStdin: true}, args...)); msg != "" {
		return msg
	}
	f, err := os.CreateTemp("", "c12-slurp-*.json")
	if err != nil {
		return "harness: " + err.Error()
	}
	defer os.Remove(f.Name())
	f.WriteString(r.Stdout)
	f.Close()
	if msg := same("--slurpfile", cmdline.Run(cmdline.Opt{NoStdin: true}, "-n", "-M", "-c", "--slurpfile", "f", f.Name(), "$f[]")); msg != "" {
		return msg
	}
	return ""
}

// JSON-significant words in every context, and structural / comment-like
// text, for use inside strings and keys.
var (
	sigWords   = []string{"nan", "NaN", "-nan", "-NaN", "null", "true", "false", "Infinity", "-Infinity", "inf", "1e5", "0x10"}
	sigBefore  = []string{"", " ", "\t", "\n", ",", ":", "[", "{", "\""}
	sigAfter   = []string{"", " ", ",", "]", "}", ".", "x"}
	sigStruct  = []string{"//", "/*", "*/", "/* nan */", "// NaN", "#", "# nan", "\\u", "\\u0000", "\\u00", "\"]", "\":", ",\"", "\",\"", "\":\"", "{\"a\":NaN}", "[nan]", "[NaN,-NaN]", ": NaN,", "loss: NaN, step 3", "x is nan", "is nan", "nan nan", " nan ", ",nan,", ":nan", "[nan", "banana", "nano", "\\", "\\\"", "\\n", "'", "</script>", "\u2028", "-", "--", "+1", "01", ".5", "1.", "1e", "[", "]", "{", "}", ",", ":", "[]", "{}", "\"\""}
	sigStrings []string
)

func init() {
	for _, w := range sigWords {
		for _, b := range sigBefore {
			for _, a := range sigAfter {
				sigStrings = append(sigStrings, b+w+a)
			}
		}
	}
	sigStrings = append(sigStrings, sigStruct...)
}

func wrapSig(s string) any {
	return []any{s, map[string]any{s: s}, map[string]any{"k": []any{s, []any{s}}, s + " ": map[string]any{" " + s: nil}}}
}

// ---------------------------------------------------------------------------
// getting an arbitrary Go value out of the command: a JSON "recipe" on stdin
// and a fixed jq function that rebuilds the value from it.

const sentinel = "@@C12-SEP@@"

const mkDef = `def mk: if type == "array" then map(mk) elif type == "object" then (if has("t") then .t | tonumber elif has("n") then .n elif has("x") then .x | @base64d elif has("f") then (if .f == "nan" then nan elif .f == "inf" then infinite else -infinite end) else reduce .o[] as $p ({}; .[$p[0] | mk] = ($p[1] | mk)) end) else . end; `

var mkCode = run.MustCompile(mkDef + "mk")

func recipe(v any) (any, bool) {
	switch v := v.(type) {
	case nil, bool:
		return v, true
	case int:
		return map[string]any{"t": strconv.Itoa(v)}, true
	case *big.Int:
		if v.IsInt64() {
			return nil, false // the command cannot be made to hold a small integer as *big.Int this way
		}
		return map[string]any{"t": v.String()}, true
	case float64:
		switch {
		case math.IsNaN(v):
			return map[string]any{"f": "nan"}, true
		case math.IsInf(v, 1):
			return map[string]any{"f": "inf"}, true
		case math.IsInf(v, -1):
			return map[string]any{"f": "-inf"}, true
		}
		return map[string]any{"t": strconv.FormatFloat(v, 'e', -1, 64)}, true
	case json.Number:
		if !numLit.MatchString(string(v)) {
			return nil, false
		}
		return map[string]any{"n": json.RawMessage(v)}, true
	case string:
		if utf8.ValidString(v) {
			return v, true
		}
		return map[string]any{"x": base64.RawStdEncoding.EncodeToString([]byte(v))}, true
	case []any:
		a := make([]any, len(v))
		for i, x := range v {
			r, ok := recipe(x)
			if !ok {
				return nil, false
			}
			a[i] = r
		}
		return a, true
	case map[string]any:
		ks := make([]string, 0, len(v))
		for k := range v {
			ks = append(ks, k)
		}
		sort.Strings(ks)
		ps := make([]any, len(ks))
		for i, k := range ks {
			rk, _ := recipe(k)
			rv, ok := recipe(v[k])
			if !ok {
				return nil, false
			}
			ps[i] = []any{rk, rv}
		}
		return map[string]any{"o": ps}, true
	}
	return nil, false
}

// stdinFor renders the recipes (one per line) and verifies in-process that
// the fixed rebuilding function maps each recipe to exactly the intended Go
// value (plumbing check: a mismatch is a harness problem, not a verdict).
func stdinFor(vals []univ.V) ([]byte, string) {
	var in bytes.Buffer
	for i, w := range vals {
		r, ok := recipe(w.X)
		if !ok {
			return nil, fmt.Sprintf("harness: value %d cannot be transported to the command: %s", i, clip(univ.Show(w.X), 200))
		}
		b, err := json.Marshal(r)
		if err != nil {
			return nil, "harness: " + err.Error()
		}
		dec := json.NewDecoder(bytes.NewReader(b))
		dec.UseNumber()
		var x any
		if err := dec.Decode(&x); err != nil {
			return nil, "harness: " + err.Error()
		}
		res := run.Exec(mkCode, x, 0, 4)
		if res.Err != nil || len(res.Vals) != 1 || !univ.Same(res.Vals[0], w.X) {
			return nil, fmt.Sprintf("harness: plumbing does not rebuild value %d: want %s, got %s (err %v)", i, clip(univ.Show(w.X), 200), clip(univ.ShowAll(res.Vals), 200), res.Err)
		}
		in.Write(b)
		in.WriteByte('\n')
	}
	return in.Bytes(), ""
}

// ---------------------------------------------------------------------------
// the command's JSON output modes

type cliCase struct {
	Vals    []univ.V `json:"vals"`
	Flags   []string `json:"flags"`   // layout flags: -c, --indent n, --tab (any combination)
	Color   bool     `json:"color"`   // also run with -C and compare after SGR stripping
	Palette string   `json:"palette"` // GOJQ_COLORS for the -C run ("" = unset)
}

var sgr = regexp.MustCompile("\x1b\\[[0-9;]*m")

// layouts admitted by a flag combination: "c" = compact, otherwise the
// indentation unit.  For a single flag exactly one; for combinations any of
// the flags may win (the property does not state a precedence), but the whole
// output must follow one of them.
func layoutsOf(flags []string) []string {
	var ls []string
	for i := 0; i < len(flags); i++ {
		switch flags[i] {
		case "-c":
			ls = append(ls, "c")
		case "--tab":
			ls = append(ls, "\t")
		case "--indent":
			if i+1 < len(flags) {
				n, _ := strconv.Atoi(flags[i+1])
				ls = append(ls, "u"+strings.Repeat(" ", n))
				i++
			}
		}
	}
	if len(ls) == 0 {
		ls = []string{"u  "}
	}
	for i, l := range ls {
		if l == "\t" {
			ls[i] = "u\t"
		}
	}
	return ls
}

// checkIndent: own scanner.  Every line after the first starts with exactly
// depth x unit, where depth is the number of containers open at that point
// (a line that starts with a closing bracket belongs to the outer level).
func checkIndent(text, unit string) string {
	depth := 0
	inStr, esc := false, false
	i := 0
	line := 1
	for i < len(text) {
		c := text[i]
		if inStr {
			switch {
			case esc:
				esc = false
			case c == '\\':
				esc = true
			case c == '"':
				inStr = false
			case c == '\n':
				return fmt.Sprintf("line %d: raw line feed inside a string", line)
			}
			i++
			continue
		}
		switch c {
		case '"':
			inStr = true
		case '[', '{':
			depth++
		case ']', '}':
			depth--
		case '\n':
			line++
			j := i + 1
			for j < len(text) && (text[j] == ' ' || text[j] == '\t') {
				j++
			}
			ws := text[i+1 : j]
			d := depth
			if j < len(text) && (text[j] == ']' || text[j] == '}') {
				d--
			}
			if d < 0 {
				return fmt.Sprintf("line %d: more closing than opening brackets", line)
			}
			if want := strings.Repeat(unit, d); ws != want {
				return fmt.Sprintf("line %d at depth %d: leading whitespace %q, want %d x %q", line, d, clip(ws, 80), d, unit)
			}
			i = j
			continue
		}
		i++
	}
	if len(text) > 0 && (text[0] == ' ' || text[0] == '\t') {
		return "first line is indented"
	}
	return ""
}

func checkLayout(text string, layouts []string) string {
	var msgs []string
	for _, l := range layouts {
		if l == "c" {
			if !strings.ContainsAny(text, "\n") {
				return ""
			}
			msgs = append(msgs, "compact output contains a line feed")
			continue
		}
		msg := checkIndent(text, l[1:])
		if msg == "" {
			return ""
		}
		msgs = append(msgs, msg)
	}
	return strings.Join(msgs, " / ")
}

func splitSentinel(out string, n int) ([]string, string) {
	line := `"` + sentinel + `"`
	chunks := make([]string, 0, n)
	rest := out
	for len(rest) > 0 {
		var chunk string
		if strings.HasPrefix(rest, line+"\n") { // cannot happen for a well-formed stream (a value precedes each sentinel)
			return nil, "empty output for a value"
		}
		k := strings.Index(rest, "\n"+line+"\n")
		if k < 0 {
			return nil, fmt.Sprintf("output does not end with the sentinel line: %q", clip(rest, 200))
		}
		chunk, rest = rest[:k], rest[k+len(line)+2:]
		chunks = append(chunks, chunk)
	}
	if len(chunks) != n {
		return nil, fmt.Sprintf("%d output values for %d inputs", len(chunks), n)
	}
	return chunks, ""
}

func checkCLI(c cliCase) string {
	stdin, msg := stdinFor(c.Vals)
	if msg != "" {
		return msg
	}
	query := mkDef + `mk, "` + sentinel + `"`
	args := append(append([]string{"-M"}, c.Flags...), query)
	r := cmdline.Run(cmdline.Opt{Stdin: stdin}, args...)
	if r.TimedOut {
		rec.Discard("cli-timeout")
		return ""
	}
	if r.Exit != 0 || r.Stderr != "" {
		return fmt.Sprintf("gojq -M %v exited %d, stderr %q", c.Flags, r.Exit, clip(r.Stderr, 600))
	}
	chunks, msg := splitSentinel(r.Stdout, len(c.Vals))
	if msg != "" {
		return fmt.Sprintf("gojq -M %v: %s", c.Flags, msg)
	}
	layouts := layoutsOf(c.Flags)
	for i, w := range c.Vals {
		v := w.X
		text := chunks[i]
		where := fmt.Sprintf("gojq -M %v, value %d (%s)", c.Flags, i, clip(univ.Show(v), 120))
		if msg := checkText(v, text, true); msg != "" {
			return where + ": " + msg
		}
		// all modes agree up to insignificant whitespace: the library text is the reference
		lib, _ := gojq.Marshal(v)
		var cb bytes.Buffer
		if err := json.Compact(&cb, []byte(text)); err != nil || !bytes.Equal(cb.Bytes(), lib) {
			return fmt.Sprintf("%s: after removing insignificant whitespace the command prints %q, the library %q", where, clip(cb.String(), 200), clip(string(lib), 200))
		}
		if msg := checkLayout(text, layouts); msg != "" {
			return where + ": indentation: " + msg
		}
	}
	// the command reads its own output: gojq <flags> . on it prints the same text
	if len(r.Stdout) < 1<<20 {
		rp := cmdline.Run(cmdline.Opt{Stdin: []byte(r.Stdout)}, append(append([]string{"-M"}, c.Flags...), ".")...)
		if rp.TimedOut {
			rec.Discard("cli-timeout")
			return ""
		}
		if rp.Exit != 0 || rp.Stderr != "" {
			return fmt.Sprintf("gojq -M %v . cannot read the output of gojq -M %v (exit %d, stderr %q)", c.Flags, c.Flags, rp.Exit, clip(rp.Stderr, 600))
		}
		if rp.Stdout != r.Stdout {
			// the text is a fixed point except for invalid UTF-8 (escape \ufffd
			// first, the character itself afterwards): those values are compared
			// by reading back
			if again, msg := splitSentinel(rp.Stdout, len(c.Vals)); msg == "" {
				ok := true
				for i, w := range c.Vals {
					if again[i] != chunks[i] && (!hasBadUTF8(w.X) || checkText(w.X, again[i], true) != "") {
						ok = false
					}
				}
				if ok {
					goto reread_ok
				}
			}
			k := 0
			for k < len(rp.Stdout) && k < len(r.Stdout) && rp.Stdout[k] == r.Stdout[k] {
				k++
			}
			lo := max(0, k-60)
			return fmt.Sprintf("gojq -M %v | gojq -M %v . differs from the first output at byte %d: first %q, reread %q", c.Flags, c.Flags, k, clip(r.Stdout[lo:], 160), clip(rp.Stdout[lo:], 160))
		}
	}
reread_ok:
	if c.Color {
		args := append(append([]string{"-C"}, c.Flags...), query)
		var env []string
		if c.Palette != "" {
			env = []string{"GOJQ_COLORS=" + c.Palette}
		}
		rc := cmdline.Run(cmdline.Opt{Stdin: stdin, Env: env}, args...)
		if rc.TimedOut {
			rec.Discard("cli-timeout")
			return ""
		}
		if rc.Exit != 0 || rc.Stderr != "" {
			return fmt.Sprintf("gojq -C %v (GOJQ_COLORS=%q) exited %d, stderr %q", c.Flags, c.Palette, rc.Exit, clip(rc.Stderr, 600))
		}
		stripped := sgr.ReplaceAllString(rc.Stdout, "")
		if stripped != r.Stdout {
			k := 0
			for k < len(stripped) && k < len(r.Stdout) && stripped[k] == r.Stdout[k] {
				k++
			}
			lo := max(0, k-60)
			return fmt.Sprintf("gojq -C %v (GOJQ_COLORS=%q): output without SGR sequences differs from the monochrome output at byte %d: coloured %q, monochrome %q",
				c.Flags, c.Palette, k, clip(stripped[lo:], 160), clip(r.Stdout[lo:], 160))
		}
	}
	return ""
}

// ---------------------------------------------------------------------------
// YAML round trip through the command

type yamlCase struct {
	Vals   []univ.V `json:"vals"`
	Indent int      `json:"indent"` // -1: no --indent flag
}

func checkYAML(c yamlCase) string {
	stdin, msg := stdinFor(c.Vals)
	if msg != "" {
		return msg
	}
	args := []string{"--yaml-output"}
	if c.Indent >= 0 {
		args = append(args, "--indent", strconv.Itoa(c.Indent))
	}
	r := cmdline.Run(cmdline.Opt{Stdin: stdin}, append(args, mkDef+"mk")...)
	if r.TimedOut {
		rec.Discard("cli-timeout")
		return ""
	}
	if r.Exit != 0 || r.Stderr != "" {
		return fmt.Sprintf("gojq %v exited %d, stderr %q", args, r.Exit, clip(r.Stderr, 600))
	}
	if !utf8.ValidString(r.Stdout) {
		return fmt.Sprintf("gojq %v wrote invalid UTF-8: %q", args, clip(r.Stdout, 300))
	}
	r2 := cmdline.Run(cmdline.Opt{Stdin: []byte(r.Stdout)}, "--yaml-input", "-c", "-M", ".")
	if r2.TimedOut {
		rec.Discard("cli-timeout")
		return ""
	}
	if r2.Exit != 0 || r2.Stderr != "" {
		return fmt.Sprintf("--yaml-input cannot read what gojq %v wrote (exit %d, stderr %q); YAML text: %q", args, r2.Exit, clip(r2.Stderr, 400), clip(r.Stdout, 600))
	}
	lines := strings.Split(strings.TrimSuffix(r2.Stdout, "\n"), "\n")
	if len(lines) != len(c.Vals) {
		return fmt.Sprintf("gojq %v wrote %d values, --yaml-input read %d; YAML text: %q", args, len(c.Vals), len(lines), clip(r.Stdout, 600))
	}
	for i, w := range c.Vals {
		if msg := checkText(w.X, lines[i], false); msg != "" {
			return fmt.Sprintf("YAML round trip (gojq %v) of value %d (%s): %s", args, i, clip(univ.Show(w.X), 160), msg)
		}
	}
	return ""
}

// known classes (see /verif/known_findings/C12.json)

const (
	classYAMLBig    = "C12/yaml-bigint"
	classYAMLIndent = "C12/yaml-indent-blockscalar"
	classYAMLTab    = "C12/yaml-leading-tab-multiline"
)

func hasBig(v any) bool {
	switch v := v.(type) {
	case *big.Int:
		return true
	case []any:
		for _, x := range v {
			if hasBig(x) {
				return true
			}
		}
	case map[string]any:
		for _, x := range v {
			if hasBig(x) {
				return true
			}
		}
	}
	return false
}

// needsIndicator: a string the YAML emitter writes as a block scalar with an
// indentation indicator: it contains a line feed and starts with a space or
// a line break.
func needsIndicator(s string) bool {
	if !strings.Contains(s, "\n") || !utf8.ValidString(s) {
		return false
	}
	for _, p := range []string{" ", "\n", "\r", "\u0085", "\u2028", "\u2029"} {
		if strings.HasPrefix(s, p) {
			return true
		}
	}
	return false
}

// indicatorInSeq: such a string (as value or key) somewhere below an array.
func indicatorInSeq(v any, inSeq bool) bool {
	switch v := v.(type) {
	case string:
		return inSeq && needsIndicator(v)
	case []any:
		for _, x := range v {
			if indicatorInSeq(x, true) {
				return true
			}
		}
	case map[string]any:
		for k, x := range v {
			if inSeq && needsIndicator(k) || indicatorInSeq(x, inSeq) {
				return true
			}
		}
	}
	return false
}

// leadingTabMultiline: a string (value or key) that starts with a tab and
// contains a line feed.
func leadingTabMultiline(v any) bool {
	is := func(s string) bool { return strings.HasPrefix(s, "\t") && strings.Contains(s, "\n") }
	switch v := v.(type) {
	case string:
		return is(v)
	case []any:
		for _, x := range v {
			if leadingTabMultiline(x) {
				return true
			}
		}
	case map[string]any:
		for k, x := range v {
			if is(k) || leadingTabMultiline(x) {
				return true
			}
		}
	}
	return false
}

// yamlExcluded names the known class a YAML case falls into ("" = none).
func yamlExcluded(v any, indent int) string {
	if rec.KnownClass(classYAMLTab) && leadingTabMultiline(v) {
		return classYAMLTab
	}
	if rec.KnownClass(classYAMLBig) && hasBig(v) {
		return classYAMLBig
	}
	if rec.KnownClass(classYAMLIndent) && indent >= 0 && indent != 1 && indent != 2 && indicatorInSeq(v, false) {
		return classYAMLIndent
	}
	return ""
}

// ---------------------------------------------------------------------------
// generators

var alpha []string // the property's byte alphabet

var yamlPool = []string{"", " ", " a", "a ", "\n", "a\nb", "a\n", "\na", "\n\n", " a\nb", "a\n b", "\ta", "a\t", "\r", "\r\n", "a\rb",
	"~", "null", "Null", "true", "True", "false", "yes", "no", "on", "off", "y", "n", "1", "-1", "+1", "1.5", "1e2", ".5", "5.", "0x10", "0o7", "0b1", "010", "1_000", "1:20",
	".inf", "-.inf", ".nan", "2015-03-05", "2015-03-05T23:51:47Z", "<<", "=", "-", "--", "---", "--- a", "...", "- a", "-a", "? a", "?", ": a", ":", "a: b", "a:", "a :b",
	"# a", "#", "a #b", "a# b", "&a", "*a", "!a", "!!str a", "|", ">", "|-", "%a", "@a", "`a", "[a", "]", "{a", "}", "[", "{", ",", "a,b", "a, b", "[]", "{}",
	"\u0085", "a\u0085b", "\u2028", "a\u2028b", "\u2029", "\ufeff", "\ufeffa", "a\ufeff", "\ufffd", "\ufffe", "\uffff", "\u00a0", "\u007f", "\u0080", "\u009f", "\u0000", "a\u0000b", "\u0007", "\u001b[0m", "\u001b",
	"'", "''", "\"", "\"\"", "\\", "a\\nb", "'a'", "\"a\"", "a'b", "a\"b", "-0", "0", "0.0", "0e0", "1e1000", "9223372036854775808", "\U0001F600", "\U0010FFFF", "\ud7ff", "\ue000", "e\u0301"}

func init() {
	for b := 0; b < 0x20; b++ {
		alpha = append(alpha, string([]byte{byte(b)}))
	}
	alpha = append(alpha, "\"", "\\", "/", "\x7f", "\x80", "\xbf", "\xc2", "\xe2", "\xf0", "\xff", "a", "\u00e9", " ", "\U0001F600")
}

type gopt struct {
	bad      bool // invalid UTF-8
	depth    int
	width    int
	longStrs bool
}

func genStr(t *rapid.T, o gopt) string {
	var s string
	switch rapid.IntRange(0, 11).Draw(t, "strkind") {
	case 0, 1, 2:
		n := rapid.IntRange(0, 8).Draw(t, "len")
		var sb strings.Builder
		for i := 0; i < n; i++ {
			sb.WriteString(rapid.SampledFrom(alpha).Draw(t, "piece"))
		}
		s = sb.String()
	case 3:
		s = gen.StrBad(8).Draw(t, "strbad")
	case 4, 5:
		s = rapid.SampledFrom(yamlPool).Draw(t, "pool")
	case 6:
		s = rapid.SampledFrom(yamlPool).Draw(t, "p1") + rapid.SampledFrom([]string{"\n", " ", "", ": ", " #", "\n  ", "\t"}).Draw(t, "glue") + rapid.SampledFrom(yamlPool).Draw(t, "p2")
	case 7:
		if o.longStrs {
			piece := rapid.SampledFrom([]string{"a", "ab ", "\u00e9", "\n", "x\ny", "\"", "\\", "\x01", "\U0001F600", " ", "word ", "\xff", "a: b\n", "\u2028"}).Draw(t, "longpiece")
			n := rapid.SampledFrom([]int{40, 90, 130, 300, 1100, 3000, 9000}).Draw(t, "longlen")
			s = strings.Repeat(piece, n/len(piece)+1)
		} else {
			s = gen.Str(12).Draw(t, "str12")
		}
	case 8:
		// arbitrary bytes
		s = string(rapid.SliceOfN(rapid.Byte(), 0, 6).Draw(t, "bytes"))
	case 9:
		// JSON-significant words in context, alone or inside a sentence
		s = rapid.SampledFrom(sigStrings).Draw(t, "sig")
		switch rapid.IntRange(0, 3).Draw(t, "sigctx") {
		case 0:
			s = rapid.SampledFrom([]string{"loss:", "x is", "a,", "[1,", "{\"k\":", "v ="}).Draw(t, "sigpre") + s + rapid.SampledFrom([]string{"", " step 3", ", 2]", "}", " end"}).Draw(t, "sigpost")
		case 1:
			s = s + rapid.SampledFrom([]string{" ", ",", ":", "\n"}).Draw(t, "sigglue") + rapid.SampledFrom(sigStrings).Draw(t, "sig2")
		}
	default:
		s = rapid.SampledFrom([]string{"", "a", "b", "ab", "abc", "key", "a b", "\u00e9", "x/y", "1", "true"}).Draw(t, "plain")
	}
	if !o.bad && !utf8.ValidString(s) {
		s = string([]rune(s)) // replaces each invalid byte
	}
	if s == sentinel {
		s = "s"
	}
	return s
}

func genFloat(t *rapid.T) float64 {
	switch rapid.IntRange(0, 8).Draw(t, "fclass") {
	case 0:
		return math.Float64frombits(rapid.Uint64().Draw(t, "bits"))
	case 1: // subnormals
		return math.Float64frombits(rapid.Uint64Range(0, 1<<52-1).Draw(t, "sub") | uint64(rapid.IntRange(0, 1).Draw(t, "s"))<<63)
	case 2: // around the format thresholds
		base := rapid.SampledFrom([]float64{1e-6, 1e-7, 1e-5, 1e21, 1e20, 1e22, 1e-9, 1e-10, 1e-11, 1, 1e15, 1e16, 1e17, 9007199254740992, 1e308, 1e-308, 1e100, 1e-100}).Draw(t, "base")
		off := rapid.Int64Range(-4, 4).Draw(t, "ulps")
		return math.Float64frombits(uint64(int64(math.Float64bits(base))+off) | uint64(rapid.IntRange(0, 1).Draw(t, "s"))<<63)
	case 3: // d * 10^e
		d := rapid.Int64Range(1, 99999).Draw(t, "d")
		e := rapid.IntRange(-330, 310).Draw(t, "e")
		f, _ := strconv.ParseFloat(fmt.Sprintf("%de%d", d, e), 64)
		if rapid.Bool().Draw(t, "neg") {
			f = -f
		}
		return f
	case 4:
		return rapid.SampledFrom([]float64{0, math.Copysign(0, -1), math.Inf(1), math.Inf(-1), math.NaN(), math.MaxFloat64, -math.MaxFloat64, math.SmallestNonzeroFloat64, -math.SmallestNonzeroFloat64, 0.1, 0.2, 0.3, 1.0 / 3}).Draw(t, "special")
	case 5: // integers beyond 2^53
		k := rapid.IntRange(53, 1023).Draw(t, "k")
		m := rapid.Uint64Range(0, 1<<52-1).Draw(t, "m")
		return math.Float64frombits(uint64(k+1023)<<52 | m)
	case 6: // exponents e-05 .. e-12
		k := rapid.IntRange(-45, -10).Draw(t, "k")
		m := rapid.Uint64Range(0, 1<<52-1).Draw(t, "m")
		return math.Float64frombits(uint64(k+1023)<<52 | m)
	case 7: // one-digit mantissa with a one-digit negative exponent and neighbours (e-07 clean-up)
		d := rapid.IntRange(1, 9).Draw(t, "d")
		e := rapid.IntRange(5, 12).Draw(t, "e")
		f, _ := strconv.ParseFloat(fmt.Sprintf("%de-%d", d, e), 64)
		return f
	default:
		return rapid.Float64().Draw(t, "f")
	}
}

func genLit(t *rapid.T) json.Number {
	digits := func(label string, min, max int) string {
		n := rapid.IntRange(min, max).Draw(t, label+"n")
		var sb strings.Builder
		for i := 0; i < n; i++ {
			sb.WriteByte(byte('0' + rapid.IntRange(0, 9).Draw(t, label)))
		}
		return sb.String()
	}
	var sb strings.Builder
	if rapid.Bool().Draw(t, "neg") {
		sb.WriteByte('-')
	}
	if rapid.IntRange(0, 3).Draw(t, "zero") == 0 {
		sb.WriteByte('0')
	} else {
		sb.WriteByte(byte('1' + rapid.IntRange(0, 8).Draw(t, "d0")))
		sb.WriteString(digits("int", 0, rapid.SampledFrom([]int{0, 2, 17, 19, 25}).Draw(t, "intlen")))
	}
	if rapid.Bool().Draw(t, "frac") {
		sb.WriteByte('.')
		sb.WriteString(digits("frac", 1, rapid.SampledFrom([]int{1, 3, 17, 30}).Draw(t, "fraclen")))
	}
	if rapid.Bool().Draw(t, "exp") {
		sb.WriteString(rapid.SampledFrom([]string{"e", "E"}).Draw(t, "e"))
		sb.WriteString(rapid.SampledFrom([]string{"", "+", "-"}).Draw(t, "esign"))
		sb.WriteString(digits("exp", 1, 4))
	}
	return json.Number(sb.String())
}

func genNum(t *rapid.T) any {
	switch rapid.IntRange(0, 5).Draw(t, "numsrc") {
	case 0, 1:
		return gen.Number(gen.Opt{Reps: true, Special: true}).Draw(t, "num")
	case 2, 3:
		return genFloat(t)
	case 4:
		return genLit(t)
	default:
		k := rapid.IntRange(60, 200).Draw(t, "bigk")
		b := new(big.Int).Lsh(big.NewInt(1), uint(k))
		b.Add(b, big.NewInt(rapid.Int64Range(-3, 3).Draw(t, "bigd")))
		if rapid.Bool().Draw(t, "bigneg") {
			b.Neg(b)
		}
		return b
	}
}

func genScalar(t *rapid.T, o gopt) any {
	switch rapid.IntRange(0, 9).Draw(t, "scalar") {
	case 0:
		return nil
	case 1:
		return rapid.Bool().Draw(t, "bool")
	case 2, 3, 4:
		return genNum(t)
	default:
		return genStr(t, o)
	}
}

func genVal(t *rapid.T, o gopt, depth int) any {
	k := rapid.IntRange(0, 9).Draw(t, "kind")
	if depth <= 0 || k < 4 {
		return genScalar(t, o)
	}
	n := rapid.IntRange(0, o.width).Draw(t, "width")
	if k < 7 {
		a := make([]any, n)
		for i := range a {
			a[i] = genVal(t, o, depth-1)
		}
		return a
	}
	m := make(map[string]any, n)
	seen := map[string]bool{}
	for i := 0; i < n; i++ {
		key := genStr(t, o)
		ck := collapseKey(key)
		val := genVal(t, o, depth-1)
		if seen[ck] {
			continue // keys that may coincide after U+FFFD replacement: not generated
		}
		seen[ck] = true
		m[key] = val
	}
	return m
}

func valGen(o gopt) *rapid.Generator[univ.V] {
	return rapid.Custom(func(t *rapid.T) univ.V { return univ.V{X: cliable(genVal(t, o, o.depth))} })
}

var yamlValGen = rapid.Custom(func(t *rapid.T) univ.V {
	var v any
	switch rapid.IntRange(0, 9).Draw(t, "yshape") {
	case 0:
		v = genDeep(t, 3, 60)
	case 1:
		v = genWide(t, 400)
	default:
		v = genVal(t, gopt{bad: true, depth: 4, width: 4, longStrs: true}, 4)
	}
	return univ.V{X: cliable(v)}
})

// cliable rewrites the representations the command cannot be made to hold
// (a *big.Int that fits int64) into what it would hold (int).
func cliable(v any) any {
	switch v := v.(type) {
	case *big.Int:
		if v.IsInt64() {
			return int(v.Int64())
		}
	case []any:
		for i, x := range v {
			v[i] = cliable(x)
		}
	case map[string]any:
		for k, x := range v {
			v[k] = cliable(x)
		}
	}
	return v
}

// leafPattern: a deterministic family of scalars indexed by i (for wide
// containers, so that a case needs few random draws).
func leafPattern(kind, i int) any {
	switch kind {
	case 0:
		return i
	case 1:
		return "s\n" + strconv.Itoa(i)
	case 2:
		return float64(i) * 1e-7
	case 3:
		return []any{i, "\"q\""}
	case 4:
		return map[string]any{"k\t" + strconv.Itoa(i): nil}
	case 5:
		return "\u00e9\U0001F600\\" + strconv.Itoa(i)
	default:
		return []any{}
	}
}

func genWide(t *rapid.T, maxN int) any {
	n := rapid.IntRange(200, maxN).Draw(t, "wideN")
	kind := rapid.IntRange(0, 6).Draw(t, "wideLeaf")
	if rapid.Bool().Draw(t, "wideObj") {
		m := make(map[string]any, n)
		kk := rapid.SampledFrom([]string{"k", "key \"", "\n", "\u00e9", "a\\"}).Draw(t, "wideKey")
		for i := 0; i < n; i++ {
			m[kk+strconv.Itoa((i*7919)%n)] = leafPattern(kind, i)
		}
		return m
	}
	a := make([]any, n)
	for i := range a {
		a[i] = leafPattern(kind, i)
	}
	return a
}

// genDeep builds a chain of d nested containers with a few siblings before
// and after the nested child on every level; some levels carry a fat sibling
// so that the 8 KiB flush happens between two deep lines.
func genDeep(t *rapid.T, minD, maxD int) any {
	d := rapid.IntRange(minD, maxD).Draw(t, "deepD")
	pat := rapid.SliceOfN(rapid.IntRange(0, 11), 1, 12).Draw(t, "deepPat")
	fatAt := rapid.IntRange(0, d).Draw(t, "fatAt")
	fatN := rapid.SampledFrom([]int{0, 0, 300, 1500}).Draw(t, "fatN")
	var v any = rapid.SampledFrom([]any{nil, 1, "leaf", []any{}, map[string]any{}, "l\n"}).Draw(t, "deepLeaf")
	for lvl := 0; lvl < d; lvl++ {
		p := pat[lvl%len(pat)]
		var fat any
		if fatN > 0 && lvl == fatAt {
			a := make([]any, fatN)
			for i := range a {
				a[i] = i
			}
			fat = a
		}
		switch p % 6 {
		case 0:
			v = []any{v}
		case 1:
			v = []any{lvl, v}
		case 2:
			v = []any{v, "after"}
		case 3:
			v = map[string]any{"k": v}
		case 4:
			v = map[string]any{"a": lvl, "k": v}
		default:
			v = map[string]any{"k": v, "z\n": []any{}}
		}
		if fat != nil {
			if p >= 6 {
				v = []any{fat, v}
			} else {
				v = []any{v, fat}
			}
		}
	}
	return v
}

var flagSets = [][]string{{"-c"}, {}, {"--tab"},
	{"--indent", "0"}, {"--indent", "1"}, {"--indent", "2"}, {"--indent", "3"}, {"--indent", "4"}, {"--indent", "5"}, {"--indent", "6"}, {"--indent", "7"}, {"--indent", "8"}, {"--indent", "9"}}

var comboSets = [][]string{{"--tab", "--indent", "3"}, {"--indent", "5", "--tab"}, {"-c", "--indent", "3"}, {"--indent", "7", "-c"}, {"-c", "--tab"}, {"--tab", "-c", "--indent", "1"}}

func genFlags(t *rapid.T) []string {
	if rapid.IntRange(0, 9).Draw(t, "combo") == 0 {
		return rapid.SampledFrom(comboSets).Draw(t, "comboflags")
	}
	return rapid.SampledFrom(flagSets).Draw(t, "flags")
}

// genPalette: a valid GOJQ_COLORS value (up to 8 fields separated by ':',
// each empty or SGR parameters separated by ';').
func genPalette(t *rapid.T) string {
	n := rapid.IntRange(1, 8).Draw(t, "fields")
	fs := make([]string, n)
	for i := range fs {
		if rapid.IntRange(0, 4).Draw(t, "emptyfield") == 0 {
			continue
		}
		k := rapid.IntRange(1, 4).Draw(t, "params")
		ps := make([]string, k)
		for j := range ps {
			ps[j] = rapid.SampledFrom([]string{"0", "1", "4", "7", "30", "31", "36", "90", "97", "38", "5", "208", "48", "2", "255", "00", "01", "107"}).Draw(t, "param")
		}
		fs[i] = strings.Join(ps, ";")
	}
	return strings.Join(fs, ":")
}

// ---------------------------------------------------------------------------
// non-triviality (the rule of the design: a string needing an escape, a float
// on a format boundary, depth > 16 or size > 8 KiB)

type feat struct{ escape, float, bad bool }

func features(v any, f *feat) {
	str := func(s string) {
		if !utf8.ValidString(s) {
			f.bad = true
			f.escape = true
			return
		}
		for i := 0; i < len(s); i++ {
			if c := s[i]; c < 0x20 || c == '"' || c == '\\' || c == 0x7f {
				f.escape = true
				return
			}
		}
	}
	switch v := v.(type) {
	case float64:
		if a := math.Abs(v); v != v || a != 0 && (a < 1e-4 || a >= 1e20) {
			f.float = true
		}
	case string:
		str(v)
	case []any:
		for _, x := range v {
			features(x, f)
		}
	case map[string]any:
		for k, x := range v {
			str(k)
			features(x, f)
		}
	}
}

func hasBadUTF8(v any) bool {
	var f feat
	features(v, &f)
	return f.bad
}

// note records classes and the non-trivial key of one value under one option set.
func note(v any, opts string) {
	var f feat
	features(v, &f)
	d := univ.Depth(v)
	b, _ := gojq.Marshal(v)
	nt := false
	if f.escape {
		rec.Class("value/escape")
		nt = true
	}
	if f.bad {
		rec.Class("value/invalid-utf8")
	}
	if f.float {
		rec.Class("value/float-boundary")
		nt = true
	}
	if d > 16 {
		rec.Class("value/depth>16")
		nt = true
	}
	if d > 70 {
		rec.Class("value/depth>70")
	}
	if len(b) > 8192 {
		rec.Class("value/size>8KiB")
		nt = true
	}
	if nt {
		rec.NT(opts + "|" + strconv.FormatUint(evid.Hash(univ.Show(v)), 36))
	}
}

// ---------------------------------------------------------------------------
// minimisation of a directly enumerated batch (rapid shrinks its own)

func minimiseCLI(c cliCase) (cliCase, string) {
	msg := checkCLI(c)
	for msg != "" && len(c.Vals) > 1 {
		h := len(c.Vals) / 2
		a, b := c, c
		a.Vals, b.Vals = c.Vals[:h], c.Vals[h:]
		if m := checkCLI(a); m != "" {
			c, msg = a, m
		} else if m := checkCLI(b); m != "" {
			c, msg = b, m
		} else {
			break
		}
	}
	return c, msg
}

func minimiseYAML(c yamlCase) (yamlCase, string) {
	msg := checkYAML(c)
	for msg != "" && len(c.Vals) > 1 {
		h := len(c.Vals) / 2
		a, b := c, c
		a.Vals, b.Vals = c.Vals[:h], c.Vals[h:]
		if m := checkYAML(a); m != "" {
			c, msg = a, m
		} else if m := checkYAML(b); m != "" {
			c, msg = b, m
		} else {
			break
		}
	}
	return c, msg
}

// ---------------------------------------------------------------------------

func replayCase(sub string, raw json.RawMessage) string {
	switch sub {
	case "lib", "str2", "str3", "float", "sig":
		var c libCase
		if err := json.Unmarshal(raw, &c); err != nil {
			return "bad replay: " + err.Error()
		}
		return checkLib(c)
	case "cli", "str2-cli", "layout", "chain", "sig-cli":
		var c cliCase
		if err := json.Unmarshal(raw, &c); err != nil {
			return "bad replay: " + err.Error()
		}
		return checkCLI(c)
	case "retained":
		var c retCase
		if err := json.Unmarshal(raw, &c); err != nil {
			return "bad replay: " + err.Error()
		}
		return checkRetained(c)
	case "produced":
		var c prodCase
		if err := json.Unmarshal(raw, &c); err != nil {
			return "bad replay: " + err.Error()
		}
		return checkProduced(c)
	case "produced-cli":
		var c prodCLICase
		if err := json.Unmarshal(raw, &c); err != nil {
			return "bad replay: " + err.Error()
		}
		return checkProducedCLI(c)
	case "reread", "sig-reread":
		var c rereadCase
		if err := json.Unmarshal(raw, &c); err != nil {
			return "bad replay: " + err.Error()
		}
		return checkReread(c)
	case "yaml-in":
		var c yinCase
		if err := json.Unmarshal(raw, &c); err != nil {
			return "bad replay: " + err.Error()
		}
		return checkYAMLIn(c)
	case "yaml", "str2-yaml", "sig-yaml":
		var c yamlCase
		if err := json.Unmarshal(raw, &c); err != nil {
			return "bad replay: " + err.Error()
		}
		return checkYAML(c)
	}
	return "unknown sub " + sub
}

func wrapStr(s string) any { return []any{s, map[string]any{s: s}} }

func TestC12(t *testing.T) {
	rec = evid.Open("C12")
	defer rec.Close()
	rec.Replays(replayCase)
	if rec.ReplayPath() != "" {
		return
	}
	flag.Set("rapid.shrinktime", "15s") // shrinking a command-line batch costs two processes per attempt

	// (E1) every string of at most two pieces of the property's alphabet:
	// top level, array element, object key and value; library modes for each,
	// command modes and the YAML round trip in batches.
	var strs []string
	strs = append(strs, "")
	for _, a := range alpha {
		strs = append(strs, a)
	}
	for _, a := range alpha {
		for _, b := range alpha {
			strs = append(strs, a+b)
		}
	}
	var mine []univ.V
	complete := true
	for i, s := range strs {
		if !rec.Mine(i) {
			continue
		}
		for _, v := range []any{s, wrapStr(s)} {
			c := libCase{V: univ.V{X: v}}
			rec.Eval()
			note(v, "lib")
			rec.Class("str2/lib")
			if msg := checkLib(c); msg != "" {
				rec.Direct("str2", c, "%s", msg)
				complete = false
			}
			mine = append(mine, univ.V{X: v})
		}
	}
	rec.Exhaustive(fmt.Sprintf("strings of <=2 pieces over a %d-piece alphabet (%d strings), library modes", len(alpha), len(strs)), complete)
	complete = true
	for _, cc := range []cliCase{
		{Flags: []string{"-c"}, Color: true},
		{Flags: []string{}, Color: true, Palette: "1;30:0;31:0;32:0;33:0;34:1;35:1;36:1;37"},
		{Flags: []string{"--tab"}},
		{Flags: []string{"--indent", "7"}, Color: true, Palette: "::::4;32:::"},
	} {
		cc.Vals = mine
		rec.EvalN(int64(len(mine)))
		for _, w := range mine {
			note(w.X, "cli"+strings.Join(cc.Flags, " ")+cc.Palette)
		}
		rec.Class("str2/cli")
		if mc, msg := minimiseCLI(cc); msg != "" {
			rec.Direct("str2-cli", mc, "%s", msg)
			complete = false
		}
	}
	rec.Exhaustive("the same strings through the command (-c, default, --tab, --indent 7; -M and -C)", complete)
	complete = true
	for _, ind := range []int{-1, 1} {
		yc := yamlCase{Indent: ind}
		for _, w := range mine {
			if cl := yamlExcluded(w.X, ind); cl != "" {
				rec.Excluded(cl)
				continue
			}
			yc.Vals = append(yc.Vals, w)
			note(w.X, fmt.Sprint("yaml", ind))
		}
		rec.EvalN(int64(len(yc.Vals)))
		rec.Class("str2/yaml")
		if mc, msg := minimiseYAML(yc); msg != "" {
			rec.Direct("str2-yaml", mc, "%s", msg)
			complete = false
		}
	}
	rec.Exhaustive("the same strings through --yaml-output | --yaml-input", complete)

	// (E4) JSON-significant words (nan, NaN, null, true, Infinity, 1e5, ...) in
	// every context (what precedes / follows them) and structural or
	// comment-like text, as string value, key, array element and nested:
	// library modes incl. gojq's own reader, the command, its re-reading of
	// its own output and of argument values, YAML round trip
	var sigMine []univ.V
	complete = true
	for i, str := range sigStrings {
		if !rec.Mine(i) {
			continue
		}
		for _, v := range []any{str, wrapSig(str)} {
			c := libCase{V: univ.V{X: v}}
			rec.Eval()
			rec.NT("sig|" + str + fmt.Sprint(univ.Depth(v)))
			rec.Class("sig/lib")
			if msg := checkLib(c); msg != "" {
				rec.Direct("sig", c, "%s", msg)
				complete = false
			}
			sigMine = append(sigMine, univ.V{X: v})
		}
	}
	for _, cc := range []cliCase{{Flags: []string{"-c"}, Color: true}, {Flags: []string{}}} {
		cc.Vals = sigMine
		rec.EvalN(int64(len(sigMine)))
		rec.Class("sig/cli")
		if mc, msg := minimiseCLI(cc); msg != "" {
			rec.Direct("sig-cli", mc, "%s", msg)
			complete = false
		}
	}
	{
		rc := rereadCase{Vals: sigMine}
		rec.EvalN(int64(len(sigMine)))
		rec.Class("sig/reread")
		msg := checkReread(rc)
		for msg != "" && len(rc.Vals) > 1 {
			h := len(rc.Vals) / 2
			a, b := rereadCase{Vals: rc.Vals[:h]}, rereadCase{Vals: rc.Vals[h:]}
			if m := checkReread(a); m != "" {
				rc, msg = a, m
			} else if m := checkReread(b); m != "" {
				rc, msg = b, m
			} else {
				break
			}
		}
		if msg != "" {
			rec.Direct("sig-reread", rc, "%s", msg)
			complete = false
		}
		yc := yamlCase{Indent: -1}
		for _, w := range sigMine {
			if cl := yamlExcluded(w.X, -1); cl != "" {
				rec.Excluded(cl)
				continue
			}
			yc.Vals = append(yc.Vals, w)
		}
		rec.EvalN(int64(len(yc.Vals)))
		rec.Class("sig/yaml")
		if mc, msg := minimiseYAML(yc); msg != "" {
			rec.Direct("sig-yaml", mc, "%s", msg)
			complete = false
		}
	}
	rec.Exhaustive(fmt.Sprintf("%d JSON-significant words in context and structural texts, as value / key / element / nested", len(sigStrings)), complete)

	// (E3) pure chains of every depth 1..D (arrays, objects, alternating) under
	// every single layout flag: every indentation width depth x unit up to
	// D x 9 occurs, on an opening and on a closing line.
	maxChain := rec.Scale(150, 400)
	var chains []univ.V
	for d := 1; d <= maxChain; d++ {
		if !rec.Mine(d) {
			continue
		}
		var v any
		for lvl := 0; lvl < d; lvl++ {
			switch {
			case d%3 == 0, d%3 == 2 && lvl%2 == 0:
				v = []any{v}
			default:
				v = map[string]any{"k": v}
			}
		}
		chains = append(chains, univ.V{X: v})
	}
	complete = true
	for _, fl := range flagSets {
		cc := cliCase{Vals: chains, Flags: fl}
		rec.EvalN(int64(len(chains)))
		for _, w := range chains {
			note(w.X, "chain"+strings.Join(fl, " "))
		}
		rec.Class("chain/cli")
		if mc, msg := minimiseCLI(cc); msg != "" {
			rec.Direct("chain", mc, "%s", msg)
			complete = false
		}
	}
	rec.Exhaustive(fmt.Sprintf("chains of every depth 1..%d x 13 layout flags", maxChain), complete)

	// (E2, thorough) strings of three pieces over a reduced alphabet, library modes
	if rec.Thorough() {
		var red []string
		for _, b := range []byte{0x00, 0x08, 0x09, 0x0a, 0x0c, 0x0d, 0x1f, '"', '\\', '/', 0x7f, 0x80, 0xbf, 0xc2, 0xe2, 0xf0, 0xff, 'a', 0x9f, 0x98, 0xed, 0xa0} {
			red = append(red, string([]byte{b}))
		}
		red = append(red, "\u00e9", "\U0001F600", "\ufffd")
		idx := 0
		complete = true
		for _, a := range red {
			for _, b := range red {
				for _, d := range red {
					idx++
					if !rec.Mine(idx) {
						continue
					}
					v := wrapStr(a + b + d)
					c := libCase{V: univ.V{X: v}}
					rec.Eval()
					note(v, "lib")
					rec.Class("str3/lib")
					if msg := checkLib(c); msg != "" {
						rec.Direct("str3", c, "%s", msg)
						complete = false
					}
				}
			}
		}
		rec.Exhaustive(fmt.Sprintf("strings of 3 pieces over a %d-piece alphabet, library modes", len(red)), complete)
	}

	// (R1) random values through the library modes
	rec.Rapid(t, "lib", rec.Scale(80000, 1500000), func(t *rapid.T) {
		v := genVal(t, gopt{bad: true, depth: 3, width: 4, longStrs: true}, 3)
		c := libCase{V: univ.V{X: v}}
		rec.Eval()
		note(v, "lib")
		rec.Class("lib")
		rec.Sample(c)
		if msg := checkLib(c); msg != "" {
			t.Fatalf("%s", rec.Fail("lib", c, "%s", msg))
		}
	})

	// (R2) float64 bit-pattern classes through the library modes
	rec.Rapid(t, "float", rec.Scale(60000, 1500000), func(t *rapid.T) {
		f := genFloat(t)
		v := any(f)
		if rapid.Bool().Draw(t, "wrapped") {
			v = []any{f, map[string]any{"f": f}}
		}
		c := libCase{V: univ.V{X: v}}
		rec.Eval()
		rec.NT(fmt.Sprintf("float/%x", math.Float64bits(f)))
		rec.Class("float")
		if msg := checkLib(c); msg != "" {
			t.Fatalf("%s", rec.Fail("float", c, "%s", msg))
		}
	})

	// (R2b) retained results: histories of library encodes; everything handed
	// out earlier must stay byte-for-byte what it was
	retVal := rapid.Custom(func(t *rapid.T) univ.V {
		switch rapid.IntRange(0, 5).Draw(t, "retshape") {
		case 0:
			return univ.V{X: genScalar(t, gopt{bad: true})}
		case 1: // sized strings and arrays, so that a later encode overwrites a part only
			n := rapid.SampledFrom([]int{0, 1, 3, 7, 20, 63, 64, 65, 200, 1000}).Draw(t, "retlen")
			if rapid.Bool().Draw(t, "retarr") {
				a := make([]any, n)
				for i := range a {
					a[i] = i
				}
				return univ.V{X: a}
			}
			return univ.V{X: strings.Repeat(rapid.SampledFrom([]string{"a", "\n", "\u00e9", "\""}).Draw(t, "retpiece"), n)}
		default:
			return univ.V{X: genVal(t, gopt{bad: true, depth: 3, width: 4, longStrs: true}, 3)}
		}
	})
	retStepGen := rapid.Custom(func(t *rapid.T) retStep {
		st := retStep{I: rapid.IntRange(0, 7).Draw(t, "i")}
		switch rapid.IntRange(0, 9).Draw(t, "op") {
		case 0, 1, 2:
			st.Op = "keep"
		case 3, 4:
			st.Op = "marshal"
		case 5:
			st.Op = "marshal-go"
		default:
			st.Op = "query"
			st.Q = rapid.SampledFrom(retQueryNames).Draw(t, "q")
		}
		return st
	})
	rec.Rapid(t, "retained", rec.Scale(30000, 600000), func(t *rapid.T) {
		c := retCase{Vals: rapid.SliceOfN(retVal, 2, 8).Draw(t, "vals")}
		c.Steps = append([]retStep{{Op: "keep", I: 0}}, rapid.SliceOfN(retStepGen, 1, 16).Draw(t, "steps")...)
		rec.Eval()
		rec.Class("retained")
		for _, st := range c.Steps[1:] {
			rec.Class("retained/op:" + st.Op)
		}
		b, _ := json.Marshal(c)
		rec.NT("retained|" + strconv.FormatUint(evid.Hash(string(b)), 36))
		rec.Sample(c)
		if msg := checkRetained(c); msg != "" {
			t.Fatalf("%s", rec.Fail("retained", c, "%s", msg))
		}
	})

	// (R3) batches of random values through every JSON output mode of the command
	rec.Rapid(t, "cli", rec.Scale(1200, 12000), func(t *rapid.T) {
		vals := rapid.SliceOfN(valGen(gopt{bad: true, depth: 3, width: 4, longStrs: true}), 1, 40).Draw(t, "vals")
		n := len(vals)
		c := cliCase{Vals: vals, Flags: genFlags(t), Color: rapid.IntRange(0, 2).Draw(t, "color") > 0}
		if c.Color && rapid.Bool().Draw(t, "custom") {
			c.Palette = genPalette(t)
		}
		rec.EvalN(int64(n))
		opts := strings.Join(c.Flags, " ") + "|" + fmt.Sprint(c.Color) + c.Palette
		for _, w := range vals {
			note(w.X, opts)
		}
		rec.Class("cli/flags:" + strings.Join(c.Flags, " "))
		switch {
		case !c.Color:
			rec.Class("cli/mono-only")
		case c.Palette == "":
			rec.Class("cli/colour-default")
		default:
			rec.Class("cli/colour-custom")
		}
		rec.Sample(map[string]any{"flags": c.Flags, "palette": c.Palette, "first": univ.Show(vals[0].X)})
		if checkCLI(c) != "" {
			mc, msg := minimiseCLI(c)
			t.Fatalf("%s", rec.Fail("cli", mc, "%s", msg))
		}
	})

	// (R4) deep and wide containers under every indentation unit
	maxD := rec.Scale(110, 260)
	rec.Rapid(t, "layout", rec.Scale(800, 7000), func(t *rapid.T) {
		var v any
		shape := rapid.IntRange(0, 5).Draw(t, "shape")
		switch shape {
		case 0, 1:
			v = genDeep(t, 17, maxD)
		case 2:
			v = genDeep(t, 71, maxD)
		case 3:
			v = genWide(t, rec.Scale(2500, 8000))
		case 4:
			v = []any{genWide(t, 1500), genDeep(t, 17, maxD)}
		default:
			v = map[string]any{"a": genWide(t, 1500), "b\n": genDeep(t, 30, maxD), "c": genVal(t, gopt{bad: true, depth: 3, width: 4}, 3)}
		}
		v = cliable(v)
		c := cliCase{Vals: []univ.V{{X: v}}, Flags: genFlags(t), Color: rapid.IntRange(0, 3).Draw(t, "color") == 0}
		if c.Color && rapid.Bool().Draw(t, "custom") {
			c.Palette = genPalette(t)
		}
		rec.Eval()
		note(v, strings.Join(c.Flags, " ")+"|"+fmt.Sprint(c.Color)+c.Palette)
		rec.Class("layout/flags:" + strings.Join(c.Flags, " "))
		rec.Class(fmt.Sprintf("layout/shape%d", shape))
		if msg := checkCLI(c); msg != "" {
			t.Fatalf("%s", rec.Fail("layout", c, "%s", msg))
		}
	})

	// (R5) YAML round trip
	rec.Rapid(t, "yaml", rec.Scale(1200, 12000), func(t *rapid.T) {
		indent := rapid.SampledFrom([]int{-1, -1, -1, 0, 1, 2, 3, 4, 5, 6, 7, 8, 9}).Draw(t, "indent")
		var vals []univ.V
		for _, w := range rapid.SliceOfN(yamlValGen, 1, 30).Draw(t, "vals") {
			if cl := yamlExcluded(w.X, indent); cl != "" {
				rec.Excluded(cl)
				continue
			}
			vals = append(vals, w)
		}
		if len(vals) == 0 {
			return
		}
		c := yamlCase{Vals: vals, Indent: indent}
		rec.EvalN(int64(len(vals)))
		for _, w := range vals {
			note(w.X, fmt.Sprint("yaml", indent))
		}
		rec.Class(fmt.Sprintf("yaml/indent:%d", indent))
		rec.Sample(map[string]any{"yaml-indent": indent, "first": univ.Show(vals[0].X)})
		if checkYAML(c) != "" {
			mc, msg := minimiseYAML(c)
			t.Fatalf("%s", rec.Fail("yaml", mc, "%s", msg))
		}
	})
	// (R6) YAML input: numbers in every spelling of the YAML 1.2 core schema,
	// at top level, in block and flow sequences and mappings, next to quoted
	// strings that look numeric, printed under every JSON mode
	rec.Rapid(t, "yaml-in", rec.Scale(800, 12000), func(t *rapid.T) {
		nd := rapid.IntRange(1, 4).Draw(t, "docs")
		var sb strings.Builder
		var want []yv
		nums := 0
		for i := 0; i < nd; i++ {
			n := genYAMLNode(t, 3)
			sb.WriteString("---\n")
			if n.block != nil {
				sb.WriteString(strings.Join(n.block, "\n"))
			} else {
				sb.WriteString(n.flow)
			}
			sb.WriteString("\n")
			want = append(want, n.want)
		}
		c := yinCase{YAML: sb.String(), Want: want,
			Flags: rapid.SampledFrom([][]string{{"-c"}, {}, {"--tab"}, {"--indent", "1"}, {"--indent", "7"}}).Draw(t, "flags"),
			Mode:  rapid.SampledFrom([]string{"mono", "mono", "color", "raw-tojson"}).Draw(t, "mode")}
		var count func(w yv)
		count = func(w yv) {
			switch w.K {
			case "n":
				nums++
				switch {
				case strings.HasPrefix(w.N, "+"):
					rec.Class("yaml-in/plus-sign")
				case strings.HasPrefix(strings.TrimPrefix(w.N, "-"), "."):
					rec.Class("yaml-in/empty-integer-part")
				}
				if m, _, _ := strings.Cut(strings.ToLower(w.N), "e"); strings.HasSuffix(m, ".") {
					rec.Class("yaml-in/bare-point")
				}
				if m := strings.TrimLeft(w.N, "+-"); len(m) > 1 && m[0] == '0' && m[1] >= '0' && m[1] <= '9' {
					rec.Class("yaml-in/leading-zero")
				}
				if yamlNum.MatchString(w.N) && !numLit.MatchString(w.N) {
					rec.Class("yaml-in/not-json-spelling")
				}
			case "a":
				for _, x := range w.A {
					count(x)
				}
			case "o":
				for _, kv := range w.O {
					count(kv.Val)
				}
			}
		}
		for _, w := range want {
			count(w)
		}
		rec.Eval()
		rec.Class("yaml-in/mode:" + c.Mode)
		if nums > 0 {
			rec.NT("yaml-in|" + c.Mode + strings.Join(c.Flags, " ") + "|" + c.YAML)
		}
		rec.Sample(map[string]any{"yaml": c.YAML, "flags": c.Flags, "mode": c.Mode})
		if msg := checkYAMLIn(c); msg != "" {
			t.Fatalf("%s", rec.Fail("yaml-in", c, "%s", msg))
		}
	})

	// (R7) numbers produced by builtins from text, serialised in every mode
	prodClass := func(p producer, src string) {
		rec.Class("produced/src:" + p.src)
		if p.src == "jq" && !numLit.MatchString(src) {
			rec.Class("produced/not-json-spelling")
		}
		if m, _, _ := strings.Cut(strings.ToLower(src), "e"); len(sigDigits(m)) > 17 {
			rec.Class("produced/more-than-17-digits")
		}
	}
	rec.Rapid(t, "produced", rec.Scale(24000, 600000), func(t *rapid.T) {
		p := rapid.SampledFrom(producers).Draw(t, "producer")
		c := prodCase{Src: genProdSrc(t, p), Prod: p.q}
		rec.Eval()
		prodClass(p, c.Src)
		rec.NT("produced|" + c.Prod + "|" + c.Src)
		rec.Sample(c)
		if msg := checkProduced(c); msg != "" {
			t.Fatalf("%s", rec.Fail("produced", c, "%s", msg))
		}
	})
	rec.Rapid(t, "produced-cli", rec.Scale(700, 10000), func(t *rapid.T) {
		p := rapid.SampledFrom(producers).Draw(t, "producer")
		srcs := rapid.SliceOfN(rapid.Custom(func(t *rapid.T) string { return genProdSrc(t, p) }), 1, 30).Draw(t, "srcs")
		c := prodCLICase{Srcs: srcs, Prod: p.q,
			Flags: rapid.SampledFrom([][]string{{"-c"}, {}, {"--tab"}, {"--indent", "1"}, {"--indent", "7"}}).Draw(t, "flags"),
			Mode:  rapid.SampledFrom([]string{"mono", "mono", "color", "raw-tojson"}).Draw(t, "mode")}
		rec.EvalN(int64(len(srcs)))
		for _, src := range srcs {
			prodClass(p, src)
			rec.NT("produced-cli|" + c.Mode + strings.Join(c.Flags, " ") + "|" + c.Prod + "|" + src)
		}
		rec.Class("produced-cli/mode:" + c.Mode)
		if msg := checkProducedCLI(c); msg != "" {
			t.Fatalf("%s", rec.Fail("produced-cli", c, "%s", msg))
		}
	})

	// (R8) printed text handed back as --argjson / --jsonargs / --slurpfile
	rec.Rapid(t, "reread", rec.Scale(250, 5000), func(t *rapid.T) {
		vals := rapid.SliceOfN(valGen(gopt{bad: true, depth: 3, width: 4}), 1, 20).Draw(t, "vals")
		c := rereadCase{Vals: vals}
		rec.EvalN(int64(len(vals)))
		for _, w := range vals {
			note(w.X, "reread")
		}
		rec.Class("reread")
		if msg := checkReread(c); msg != "" {
			t.Fatalf("%s", rec.Fail("reread", c, "%s", msg))
		}
	})

}
