package c01

import (
	"encoding/json"
	"regexp"
	"strings"
	"testing"
	"unicode/utf8"

	"verif/internal/corpus"
	"verif/internal/evid"
	"verif/internal/refjq"
	"verif/internal/univ"
)

// midBand: number literals that turn into huge allocations (see C08).
var midBand = regexp.MustCompile(`[0-9]{5,18}|[0-9]+[eE]\+?(0*[4-9]|0*1[0-8])\b`)

// FuzzModelDiff is the native coverage-guided tier (thorough only; it cannot
// be pinned by a seed, the saved failing input is the reproducible unit).
// The fuzzer mutates the text of the repository's own test queries, so it
// reaches surface forms the grammar generator does not write; the oracle is
// the same as everywhere in C01: gojq's output stream against the model's.
func FuzzModelDiff(f *testing.F) {
	var err error
	if model, err = refjq.New(); err != nil {
		f.Fatal(err)
	}
	if rec == nil {
		rec = evid.Open("C01")
	}
	cs, _ := corpus.Load()
	for i, c := range cs {
		if c.Query == "" || len(c.Query) > 200 || i%3 != 0 {
			continue
		}
		in := "null"
		if docs, err := corpus.Docs(c.Input); err == nil && len(docs) > 0 && !c.NullInput {
			if b, err := json.Marshal(docs[0]); err == nil && len(b) < 200 {
				in = string(b)
			}
		}
		f.Add(c.Query, in)
	}
	f.Add(`1 as $x | ((2,$x) | 3) + 10`, "null")
	f.Add(`[(0, . | null), 0]`, "null")
	f.Add(`(1,[2]) | . as [$a] ?// $b | [$a,$b]`, "null")
	f.Add(`label $out | (., break $out | .) | label $out | .`, "[1]")
	f.Fuzz(func(t *testing.T, src string, input string) {
		if len(src) > 240 || len(input) > 240 || !utf8.ValidString(src) || strings.ContainsRune(src, 0) {
			t.Skip()
		}
		src = midBand.ReplaceAllString(src, "7")
		var in any
		d := json.NewDecoder(strings.NewReader(input))
		d.UseNumber()
		if err := d.Decode(&in); err != nil {
			t.Skip()
		}
		c := progCase{Query: src, Input: univ.V{X: in}}
		o := check(c)
		if o.msg != "" {
			b, _ := json.Marshal(map[string]any{"sub": "fuzz", "case": c})
			t.Fatalf("VERIF-CASE %s VERIF-END %s", b, o.msg)
		}
	})
}
