// C01 — query evaluation follows jq's backtracking-generator semantics.
//
// Oracle: the reference interpreter verif/internal/refjq (naive CPS evaluator
// over the parsed AST), validated against the outputs recorded in
// cli/test.yaml.  gojq's Parse -> Compile -> Run -> Next* must produce the
// same value sequence and the same terminal error.
package c01

import (
	"encoding/json"
	"fmt"
	"strings"
	"testing"

	"github.com/itchyny/gojq"
	"pgregory.net/rapid"

	"verif/internal/corpus"
	"verif/internal/diff"
	"verif/internal/evid"
	"verif/internal/gen"
	"verif/internal/refjq"
	"verif/internal/run"
	"verif/internal/univ"
)

var (
	rec   *evid.Rec
	model *refjq.Interp
)

const (
	steps   = 30000
	fuel    = 60000
	maxOuts = 300
)

type progCase struct {
	Query    string   `json:"query"`
	Input    univ.V   `json:"input"`
	Features []string `json:"features,omitempty"`
}

type outcome struct {
	msg     string
	discard string
	outputs int
	errored bool
}

// check runs one (query, input) through gojq and through the model.
func check(c progCase) outcome {
	q, err := gojq.Parse(c.Query)
	if err != nil {
		return outcome{discard: "parse-error"}
	}
	code, err := gojq.Compile(q)
	if err != nil {
		return outcome{discard: "compile-error"}
	}
	in1, in2 := univ.Copy(c.Input.X), univ.Copy(c.Input.X)
	// the model runs first: it carries the resource guards (value size,
	// allocation-sized numbers); what it refuses is never given to gojq
	want := model.Run(q, in2, nil, fuel, maxOuts)
	if model.EmptyIdentity {
		return outcome{discard: "identity-of-empty-containers"}
	}
	if d := want.Discard(); d != "" {
		return outcome{discard: d}
	}
	got := run.Exec(code, in1, steps, maxOuts)
	if got.Panic != "" {
		return outcome{msg: "gojq panicked: " + got.Panic}
	}
	v := diff.Streams(got, want)
	return outcome{msg: v.Msg, discard: v.Discard, outputs: v.Outputs, errored: v.Errored}
}

var controlFeatures = map[string]bool{"try": true, "?//": true, "alt": true, "reduce": true, "foreach": true, "label": true,
	"closure-param": true, "destructure": true, "optional": true, "value-param": true, "recursion": true, "object-keygen": true, "interp": true, "bind": true, "path": true}

func has(fs []string, f string) bool {
	for _, x := range fs {
		if x == f {
			return true
		}
	}
	return false
}

func judge(sub string, c progCase) string {
	rec.Eval()
	rec.Journal(sub, c)
	o := check(c)
	if o.discard != "" {
		rec.Discard(o.discard)
		return ""
	}
	nt := false
	for _, f := range c.Features {
		rec.Class("feature/" + f)
		if controlFeatures[f] {
			nt = true
		}
	}
	if nt && (o.outputs > 0 || o.errored) {
		rec.NT(c.Query + "\x00" + univ.Show(c.Input.X))
	}
	switch {
	case o.errored && o.outputs > 0:
		rec.Class("result/outputs-then-error")
	case o.errored:
		rec.Class("result/error-only")
	case o.outputs > 1:
		rec.Class("result/many-outputs")
	case o.outputs == 1:
		rec.Class("result/one-output")
	default:
		rec.Class("result/empty")
	}
	rec.Sample(map[string]any{"query": c.Query, "input": univ.Show(c.Input.X), "outputs": o.outputs, "errored": o.errored})
	return o.msg
}

func replayCase(sub string, raw json.RawMessage) string {
	var c progCase
	if err := json.Unmarshal(raw, &c); err != nil {
		return "bad replay: " + err.Error()
	}
	o := check(c)
	return o.msg
}

// inputs biased towards the field/index names the program grammar uses.
func inputGen() *rapid.Generator[any] {
	fixed := []any{
		nil, 0, 1, 2, "a", "ab", true, false, []any{}, map[string]any{},
		[]any{1, 2, 3}, []any{0, []any{1, 2}, map[string]any{"a": 1}}, []any{[]any{1}, []any{2, 3}}, []any{"a", "b"}, []any{nil, false, 1},
		map[string]any{"a": 1, "b": 2}, map[string]any{"a": []any{1, 2, map[string]any{"b": nil}}, "b": "x", "c": map[string]any{"a": 1}},
		map[string]any{"a": map[string]any{"a": map[string]any{"a": 0}}}, map[string]any{"a": []any{}, "b": map[string]any{}}, map[string]any{"a": nil, "b": false, "c": 0},
		map[string]any{"a": "b", "b": "c", "c": "a"}, []any{map[string]any{"a": 1, "b": 2}, map[string]any{"a": 3, "b": 4}}, map[string]any{"a": []any{[]any{0, 1}, []any{2}}},
		[]any{3, 1, 2}, map[string]any{"a": 2, "b": []any{1, 2}}, 1.5, "1", []any{[]any{}}, []any{map[string]any{}},
		// fields / elements that name keys of their siblings (computed indices)
		map[string]any{"a": []any{10, 20, 30}, "b": 1, "c": 2}, map[string]any{"a": map[string]any{"x": 1, "y": 2, "ax": 3}, "b": "x", "c": "y"}, []any{[]any{1, 2, 3}, 1, 2},
		[]any{map[string]any{"a": 1, "b": 2}, "a", "b"}, map[string]any{"a": map[string]any{"b": map[string]any{"c": 5}}, "b": "b", "c": "c"},
	}
	return rapid.OneOf(
		rapid.SampledFrom(fixed),
		rapid.SampledFrom(fixed),
		gen.Value(gen.Opt{Reps: true, MaxDepth: 3, MaxWidth: 3, SmallInts: true}),
		rapid.Custom(func(t *rapid.T) any {
			m := map[string]any{}
			for _, k := range []string{"a", "b", "c"} {
				if rapid.IntRange(0, 3).Draw(t, "has") > 0 {
					m[k] = gen.Value(gen.Opt{Reps: true, MaxDepth: 2, MaxWidth: 3, SmallInts: true}).Draw(t, "field")
				}
			}
			return m
		}),
	)
}

func TestC01(t *testing.T) {
	rec = evid.Open("C01")
	defer rec.Close()
	var err error
	if model, err = refjq.New(); err != nil {
		t.Fatal(err)
	}
	rec.Replays(replayCase)
	if rec.ReplayPath() != "" {
		return
	}

	// (K) corpus: every single-query case of cli/test.yaml on its own inputs,
	// against the model (the model itself is validated against the recorded
	// outputs in internal/refjq's TestCorpus).
	cs, err := corpus.Load()
	if err != nil {
		t.Fatal(err)
	}
	univInputs := gen.U60(false, false)
	idx := 0
	for _, c := range cs {
		if c.Query == "" || len(c.Env) > 0 || strings.Contains(strings.ToLower(c.Query), "env") {
			continue
		}
		idx++
		if !rec.Mine(idx) {
			continue
		}
		var inputs []any
		if !c.NullInput {
			inputs, _ = corpus.Docs(c.Input)
		}
		inputs = append(inputs, nil)
		// plus a rotating slice of the universe
		for j := 0; j < 4; j++ {
			inputs = append(inputs, univInputs[(idx*7+j*13)%len(univInputs)])
		}
		for _, in := range inputs {
			pc := progCase{Query: c.Query, Input: univ.V{X: in}, Features: []string{"corpus", "try"}}
			rec.Class("tier/corpus")
			if msg := judge("corpus", pc); msg != "" {
				rec.Direct("corpus", pc, "%s", msg)
			}
		}
	}

	// (E) bounded-exhaustive: every program of the reduced alphabet up to a
	// size bound, on a fixed input set
	enumInputs := []any{nil, 1, "s", []any{1, 2}, map[string]any{"a": []any{0, []any{1}}}, []any{map[string]any{"a": 1}, []any{}}}
	en := gen.NewEnumerator()
	maxFull, maxPartial := 3, 4
	if rec.Thorough() {
		maxFull, maxPartial = 4, 5
	}
	count := 0
	complete := true
	for n := 1; n <= maxPartial; n++ {
		for _, src := range en.Programs(n, 0) {
			count++
			if !rec.Mine(count) {
				continue
			}
			ins := enumInputs
			if n > maxFull {
				ins = []any{enumInputs[(count/7)%len(enumInputs)], enumInputs[4]}
			}
			for _, in := range ins {
				pc := progCase{Query: src, Input: univ.V{X: in}, Features: []string{"enumerated", "try"}}
				rec.Class(fmt.Sprintf("tier/enumerated-size-%d", n))
				if msg := judge("enum", pc); msg != "" {
					rec.Direct("enum", pc, "%s", msg)
					complete = false
					if rec.Violations() > 10 {
						t.Fatalf("too many violations")
					}
				}
			}
		}
	}
	rec.Exhaustive(fmt.Sprintf("all programs of the reduced alphabet with <= %d nodes on %d inputs (and <= %d nodes on 2 inputs)", maxFull, len(enumInputs), maxPartial), complete)

	// (R) bounded-exhaustive "resume" family: a generator in every kind of
	// sub-expression position, whose resumption must find its state (input
	// temporaries, variable slots, argument buffers) as it left it, followed by
	// a construct that allocates temporaries of its own in the same scope
	gens := []string{"g", ".[]?", "(1, 2)", "range(2)", "range(0; 3; 1.5)", "(.a?, 7)", "first(g, g), 5", "limit(2; repeat(3))", "(g | . + 1)", "range(100000000000000000000; 100000000000000000002)"}
	forms := []string{". + (G)", "(G) + .", "[., (G)]", "{a: ., b: (G)}", "(G) as $y | [., $y]", "reduce (G) as $i (.; . + $i)", "reduce (1, 2) as $i (. * (G); . + $i)", "[foreach (G) as $i (.; . + $i)] | add",
		"foreach (1, 2) as $i ((G); . + $i)", "if (G) > 1 then . + 1 else . - 1 end", "\"\\(.)-\\(G)\" | length", "[.,.,.][(G) % 3]", "[.,.,.,.][(G) % 3:] | length", "h(G)", "hv(G; 1)", "(G) // 0", "try (. + (G)) catch -1",
		"label $l | (. + (G))", "[(G), .] | add", "(G) | . + 1", ". as $in | (G) | . + $in", "[paths] | length + (G)", "(.. | numbers) + (G)", "(G) * 1 | . + (G)", "limit(3; . + (G))", "first(. + (G)), (. - (G))"}
	follows := []string{". * 2", "[., . + 1]", "{a: ., b: (. + 1)}", ". as $y | $y + 1", "reduce (1, 2) as $i (.; . + $i)", "if . > 0 then . + 1 else . - 1 end", "tostring | . + \"x\"", "[range(2)] | length", ". + (. * 2)", "[limit(2; ., .)]",
		"[.,.][0:1] | .[0]", "tojson | test(\"1\")", "[., 1] | .[0] as [$q] ?// $q | $q", ". as [$a] ?// $a | [$a] | .[0]", "(. + 1) as $a | (. + 2) as $b | [$a, $b]", "[.] | map(. + 1) | add"}
	rcomplete := true
	rn := 0
	for _, f := range forms {
		for _, g := range gens {
			for ki, k := range follows {
				rn++
				if !rec.Mine(rn) {
					continue
				}
				if !rec.Thorough() && (rn+ki)%3 != 0 {
					continue // quick: a third of the grid
				}
				src := "def g: 1, 2; def h(f): [f] | add; def hv($a; $b): $a + $b; [10 | " + strings.ReplaceAll(f, "G", g) + " | " + k + "]"
				for _, in := range []any{nil, map[string]any{"a": 3}} {
					pc := progCase{Query: src, Input: univ.V{X: in}, Features: []string{"resume", "reduce"}}
					rec.Class("tier/resume")
					if msg := judge("resume", pc); msg != "" {
						rec.Direct("resume", pc, "%s", msg)
						rcomplete = false
						if rec.Violations() > 10 {
							t.Fatalf("too many violations")
						}
					}
				}
			}
		}
	}
	rec.Exhaustive(fmt.Sprintf("resume family: %d positions x %d generators x %d following constructs on 2 inputs", len(forms), len(gens), len(follows)), rcomplete && rec.Thorough())

	// stateful model test of the two persistent stacks (hooks): LIFO fork
	// discipline against an immutable-list model
	rec.Rapid(t, "stack-model", rec.Scale(3000, 100000), func(t *rapid.T) { stackModel(t) })
	rec.Rapid(t, "scope-stack-model", rec.Scale(3000, 100000), func(t *rapid.T) { scopeStackModel(t) })

	conf := gen.Conf{AltPat: true, Paths: true, Builtins: true, MaxNodes: 40,
		Halt:       !rec.KnownClass("C01/halt-under-destructuring-alternative"),
		AltPatFree: !rec.KnownClass("C01/stale-variable-in-destructuring-alternative")}
	progs := gen.Program(conf)
	inputs := inputGen()
	rec.Rapid(t, "core", rec.Scale(120000, 6000000), func(t *rapid.T) {
		p := progs.Draw(t, "prog")
		in := inputs.Draw(t, "input")
		c := progCase{Query: p.Src, Input: univ.V{X: in}, Features: p.Features}
		rec.Class("tier/random")
		if msg := judge("core", c); msg != "" {
			t.Fatalf("%s", rec.Fail("core", c, "%s", msg))
		}
	})
	_ = fmt.Sprint
}

// ---------------------------------------------------------------------------
// persistent stacks against an immutable-list model

type cell struct {
	v    int
	next *cell
}

type savedFork struct {
	list       *cell
	index, lim int
}

func stackModel(t *rapid.T) {
	impl := gojq.VerifNewStack()
	var cur *cell
	var forks []savedFork
	depth, maxDepth, ops := 0, 0, 0
	next := 0
	t.Repeat(map[string]func(*rapid.T){
		"push": func(t *rapid.T) {
			next++
			impl.Push(next)
			cur = &cell{next, cur}
			depth++
			if depth > maxDepth {
				maxDepth = depth
			}
			ops++
		},
		"pop": func(t *rapid.T) {
			if cur == nil {
				t.Skip("empty")
			}
			got := impl.Pop()
			if got != cur.v {
				t.Fatalf("%s", rec.Fail("stack-model", map[string]any{"ops": ops}, "pop returned %v, the model says %d", got, cur.v))
			}
			cur = cur.next
			depth--
			ops++
		},
		"save": func(t *rapid.T) {
			i, l := impl.Save()
			forks = append(forks, savedFork{cur, i, l})
			ops++
		},
		"restore": func(t *rapid.T) {
			if len(forks) == 0 {
				t.Skip("no fork")
			}
			f := forks[len(forks)-1]
			forks = forks[:len(forks)-1]
			impl.Restore(f.index, f.lim)
			cur = f.list
			depth = 0
			for c := cur; c != nil; c = c.next {
				depth++
			}
			ops++
		},
		"": func(t *rapid.T) {
			if impl.Empty() != (cur == nil) {
				t.Fatalf("%s", rec.Fail("stack-model", map[string]any{"ops": ops}, "Empty() = %v, the model has %v", impl.Empty(), cur == nil))
			}
			if cur != nil && impl.Top() != cur.v {
				t.Fatalf("%s", rec.Fail("stack-model", map[string]any{"ops": ops}, "Top() = %v, the model says %d", impl.Top(), cur.v))
			}
		},
	})
	rec.Eval()
	if len(forks) > 0 || ops > 10 {
		rec.NT(fmt.Sprintf("stack-model/%d/%d/%d", ops, maxDepth, next))
	}
	rec.Class("stack-model")
}

func scopeStackModel(t *rapid.T) {
	impl := gojq.VerifNewScopeStack()
	var cur *cell
	var forks []savedFork
	ops, next := 0, 0
	t.Repeat(map[string]func(*rapid.T){
		"push": func(t *rapid.T) {
			next++
			impl.Push(next)
			cur = &cell{next, cur}
			ops++
		},
		"pop": func(t *rapid.T) {
			if cur == nil {
				t.Skip("empty")
			}
			got := impl.Pop()
			if got != cur.v {
				t.Fatalf("%s", rec.Fail("scope-stack-model", map[string]any{"ops": ops}, "pop returned %v, the model says %d", got, cur.v))
			}
			cur = cur.next
			ops++
		},
		"save": func(t *rapid.T) {
			i, l := impl.Save()
			forks = append(forks, savedFork{cur, i, l})
			ops++
		},
		"restore": func(t *rapid.T) {
			if len(forks) == 0 {
				t.Skip("no fork")
			}
			f := forks[len(forks)-1]
			forks = forks[:len(forks)-1]
			impl.Restore(f.index, f.lim)
			cur = f.list
			ops++
		},
		"": func(t *rapid.T) {
			if impl.Empty() != (cur == nil) {
				t.Fatalf("%s", rec.Fail("scope-stack-model", map[string]any{"ops": ops}, "Empty() = %v, the model has %v", impl.Empty(), cur == nil))
			}
		},
	})
	rec.Eval()
	if len(forks) > 0 || ops > 10 {
		rec.NT(fmt.Sprintf("scope-stack-model/%d/%d", ops, next))
	}
	rec.Class("scope-stack-model")
}
