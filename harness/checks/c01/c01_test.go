// C01 — query evaluation follows jq's backtracking-generator semantics.
//
// Oracle: the reference interpreter verif/internal/refjq (naive CPS evaluator
// over the parsed AST), validated against the outputs recorded in
// cli/test.yaml.  gojq's Parse -> Compile -> Run -> Next* must produce the
// same value sequence and the same terminal error.
package c01

import (
	"encoding/json"
	"fmt"
	"strings"
	"testing"

	"github.com/itchyny/gojq"
	"pgregory.net/rapid"

	"verif/internal/corpus"
	"verif/internal/diff"
	"verif/internal/evid"
	"verif/internal/gen"
	"verif/internal/refjq"
	"verif/internal/run"
	"verif/internal/univ"
)

var (
	rec   *evid.Rec
	model *refjq.Interp
)

const (
	steps   = 30000
	fuel    = 60000
	maxOuts = 300
)

type progCase struct {
	Query    string   `json:"query"`
	Input    univ.V   `json:"input"`
	Features []string `json:"features,omitempty"`
}

type outcome struct {
	msg     string
	discard string
	outputs int
	errored bool
}

// check runs one (query, input) through gojq and through the model.
func check(c progCase) outcome {
	q, err := gojq.Parse(c.Query)
	if err != nil {
		return outcome{discard: "parse-error"}
	}
	code, err := gojq.Compile(q)
	if err != nil {
		return outcome{discard: "compile-error"}
	}
	in1, in2 := univ.Copy(c.Input.X), univ.Copy(c.Input.X)
	// the model runs first: it carries the resource guards (value size,
	// allocation-sized numbers); what it refuses is never given to gojq
	want := model.Run(q, in2, nil, fuel, maxOuts)
	if model.EmptyIdentity {
		return outcome{discard: "identity-of-empty-containers"}
	}
	if d := want.Discard(); d != "" {
		return outcome{discard: d}
	}
	got := run.Exec(code, in1, steps, maxOuts)
	if got.Panic != "" {
		return outcome{msg: "gojq panicked: " + got.Panic}
	}
	v := diff.Streams(got, want)
	return outcome{msg: v.Msg, discard: v.Discard, outputs: v.Outputs, errored: v.Errored}
}

var controlFeatures = map[string]bool{"try": true, "?//": true, "alt": true, "reduce": true, "foreach": true, "label": true,
	"closure-param": true, "destructure": true, "optional": true, "value-param": true, "recursion": true, "object-keygen": true, "interp": true, "bind": true, "path": true}

func has(fs []string, f string) bool {
	for _, x := range fs {
		if x == f {
			return true
		}
	}
	return false
}

func judge(sub string, c progCase) string {
	rec.Eval()
	rec.Journal(sub, c)
	o := check(c)
	if o.discard != "" {
		rec.Discard(o.discard)
		return ""
	}
	nt := false
	for _, f := range c.Features {
		rec.Class("feature/" + f)
		if controlFeatures[f] {
			nt = true
		}
	}
	if nt && (o.outputs > 0 || o.errored) {
		rec.NT(c.Query + "\x00" + univ.Show(c.Input.X))
	}
	switch {
	case o.errored && o.outputs > 0:
		rec.Class("result/outputs-then-error")
	case o.errored:
		rec.Class("result/error-only")
	case o.outputs > 1:
		rec.Class("result/many-outputs")
	case o.outputs == 1:
		rec.Class("result/one-output")
	default:
		rec.Class("result/empty")
	}
	rec.Sample(map[string]any{"query": c.Query, "input": univ.Show(c.Input.X), "outputs": o.outputs, "errored": o.errored})
	return o.msg
}

func replayCase(sub string, raw json.RawMessage) string {
	var c progCase
	if err := json.Unmarshal(raw, &c); err != nil {
		return "bad replay: " + err.Error()
	}
	o := check(c)
	return o.msg
}

// inputs biased towards the field/index names the program grammar uses.
func inputGen() *rapid.Generator[any] {
	fixed := []any{
		nil, 0, 1, 2, "a", "ab", true, false, []any{}, map[string]any{},
		[]any{1, 2, 3}, []any{0, []any{1, 2}, map[string]any{"a": 1}}, []any{[]any{1}, []any{2, 3}}, []any{"a", "b"}, []any{nil, false, 1},
		map[string]any{"a": 1, "b": 2}, map[string]any{"a": []any{1, 2, map[string]any{"b": nil}}, "b": "x", "c": map[string]any{"a": 1}},
		map[string]any{"a": map[string]any{"a": map[string]any{"a": 0}}}, map[string]any{"a": []any{}, "b": map[string]any{}}, map[string]any{"a": nil, "b": false, "c": 0},
		map[string]any{"a": "b", "b": "c", "c": "a"}, []any{map[string]any{"a": 1, "b": 2}, map[string]any{"a": 3, "b": 4}}, map[string]any{"a": []any{[]any{0, 1}, []any{2}}},
		[]any{3, 1, 2}, map[string]any{"a": 2, "b": []any{1, 2}}, 1.5, "1", []any{[]any{}}, []any{map[string]any{}},
	}
	return rapid.OneOf(
		rapid.SampledFrom(fixed),
		rapid.SampledFrom(fixed),
		gen.Value(gen.Opt{Reps: true, MaxDepth: 3, MaxWidth: 3, SmallInts: true}),
		rapid.Custom(func(t *rapid.T) any {
			m := map[string]any{}
			for _, k := range []string{"a", "b", "c"} {
				if rapid.IntRange(0, 3).Draw(t, "has") > 0 {
					m[k] = gen.Value(gen.Opt{Reps: true, MaxDepth: 2, MaxWidth: 3, SmallInts: true}).Draw(t, "field")
				}
			}
			return m
		}),
	)
}

func TestC01(t *testing.T) {
	rec = evid.Open("C01")
	defer rec.Close()
	var err error
	if model, err = refjq.New(); err != nil {
		t.Fatal(err)
	}
	rec.Replays(replayCase)
	if rec.ReplayPath() != "" {
		return
	}

	// (K) corpus: every single-query case of cli/test.yaml on its own inputs,
	// against the model (the model itself is validated against the recorded
	// outputs in internal/refjq's TestCorpus).
	cs, err := corpus.Load()
	if err != nil {
		t.Fatal(err)
	}
	univInputs := gen.U60(false, false)
	idx := 0
	for _, c := range cs {
		if c.Query == "" || len(c.Env) > 0 || strings.Contains(strings.ToLower(c.Query), "env") {
			continue
		}
		idx++
		if !rec.Mine(idx) {
			continue
		}
		var inputs []any
		if !c.NullInput {
			inputs, _ = corpus.Docs(c.Input)
		}
		inputs = append(inputs, nil)
		// plus a rotating slice of the universe
		for j := 0; j < 4; j++ {
			inputs = append(inputs, univInputs[(idx*7+j*13)%len(univInputs)])
		}
		for _, in := range inputs {
			pc := progCase{Query: c.Query, Input: univ.V{X: in}, Features: []string{"corpus", "try"}}
			rec.Class("tier/corpus")
			if msg := judge("corpus", pc); msg != "" {
				rec.Direct("corpus", pc, "%s", msg)
			}
		}
	}

	conf := gen.Conf{AltPat: true, Paths: true, Builtins: true, MaxNodes: 40,
		Halt:       !rec.KnownClass("C01/halt-under-destructuring-alternative"),
		AltPatFree: !rec.KnownClass("C01/stale-variable-in-destructuring-alternative")}
	progs := gen.Program(conf)
	inputs := inputGen()
	rec.Rapid(t, "core", rec.Scale(120000, 6000000), func(t *rapid.T) {
		p := progs.Draw(t, "prog")
		in := inputs.Draw(t, "input")
		c := progCase{Query: p.Src, Input: univ.V{X: in}, Features: p.Features}
		rec.Class("tier/random")
		if msg := judge("core", c); msg != "" {
			t.Fatalf("%s", rec.Fail("core", c, "%s", msg))
		}
	})
	_ = fmt.Sprint
}
