// C06 — a compiled query can be run from many goroutines at once.
//
// Built with -race (GORACE=halt_on_error=1): a data race, a runtime fatal
// error (concurrent map writes) or a deadlock kills the shard and the driver
// attributes it to the journalled case.  Every goroutine's output stream must
// equal the sequential baseline.
package c06

import (
	"encoding/json"
	"fmt"
	"math/big"
	"strings"
	"sync"
	"testing"
	"time"

	"github.com/itchyny/gojq"
	"pgregory.net/rapid"

	"verif/internal/corpus"
	"verif/internal/custom"
	"verif/internal/evid"
	"verif/internal/gen"
	"verif/internal/modfix"
	"verif/internal/refjq"
	"verif/internal/run"
	"verif/internal/univ"
)

var (
	rec   *evid.Rec
	model *refjq.Interp
)

var watchdog = 120 * time.Second

const (
	steps   = 20000
	fuel    = 40000
	maxOuts = 100
)

type concCase struct {
	Query      string `json:"query"`
	Input      univ.V `json:"input"`
	Goroutines int    `json:"goroutines"`
	Reps       int    `json:"reps"`
	Mode       string `json:"mode"` // code-shared-input | code-own-input | query-shared-input | query-own-input | compile-each
}

func render(r run.Result) string {
	var sb strings.Builder
	for _, v := range r.Vals {
		b, _ := gojq.Marshal(v)
		sb.Write(b)
		sb.WriteByte('\n')
	}
	if r.Err != nil {
		sb.WriteString("error: " + r.Err.Error())
	}
	if r.Panic != "" {
		sb.WriteString("PANIC: " + r.Panic)
	}
	return sb.String()
}

func runQuery(q *gojq.Query, input any) run.Result {
	// (*Query).RunWithContext compiles on every call
	ctx := run.NewCountCtx(steps)
	var res run.Result
	func() {
		defer func() {
			if r := recover(); r != nil {
				res.Panic = fmt.Sprint(r)
			}
		}()
		it := q.RunWithContext(ctx, input)
		for {
			v, ok := it.Next()
			if !ok {
				break
			}
			if e, isErr := v.(error); isErr {
				if ctx.Fired() {
					res.Budget = true
				} else {
					res.Err = e
				}
				break
			}
			res.Vals = append(res.Vals, v)
			if len(res.Vals) >= maxOuts {
				res.Budget = true
				break
			}
		}
	}()
	return res
}

func check(c concCase, repeat int) (msg, discard string) {
	if strings.Contains(c.Query, "cf_") && strings.HasPrefix(c.Mode, "query") {
		c.Mode = "code-shared-input" // (*Query).Run compiles without options: no custom functions there
	}
	q, err := gojq.Parse(c.Query)
	if err != nil {
		return "", "parse-error"
	}
	var opts []gojq.CompilerOption
	if strings.Contains(c.Query, "cf_") {
		opts = custom.Funcs // only where they are called: `builtins` lists them
	}
	code, err := gojq.Compile(q, opts...)
	if err != nil {
		return "", "compile-error"
	}
	mq := q
	if strings.Contains(c.Query, "cf_") {
		if mq, err = gojq.Parse(custom.Defs + c.Query); err != nil {
			return "", "parse-error"
		}
	}
	want := model.Run(mq, univ.Copy(c.Input.X), nil, fuel, maxOuts)
	if d := want.Discard(); strings.HasPrefix(d, "resource") || d == "fuel" {
		return "", d // only the resource guards matter here; the model's language limits do not
	}
	// the baseline runs on its own compiled Code: the Code used concurrently
	// below is fresh, so that lazily initialised per-Code state is first
	// touched by several goroutines at once
	baseCode, err := gojq.Compile(q, opts...)
	if err != nil {
		return "", "compile-error"
	}
	base := run.Exec(baseCode, withSpare(univ.Copy(c.Input.X)), steps, maxOuts) // the same kind of input as the concurrent runs get
	if base.Budget {
		return "", "budget"
	}
	if base.Panic != "" {
		return "gojq panicked: " + base.Panic, ""
	}
	baseline := render(base)
	// the shared input's arrays have spare capacity, as decoded or appended
	// arrays do: a native that appends to an operand writes into memory every
	// goroutine sees
	shared := withSpare(univ.Copy(c.Input.X))
	snapshot := univ.Copy(shared)
	for round := 0; round < repeat; round++ {
		if round > 0 {
			// a fresh Code for every round
			if code, err = gojq.Compile(q, opts...); err != nil {
				return "", "compile-error"
			}
		}
		var wg sync.WaitGroup
		var mu sync.Mutex
		var failure string
		finished := 0
		start := make(chan struct{})
		for g := 0; g < c.Goroutines; g++ {
			wg.Add(1)
			go func(g int) {
				defer wg.Done()
				defer func() { mu.Lock(); finished++; mu.Unlock() }()
				<-start
				for r := 0; r < c.Reps; r++ {
					in := shared
					if strings.HasSuffix(c.Mode, "own-input") {
						in = univ.Copy(c.Input.X)
					}
					var res run.Result
					switch {
					case c.Mode == "code-cancel-mix" && g%2 == 1:
						// every other goroutine runs under a context that fires after a
						// few polls and keeps calling Next until it returns false, as
						// consumers do; the neighbours must not notice
						if m := cancelledRun(code, in, 1+(g*7+r*3)%40, base.Vals); m != "" {
							mu.Lock()
							if failure == "" {
								failure = fmt.Sprintf("goroutine %d repetition %d (cancelled run): %s", g, r, m)
							}
							mu.Unlock()
							return
						}
						continue
					case strings.HasPrefix(c.Mode, "code"):
						res = run.Exec(code, in, steps, maxOuts)
					case strings.HasPrefix(c.Mode, "query"):
						res = runQuery(q, in)
					default: // compile-each: concurrent Compile of the shared query
						cc, err := gojq.Compile(q, opts...)
						if err != nil {
							res.Panic = "compile failed concurrently: " + err.Error()
						} else {
							res = run.Exec(cc, in, steps, maxOuts)
						}
					}
					if got := render(res); got != baseline && !res.Budget {
						mu.Lock()
						if failure == "" {
							failure = fmt.Sprintf("goroutine %d repetition %d (%s) produced\n%s\nthe sequential run produced\n%s", g, r, c.Mode, got, baseline)
						}
						mu.Unlock()
						return
					}
				}
			}(g)
		}
		close(start)
		// deadlock watchdog: every run is bounded by the step budget and takes
		// milliseconds; goroutines still blocked after two minutes are deadlocked
		// (the only use of the clock in this check, margin about 10^4)
		done := make(chan struct{})
		go func() { wg.Wait(); close(done) }()
		select {
		case <-done:
		case <-time.After(watchdog):
			mu.Lock()
			n := finished
			mu.Unlock()
			return fmt.Sprintf("deadlock: only %d of %d goroutines finished within %v (%s)", n, c.Goroutines, watchdog, c.Mode), ""
		}
		if failure != "" {
			return failure, ""
		}
		if !univ.Same(shared, snapshot) {
			return fmt.Sprintf("the shared input changed: %s -> %s", univ.Show(snapshot), univ.Show(shared)), ""
		}
	}
	return "", ""
}

var templates = []string{
	// integers beyond int64 in the shared input and in the shared code
	".n * 3", "3 * .n", ".n * .n", "100000000000000000000 * (.k // 2)", "(.k // 2) * 100000000000000000000", ".n + 1", ".n - .m", ".n % 7", ".n / .m", "-(.n)", ".n | abs", "[.n, .m] | add", "[.n, .m] | (min, max)", ".n * 100000000000000000000",
	"[.[]? | numbers | . * 100000000000000000000]", "[.[]? | numbers | 100000000000000000000 * .]", "[.[]? | numbers | 100000000000000000000 + .]", "(.n *= 2) | .n", "(.n += .m) | .n", "[.n, .n] | map(. * 2)", "reduce (.n, .m) as $x (1; . * $x)",
	".n | tojson", ".n | tostring | tonumber", "[.n, .m] | sort", ".n == .m, .n < .m", "[limit(3; repeat(.n * 2))]", ".n * 0, .n * 1, .n * -1",
	"del(.a.q)", "del(.a)", "del(.[0])", "del(.a[0], .b)", "delpaths([[\"a\",\"q\"]])", "delpaths([[\"a\"],[\"b\",\"a\"]])", ".a = 1", ".a.b = 2", ".[0] = 9", ".a += 1", ".a |= . + [1]", ".[] |= .", ".. |= .",
	"to_entries", "with_entries(.)", "map_values(.)", "add", "sort", "sort_by(.a?)", "group_by(.a?)", "unique", "reverse", "flatten", "[paths]", "[tostream]", "tojson", "tostring", "keys", "[.[]]", "walk(.)",
	"{\"a\":{\"q\":1,\"r\":[1,2]}} | del(.a.q)", "{\"a\":[1,2]} | .a += [3]", "[[1,2],[3]] | .[0] |= . + [4]", "[3,1,2] | sort", "{\"a\":{\"b\":1}} | del(.a.b)", "[1,2,3] as $c | $c | .[1:] = [7]", "[[1,2],[3]] | add | .[0] = 5",
	"{\"a\":[1,2]} as $c | [$c, ($c | .a[0] = 0), $c]", "[[3,1],[2]] | map(sort)", "[1,2,3] | del(.[0])", "{\"a\":{\"b\":{\"c\":[1,{\"d\":2}]}}} | del(.a.b.c[1].d)", "{\"a\":{\"b\":1},\"c\":{\"d\":2}} | delpaths([[\"a\",\"b\"]])",
	"[{\"a\":1},{\"a\":2}] | map(del(.a))", "{\"a\":[{\"b\":1}]} | .a[0].b |= . + 1", "{\"a\":{\"q\":1}} | to_entries", "[{\"a\":{\"q\":1}}] | .[0] | del(.a.q)", "{} | .a.b.c = 1", "[[],[]] | .[0] += [1]",
	"test(\"a+\")", "[match(\"(?<x>a)(b)?\"; \"g\")]", "sub(\"a\"; \"b\")", "gsub(\"[a-c]\"; \"x\")", "[splits(\"a\")]", "capture(\"(?<y>.)\")", "[scan(\"\\\\w\")]", "test(\"A\"; \"i\")", "[match(\"\"; \"g\")] | length",
	"try test(\"(\") catch .", "try test(\"[\") catch \"bad\"", "[.[]? | strings | try test(\"a(\") catch \"bad\"]", "try sub(\"(?<x\"; \"y\") catch .", "(test(\"a\"; \"x\"))?", "try ([match(\"*\"; \"g\")] | length) catch \"bad\"",
	"[try test(\"(\") catch 1, try test(\"(\") catch 2]", "try capture(\"(?P<n\") catch .", "[test(\"a.b\"), test(\"a.b\"; \"s\")?, test(\"a.b\"; \"x\")?, test(\"A.B\"; \"i\")]", "try splits(\"+\") catch \"bad\"",
	"ascii_downcase | test(\"b|c\")", "split(\"a\"; null)", "[.[]? | strings | test(\"^a\")]", "tostring | test(\"[0-9]+\")", "tojson | [match(\"[\\\\[\\\\]]\"; \"g\")] | length",
	"builtins | length", "builtins | sort | .[-1]", "[builtins[] | strings] | length", "builtins | map(type) | unique", "[builtins, builtins] | map(length)", "builtins | index(\"yn/2\") != null",
	"$ENV | length", "env | keys", "$__loc__", "[limit(3; repeat(1))]", "[range(5)] | map(. * 2)", "reduce range(10) as $i (0; . + $i)", "[foreach range(5) as $i (0; . + $i)]", "path(..)", "[.. | numbers]",
	"def f: if . > 3 then . else . + 1 | f end; 0 | f", "[limit(5; recurse(. + 1))]?", "first(.[]?)", "isempty(.[]?)", "[.[]? | tojson | fromjson]", "@json", "@base64", "ltrimstr(\"a\")?", "\"\\(.)\"",
}

// withSpare rebuilds every array of v with three hidden slots beyond its length.
func withSpare(v any) any {
	switch v := v.(type) {
	case []any:
		if v == nil {
			return v
		}
		w := make([]any, len(v), len(v)+3)
		for i, x := range v {
			w[i] = withSpare(x)
		}
		return w
	case map[string]any:
		for k, x := range v {
			v[k] = withSpare(x)
		}
	}
	return v
}

func bigOf(s string) *big.Int {
	b, _ := new(big.Int).SetString(s, 10)
	return b
}

func inputGen() *rapid.Generator[any] {
	fixed := []any{
		map[string]any{"a": map[string]any{"q": 1, "r": []any{1, 2}}, "b": map[string]any{"a": 2}},
		map[string]any{"a": []any{1, 2, map[string]any{"b": nil}}, "b": "x", "c": map[string]any{"a": 1}},
		[]any{map[string]any{"a": 1, "b": 2}, map[string]any{"a": 3, "b": 4}}, []any{[]any{1, 2}, []any{3}}, []any{3, 1, 2}, "abcabc", "aAbB", 1, nil,
		map[string]any{"a": map[string]any{"q": map[string]any{"z": 1}}}, []any{"abc", "bcd", "a"}, map[string]any{"a": 1, "b": []any{map[string]any{"a": map[string]any{"q": 2}}}},
		map[string]any{"n": bigOf("100000000000000000000"), "m": bigOf("-9223372036854775809"), "k": 3}, map[string]any{"n": bigOf("18446744073709551616"), "m": bigOf("18446744073709551615"), "k": bigOf("36893488147419103232")},
		[]any{bigOf("100000000000000000000"), 2, bigOf("-100000000000000000000"), 3},
		[]any{map[string]any{}, map[string]any{"a": 1}, map[string]any{"b": 2}}, []any{[]any{}, []any{1}, []any{2}}, map[string]any{"a": map[string]any{}, "b": map[string]any{"x": 1}}, []any{nil, map[string]any{}, map[string]any{"c": []any{1}}},
	}
	return rapid.OneOf(rapid.SampledFrom(fixed), rapid.SampledFrom(fixed), gen.Value(gen.Opt{MaxDepth: 3, MaxWidth: 3, SmallInts: true}))
}

var modes = []string{"code-shared-input", "code-shared-input", "code-own-input", "query-shared-input", "query-own-input", "compile-each", "code-cancel-mix"}

// cancelledRun runs code under a context that fires at the given poll and
// drains the iterator as a consumer would: the values before the context's
// error are a prefix of the uncancelled outputs, and after that error (or the
// end) Next returns false for good.
func cancelledRun(code *gojq.Code, in any, limit int, want []any) (msg string) {
	defer func() {
		if r := recover(); r != nil {
			msg = fmt.Sprintf("panic: %v", r)
		}
	}()
	ctx := run.NewCountCtx(limit)
	it := code.RunWithContext(ctx, in)
	n, ended := 0, false
	for i := 0; i < maxOuts+50; i++ {
		x, ok := it.Next()
		if !ok {
			// two more polls: false for good
			for k := 0; k < 2; k++ {
				if y, ok := it.Next(); ok {
					return fmt.Sprintf("Next returned %s after it had returned false", univ.Show(y))
				}
			}
			return ""
		}
		if ended {
			return fmt.Sprintf("Next returned %s after the context's error", univ.Show(x))
		}
		if e, isErr := x.(error); isErr {
			if ctx.Fired() && e == ctx.Err() {
				ended = true
				continue
			}
			// an error of the program itself: terminal for this comparison
			return ""
		}
		if n >= len(want) || !univ.Same(x, want[n]) {
			w := "<nothing>"
			if n < len(want) {
				w = univ.Show(want[n])
			}
			return fmt.Sprintf("output %d is %s, the uncancelled run gives %s", n, univ.Show(x), w)
		}
		n++
	}
	return ""
}

func replayCase(sub string, raw json.RawMessage) string {
	if sub == "options" {
		return replayOpt(raw)
	}
	var c concCase
	if err := json.Unmarshal(raw, &c); err != nil {
		return "bad replay: " + err.Error()
	}
	// a schedule-dependent failure needs several attempts to show again
	m, _ := check(c, 30)
	return m
}

func judge(t *rapid.T, sub string, c concCase) {
	rec.Eval()
	rec.Journal(sub, c)
	rec.Sample(c)
	m, d := check(c, 1)
	if d != "" {
		rec.Discard(d)
		return
	}
	rec.Class("mode/" + c.Mode)
	rec.Class(fmt.Sprintf("goroutines/%d", c.Goroutines))
	rec.NT(fmt.Sprint(c.Query, c.Mode, c.Goroutines) + univ.Show(c.Input.X))
	if m != "" {
		t.Fatalf("%s", rec.Fail(sub, c, "%s", m))
	}
}

func TestC06(t *testing.T) {
	rec = evid.Open("C06")
	defer rec.Close()
	defer modfix.Remove()
	rec.ShrinkTime = "20s"
	var err error
	if model, err = refjq.New(); err != nil {
		t.Fatal(err)
	}
	rec.Replays(replayCase)
	if rec.ReplayPath() != "" {
		return
	}
	inputs := inputGen()
	gs := rapid.SampledFrom([]int{2, 2, 8, 8, 32})
	draw := func(t *rapid.T, q string) concCase {
		g := gs.Draw(t, "goroutines")
		reps := 3
		if g == 32 {
			reps = 1
		}
		return concCase{Query: q, Input: univ.V{X: inputs.Draw(t, "input")}, Goroutines: g, Reps: reps, Mode: rapid.SampledFrom(modes).Draw(t, "mode")}
	}
	rec.Rapid(t, "templates", rec.Scale(6000, 200000), func(t *rapid.T) {
		q := rapid.SampledFrom(templates).Draw(t, "q")
		if rapid.IntRange(0, 2).Draw(t, "mutating") == 0 {
			// the structure-sharing programs of C05 (no $v here)
			if m := rapid.SampledFrom(append(append([]string{}, gen.MutatingPrograms...), custom.Programs...)).Draw(t, "mq"); !strings.Contains(m, "$v") {
				q = m
			}
		}
		if rapid.IntRange(0, 3).Draw(t, "compose") == 0 {
			q = "(" + q + ")?, (" + rapid.SampledFrom(templates).Draw(t, "q2") + ")?"
		}
		rec.Class("tier/templates")
		judge(t, "templates", draw(t, q))
	})
	progs := gen.Program(gen.Conf{AltPat: true, AltPatFree: true, Paths: true, Builtins: true, Update: true, MaxNodes: 25})
	rec.Rapid(t, "general", rec.Scale(3000, 100000), func(t *rapid.T) {
		rec.Class("tier/general")
		judge(t, "general", draw(t, progs.Draw(t, "prog").Src))
	})
	vars := rapid.OneOf(inputs, rapid.SampledFrom([]any{
		map[string]any{"a": map[string]any{"q": 1, "r": []any{1, 2}}}, []any{3, 1, 2, 1}, []any{[]any{2, 1}, []any{1}}, []any{map[string]any{"a": 2}, map[string]any{"a": 1}},
	}))
	rec.Rapid(t, "options", rec.Scale(3000, 100000), func(t *rapid.T) {
		rec.Class("tier/options")
		q := rapid.SampledFrom(modfix.Programs).Draw(t, "q")
		if rapid.IntRange(0, 3).Draw(t, "compose") == 0 {
			// imports come first: only import-free programs can follow
			if q2 := rapid.SampledFrom(modfix.Programs).Draw(t, "q2"); !strings.Contains(q2, "import ") && !strings.Contains(q2, "include ") {
				q = q + ", (" + q2 + ")"
			}
		}
		g := gs.Draw(t, "goroutines")
		reps := 3
		if g == 32 {
			reps = 1
		}
		judgeOpt(t, optCase{Query: q, Input: univ.V{X: inputs.Draw(t, "input")}, Var: univ.V{X: vars.Draw(t, "var")}, Goroutines: g, Reps: reps,
			Mode: rapid.SampledFrom([]string{"code-shared", "code-shared", "compile-each"}).Draw(t, "mode")})
	})
	qs, err := corpus.Queries()
	if err != nil {
		t.Fatal(err)
	}
	var usable []string
	for _, q := range qs {
		lq := strings.ToLower(q)
		if strings.Contains(lq, "input") || strings.Contains(lq, "now") || strings.Contains(lq, "localtime") || strings.Contains(lq, "debug") || strings.Contains(lq, "stderr") || strings.Contains(lq, "$__prog") || strings.Contains(lq, "import") || strings.Contains(lq, "include") || strings.Contains(lq, "mktime") || strings.Contains(lq, "strflocaltime") {
			continue
		}
		usable = append(usable, q)
	}
	rec.Rapid(t, "corpus", rec.Scale(3000, 100000), func(t *rapid.T) {
		rec.Class("tier/corpus")
		judge(t, "corpus", draw(t, rapid.SampledFrom(usable).Draw(t, "q")))
	})
}
