package c06

// Sub-check "options": the compile options are shared between the goroutines
// as well — one module loader (gojq.NewModuleLoader over a directory of
// modules and data files; `modulemeta` calls it at run time, Compile calls it
// for import/include), one set of variable values handed to every run, one
// environment loader.  The loader is fresh (nothing loaded yet) when the
// goroutines start, so whatever it initialises lazily is first touched
// concurrently; the sequential baseline uses a loader of its own.

import (
	"encoding/json"
	"fmt"
	"os"
	"path/filepath"
	"strings"
	"sync"
	"time"

	"github.com/itchyny/gojq"
	"pgregory.net/rapid"

	"verif/internal/run"
	"verif/internal/univ"
)

type optCase struct {
	Query      string `json:"query"`
	Input      univ.V `json:"input"`
	Var        univ.V `json:"var"`
	Goroutines int    `json:"goroutines"`
	Reps       int    `json:"reps"`
	Mode       string `json:"mode"` // code-shared | compile-each
}

var moduleFiles = map[string]string{
	"m1.jq":    `module {"name":"m1","v":[1,{"a":2}]}; def f: . as $x | [$x, 1]; def k: {"a":[1,2]} | del(.a[0]); def c: [3,1,2] | sort;`,
	"m2.jq":    `module {"name":"m2"}; import "m1" as m1; import "d" as $d; def g(x): [x, (1 | m1::f), $d::d[0]]; def h: $d::d | .[0].a += [1]; def w: $d::d[0] | del(.b.c);`,
	"m3/m3.jq": `import "m1" as a; import "m2" as b; def f: [a::c, b::h, "m3"]; def r: test("A+b"; "i");`,
	"m4.jq":    `include "m1"; include "m3"; def q: [f, k];`,
	"d.json":   `{"a":[1,2],"b":{"c":null,"d":[{"e":1}]}} [3,[4]]`,
	"e.json":   `[{"a":{"q":1}},{"a":{"q":2}}]`,
}

var optPrograms = []string{
	`import "m1" as m; m::f`, `import "m1" as m; [m::k, m::c, (.[]? | m::f)]`, `include "m1"; f, k, c`,
	`import "m2" as m; m::g(.)`, `import "m2" as m; [m::h, m::w, m::h]`, `include "m2"; [g(1), h, w]`,
	`import "m3" as m; m::f`, `import "m3" as m; [("ab", "aab", "b") | m::r]`, `include "m4"; q`, `import "m4" as m; m::q, m::f`,
	`import "d" as $d; $d`, `import "d" as $d; $d::d[0] | del(.a[0])`, `import "d" as $d; [$d[0], ($d[0] | .b.d[0].e = 9), $d[0]]`, `import "d" as $d; $d | map(tojson)`,
	`import "e" as $e; $e::e[0] | map(del(.a.q))`, `import "e" as $e; import "d" as $d; [$e, $d] | map(.[0] | length)`, `import "e" as $e; $e[0] | sort_by(.a.q) | reverse`,
	`"m1" | modulemeta`, `"m2" | modulemeta`, `[("m1", "m2", "m3", "m4") | modulemeta | .deps | length]`, `("m1", "m2") | modulemeta | .defs`, `try ("nope" | modulemeta) catch .`,
	`"m3" | modulemeta | .deps | map(.relpath)`, `[limit(6; repeat("m1", "m4")) | modulemeta | .defs | length]`, `"m1" | modulemeta | .v | .[1].a += 1`, `"m1" | modulemeta | del(.v[0])`,
	`import "m2" as m; [m::g(.), ("m2" | modulemeta | .deps[0].relpath)]`, `import "m1" as m; ("m1" | modulemeta | .name) as $n | [$n, m::f]`, `[.[]? | strings | try modulemeta catch "bad"]`,
	`import "m1" as m; import "m2" as n; import "m3" as o; import "m4" as p; [m::c, n::h, o::f, p::q] | length`,
	`$v`, `$v | del(.a)?`, `($v | .a.q = 1)?, $v`, `[$v, $v] | map(tojson)`, `$v | (.. |= .)`, `[$v | .[]?] | sort`, `$v | to_entries?`, `$v | tostream`, `[$v | paths]`, `. as $x | $v | [., $x]`,
	`$v | (.[0] |= . + 1)?`, `$v | (.a += [1])?`, `try ($v | delpaths([["a","q"]])) catch .`, `$v | add?`, `$v | (unique, sort, reverse)?`, `$v | (.[1:] = [7])?`, `[$v] | flatten`, `$v | walk(.)`,
	`$ENV.VERIF_A`, `env | .VERIF_B`, `$ENV | keys`, `[$ENV, env] | map(length)`, `$ENV | del(.VERIF_A) | keys`, `env.VERIF_A |= . + "x"`, `[env[]] | sort`,
	`import "m1" as m; [$v, m::f, $ENV.VERIF_A, ("m1" | modulemeta | .name)]`, `include "m2"; [g($v), $ENV.VERIF_B] | tojson`,
}

var (
	modOnce sync.Once
	modRoot string
)

func modDir() string {
	modOnce.Do(func() {
		d, err := os.MkdirTemp("", "c06-modules-")
		if err != nil {
			panic(err)
		}
		for name, src := range moduleFiles {
			p := filepath.Join(d, name)
			if err := os.MkdirAll(filepath.Dir(p), 0o755); err != nil {
				panic(err)
			}
			if err := os.WriteFile(p, []byte(src), 0o644); err != nil {
				panic(err)
			}
		}
		modRoot = d
	})
	return modRoot
}

func removeModDir() {
	if modRoot != "" {
		os.RemoveAll(modRoot)
	}
}

func environ() []string { return []string{"VERIF_A=a", "VERIF_B=b=c", "VERIF_C="} }

func optOptions(loader gojq.ModuleLoader) []gojq.CompilerOption {
	return []gojq.CompilerOption{gojq.WithModuleLoader(loader), gojq.WithVariables([]string{"$v"}), gojq.WithEnvironLoader(environ)}
}

func checkOpt(c optCase, repeat int) (msg, discard string) {
	q, err := gojq.Parse(c.Query)
	if err != nil {
		return "", "parse-error"
	}
	dir := modDir()
	baseCode, err := gojq.Compile(q, optOptions(gojq.NewModuleLoader([]string{dir}))...)
	if err != nil {
		return "", "compile-error"
	}
	base := run.Exec(baseCode, univ.Copy(c.Input.X), steps, maxOuts, univ.Copy(c.Var.X))
	if base.Budget {
		return "", "budget"
	}
	if base.Panic != "" {
		return "gojq panicked: " + base.Panic, ""
	}
	baseline := render(base)
	shared, sharedVar := univ.Copy(c.Input.X), univ.Copy(c.Var.X)
	snapshot, snapshotVar := univ.Copy(shared), univ.Copy(sharedVar)
	for round := 0; round < repeat; round++ {
		loader := gojq.NewModuleLoader([]string{dir}) // fresh: nothing loaded through it yet
		opts := optOptions(loader)
		var code *gojq.Code
		if c.Mode == "code-shared" {
			if code, err = gojq.Compile(q, opts...); err != nil {
				return "compiling with a fresh loader failed: " + err.Error(), ""
			}
		}
		var wg sync.WaitGroup
		var mu sync.Mutex
		var failure string
		finished := 0
		start := make(chan struct{})
		for g := 0; g < c.Goroutines; g++ {
			wg.Add(1)
			go func(g int) {
				defer wg.Done()
				defer func() { mu.Lock(); finished++; mu.Unlock() }()
				<-start
				for r := 0; r < c.Reps; r++ {
					var res run.Result
					cc := code
					if cc == nil {
						var err error
						if cc, err = gojq.Compile(q, opts...); err != nil {
							res.Panic = "compile failed concurrently: " + err.Error()
						}
					}
					if cc != nil {
						res = run.Exec(cc, shared, steps, maxOuts, sharedVar)
					}
					if got := render(res); got != baseline && !res.Budget {
						mu.Lock()
						if failure == "" {
							failure = fmt.Sprintf("goroutine %d repetition %d (%s) produced\n%s\nthe sequential run produced\n%s", g, r, c.Mode, got, baseline)
						}
						mu.Unlock()
						return
					}
				}
			}(g)
		}
		close(start)
		done := make(chan struct{})
		go func() { wg.Wait(); close(done) }()
		select {
		case <-done:
		case <-time.After(watchdog):
			mu.Lock()
			n := finished
			mu.Unlock()
			return fmt.Sprintf("deadlock: only %d of %d goroutines finished within %v (%s)", n, c.Goroutines, watchdog, c.Mode), ""
		}
		if failure != "" {
			return failure, ""
		}
		if !univ.Same(shared, snapshot) {
			return fmt.Sprintf("the shared input changed: %s -> %s", univ.Show(snapshot), univ.Show(shared)), ""
		}
		if !univ.Same(sharedVar, snapshotVar) {
			return fmt.Sprintf("the shared value of $v changed: %s -> %s", univ.Show(snapshotVar), univ.Show(sharedVar)), ""
		}
	}
	return "", ""
}

func replayOpt(raw json.RawMessage) string {
	var c optCase
	if err := json.Unmarshal(raw, &c); err != nil {
		return "bad replay: " + err.Error()
	}
	m, _ := checkOpt(c, 30)
	return m
}

func judgeOpt(t *rapid.T, c optCase) {
	rec.Eval()
	rec.Journal("options", c)
	rec.Sample(c)
	m, d := checkOpt(c, 1)
	if d != "" {
		rec.Discard(d)
		return
	}
	rec.Class("mode/options-" + c.Mode)
	rec.Class(fmt.Sprintf("goroutines/%d", c.Goroutines))
	switch {
	case strings.Contains(c.Query, "modulemeta"):
		rec.Class("options/modulemeta")
	case strings.Contains(c.Query, "import") || strings.Contains(c.Query, "include"):
		rec.Class("options/import")
	case strings.Contains(c.Query, "$v"):
		rec.Class("options/variable")
	default:
		rec.Class("options/environment")
	}
	rec.NT(fmt.Sprint("options", c.Query, c.Mode, c.Goroutines) + univ.Show(c.Input.X) + univ.Show(c.Var.X))
	if m != "" {
		t.Fatalf("%s", rec.Fail("options", c, "%s", m))
	}
}
