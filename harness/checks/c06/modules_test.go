package c06

// Sub-check "options": the compile options are shared between the goroutines
// as well — one module loader (gojq.NewModuleLoader over a directory of
// modules and data files; `modulemeta` calls it at run time, Compile calls it
// for import/include), one set of variable values handed to every run, one
// environment loader.  The loader is fresh (nothing loaded yet) when the
// goroutines start, so whatever it initialises lazily is first touched
// concurrently; the sequential baseline uses a loader of its own.

import (
	"encoding/json"
	"fmt"
	"strings"
	"sync"
	"time"

	"github.com/itchyny/gojq"
	"pgregory.net/rapid"

	"verif/internal/modfix"
	"verif/internal/run"
	"verif/internal/univ"
)

type optCase struct {
	Query      string `json:"query"`
	Input      univ.V `json:"input"`
	Var        univ.V `json:"var"`
	Goroutines int    `json:"goroutines"`
	Reps       int    `json:"reps"`
	Mode       string `json:"mode"` // code-shared | compile-each
}

func optOptions(loader gojq.ModuleLoader) []gojq.CompilerOption {
	return []gojq.CompilerOption{gojq.WithModuleLoader(loader), gojq.WithVariables([]string{"$v"}), gojq.WithEnvironLoader(modfix.Environ)}
}

func checkOpt(c optCase, repeat int) (msg, discard string) {
	q, err := gojq.Parse(c.Query)
	if err != nil {
		return "", "parse-error"
	}
	dir := modfix.Dir()
	baseCode, err := gojq.Compile(q, optOptions(gojq.NewModuleLoader([]string{dir}))...)
	if err != nil {
		return "", "compile-error"
	}
	base := run.Exec(baseCode, withSpare(univ.Copy(c.Input.X)), steps, maxOuts, withSpare(univ.Copy(c.Var.X)))
	if base.Budget {
		return "", "budget"
	}
	if base.Panic != "" {
		return "gojq panicked: " + base.Panic, ""
	}
	baseline := render(base)
	shared, sharedVar := withSpare(univ.Copy(c.Input.X)), withSpare(univ.Copy(c.Var.X))
	snapshot, snapshotVar := univ.Copy(shared), univ.Copy(sharedVar)
	for round := 0; round < repeat; round++ {
		loader := gojq.NewModuleLoader([]string{dir}) // fresh: nothing loaded through it yet
		opts := optOptions(loader)
		var code *gojq.Code
		if c.Mode == "code-shared" {
			if code, err = gojq.Compile(q, opts...); err != nil {
				return "compiling with a fresh loader failed: " + err.Error(), ""
			}
		}
		var wg sync.WaitGroup
		var mu sync.Mutex
		var failure string
		finished := 0
		start := make(chan struct{})
		for g := 0; g < c.Goroutines; g++ {
			wg.Add(1)
			go func(g int) {
				defer wg.Done()
				defer func() { mu.Lock(); finished++; mu.Unlock() }()
				<-start
				for r := 0; r < c.Reps; r++ {
					var res run.Result
					cc := code
					if cc == nil {
						var err error
						if cc, err = gojq.Compile(q, opts...); err != nil {
							res.Panic = "compile failed concurrently: " + err.Error()
						}
					}
					if cc != nil {
						res = run.Exec(cc, shared, steps, maxOuts, sharedVar)
					}
					if got := render(res); got != baseline && !res.Budget {
						mu.Lock()
						if failure == "" {
							failure = fmt.Sprintf("goroutine %d repetition %d (%s) produced\n%s\nthe sequential run produced\n%s", g, r, c.Mode, got, baseline)
						}
						mu.Unlock()
						return
					}
				}
			}(g)
		}
		close(start)
		done := make(chan struct{})
		go func() { wg.Wait(); close(done) }()
		select {
		case <-done:
		case <-time.After(watchdog):
			mu.Lock()
			n := finished
			mu.Unlock()
			return fmt.Sprintf("deadlock: only %d of %d goroutines finished within %v (%s)", n, c.Goroutines, watchdog, c.Mode), ""
		}
		if failure != "" {
			return failure, ""
		}
		if !univ.Same(shared, snapshot) {
			return fmt.Sprintf("the shared input changed: %s -> %s", univ.Show(snapshot), univ.Show(shared)), ""
		}
		if !univ.Same(sharedVar, snapshotVar) {
			return fmt.Sprintf("the shared value of $v changed: %s -> %s", univ.Show(snapshotVar), univ.Show(sharedVar)), ""
		}
	}
	return "", ""
}

func replayOpt(raw json.RawMessage) string {
	var c optCase
	if err := json.Unmarshal(raw, &c); err != nil {
		return "bad replay: " + err.Error()
	}
	m, _ := checkOpt(c, 30)
	return m
}

func judgeOpt(t *rapid.T, c optCase) {
	rec.Eval()
	rec.Journal("options", c)
	rec.Sample(c)
	m, d := checkOpt(c, 1)
	if d != "" {
		rec.Discard(d)
		return
	}
	rec.Class("mode/options-" + c.Mode)
	rec.Class(fmt.Sprintf("goroutines/%d", c.Goroutines))
	switch {
	case strings.Contains(c.Query, "modulemeta"):
		rec.Class("options/modulemeta")
	case strings.Contains(c.Query, "import") || strings.Contains(c.Query, "include"):
		rec.Class("options/import")
	case strings.Contains(c.Query, "$v"):
		rec.Class("options/variable")
	default:
		rec.Class("options/environment")
	}
	rec.NT(fmt.Sprint("options", c.Query, c.Mode, c.Goroutines) + univ.Show(c.Input.X) + univ.Show(c.Var.X))
	if m != "" {
		t.Fatalf("%s", rec.Fail("options", c, "%s", m))
	}
}
