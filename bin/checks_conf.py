# Configuration of bin/check: one conf.json per check package
# (harness/checks/cNN/conf.json), plus manifest-level constants.
import glob
import json
import os

ROOT = os.path.dirname(os.path.dirname(os.path.abspath(__file__)))
CONF = {}
for _f in sorted(glob.glob(os.path.join(ROOT, "harness", "checks", "c*", "conf.json"))):
    _pid = os.path.basename(os.path.dirname(_f)).upper()
    CONF[_pid] = json.load(open(_f))

HOOKS = {
    "guard": "verif",
    "enable": "go test -tags verif (the harness module replaces github.com/itchyny/gojq by /repo; bin/check passes -tags verif to every build)",
    "baseline_off_cmd": "cd /repo && go test -vet=off -count=1 -timeout 25m ./...",
    "source_commits": ["fad162e"],
    "add_only": True,
}

NOTES = ("bin/check <id> <quick|thorough> rebuilds the property's test binary from /repo's working tree, runs it in shards with rapid seeds derived from "
         "VERIF_SEED, attributes process deaths through an in-flight journal, merges shard results into evidence/<id>.json. Exit 0 held / 1 violation / 2 machinery. "
         "Violating cases are written to /verif/found/<id>/ (replay with bin/check <id> --replay <file>); curated regressions live in /verif/replays/<id>/; "
         "known findings in /verif/known_findings/<id>.json.")

_ALL = []
NOT_APPLICABLE = {p: "check still under construction in this session (the technique applies; see DESIGN.md section 4): not claimed until it has run clean on the unchanged tree at several seeds" for p in _ALL}
