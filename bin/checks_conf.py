# Per-property configuration of bin/check.
CONF = {
    "C10": {
        "level": "exploration",
        "cli": True,
        "technique": "property-based testing: bounded-exhaustive boundary pairs + rapid generators against a math/big / strconv oracle",
        "level_text": ("Every ordered pair of a boundary set (around 0, 2^k, 2^63, 2^64, sqrt(2^63)) under 11 binary and 3 unary operators in every exact Go "
                       "representation is compared with math/big; random operands up to 40 digits, JSON number literals of every lexical shape through 31 pass-through "
                       "queries, float64 bit-pattern classes and batches through cmd/gojq (its separate encoder) are checked against strconv/encoding/json. "
                       "Exploration: the int fast paths are decided per operand pair, so a boundary-exhaustive sweep plus random search is the fitting level."),
        "level_note": "Trusted: math/big, strconv, encoding/json. Non-integral quotients are only sanity-checked (1e-14 relative). Absence beyond the explored pairs is not shown.",
        "rule": ("cases: (E) every ordered pair of the boundary set (0, +-1, +-2^k+-{0,1,2}, int64 and sqrt(2^63) neighbours, ...) x 11 binary operators "
                 "and 3 unary ones in exact Go representations; (R) rapid-generated operand pairs, JSON number literals of every lexical shape through 34 "
                 "pass-through queries, float64 bit patterns by class, batches through cmd/gojq. Oracle: math/big, strconv, encoding/json. "
                 "Non-trivial: an operand or the exact result lies within 3 of +-2^63/+-2^64/0, or operands and result fall on different sides of the "
                 "int64 boundary, or the operands use different magnitude classes; literals longer than 3 bytes; every float bit pattern. "
                 "Distinct = distinct (op, a, b, representations) / (literal, query) / bits."),
        "assumptions": ["math/big, strconv and encoding/json are correct",
                        "non-integral quotients are only checked to be within 1e-14 relative of the true quotient (the property does not state their rounding)"],
    },
}

HOOKS = {
    "guard": "verif",
    "enable": "go test -tags verif (the harness module replaces github.com/itchyny/gojq by /repo; bin/check passes -tags verif to every build)",
    "baseline_off_cmd": "cd /repo && go test -vet=off -count=1 -timeout 25m ./...",
    "source_commits": [],
    "add_only": True,
}

NOTES = ("bin/check <id> <quick|thorough> rebuilds the property's test binary from /repo's working tree, runs it in shards with rapid seeds derived from "
         "VERIF_SEED, attributes process deaths through an in-flight journal, merges shard results into evidence/<id>.json. Exit 0 held / 1 violation / 2 machinery. "
         "Violating cases are written to /verif/found/<id>/ (replay with bin/check <id> --replay <file>); curated regressions live in /verif/replays/<id>/; "
         "known findings in /verif/known_findings.json.")

NOT_APPLICABLE = {p: "check not built yet in this session (work in progress; see DESIGN.md section 4)" for p in
                  ["C01","C02","C03","C04","C05","C06","C07","C08","C09","C10","C11","C12","C13","C14","C15","C16","C17","C18","C19","C20"]}
